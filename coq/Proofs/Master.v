(* C16: master-server filters denote what was inserted; paging is complete. *)
From GD Require Import Base.Prelude Model.StrOps Model.Strings Model.Buffer Model.Net Model.Master Proofs.Str Spec.CaseEnc Spec.MasterSpec.
From GD Require Import Proofs.BufferLemmas Proofs.ReadSpecs Proofs.Varint Proofs.ValveRoundtrip Proofs.ValveTransport.
From Coq Require Import ZifyBool ZifyNat ZifyN.

(* ---------------- filters ---------------- *)
Lemma filter_bytes_pair : forall f,
  filter_bytes f = match filter_pair f with Some p => chunk 92 p | None => [] end.
Proof. intros [b|s|b|b|b|b|n|n|tags|s|s|b|s|b|b|b|b|s]; try reflexivity. destruct tags; reflexivity. Qed.

Lemma concat_filter_bytes : forall l, concat (map filter_bytes l) = concat (map (chunk 92) (pairs_of l)).
Proof.
  induction l as [|f l IH]; [reflexivity|]. cbn [map concat pairs_of flat_map]. rewrite filter_bytes_pair.
  destruct (filter_pair f) as [p|]; cbn [app map concat]; rewrite IH; reflexivity.
Qed.
Lemma chunk_nonempty : forall p, chunk 92 p <> [].
Proof. intros [k v]. discriminate. Qed.
Lemma nonempty_filter_bytes : forall l,
  filter (fun b : bytes => match b with [] => false | _ => true end) (map filter_bytes l) = map (chunk 92) (pairs_of l).
Proof.
  induction l as [|f l IH]; [reflexivity|]. cbn [map filter pairs_of flat_map]. rewrite filter_bytes_pair.
  destruct (filter_pair f) as [[k v]|]; cbn [app map]; rewrite IH; reflexivity.
Qed.

Definition hdr (name : string) (l : pairs_t) : pairs_t :=
  match l with [] => [] | _ => [(str name, show_N (lenN l))] end.
Lemma special_bytes_chunks : forall name vals,
  special_bytes name vals = concat (map (chunk 92) (hdr name (pairs_of vals) ++ pairs_of vals)).
Proof.
  intros name vals. unfold special_bytes. rewrite nonempty_filter_bytes.
  destruct (pairs_of vals) as [|p ps] eqn:E; [reflexivity|].
  unfold hdr. cbn [map app concat]. unfold lenN. cbn [length]. rewrite map_length.
  change (chunk 92 (str name, show_N (N.of_nat (S (length ps)))))
    with ([92] ++ str name ++ [92] ++ show_N (N.of_nat (S (length ps)))).
  repeat rewrite <- app_assoc. reflexivity.
Qed.

Definition all_pairs (plain nand nor : list mfilter) : pairs_t :=
  pairs_of plain ++ (hdr "nand" (pairs_of nand) ++ pairs_of nand) ++ (hdr "nor" (pairs_of nor) ++ pairs_of nor).
Lemma sf_bytes_chunks : forall plain nand nor,
  sf_bytes_ord plain nand nor = concat (map (chunk 92) (all_pairs plain nand nor)) ++ [0].
Proof.
  intros. unfold sf_bytes_ord, all_pairs. rewrite concat_filter_bytes, !special_bytes_chunks.
  rewrite !map_app, !concat_app. repeat rewrite <- app_assoc. reflexivity.
Qed.

Lemma pair_up_flat : forall l, pair_up (flat_kv l) = Some l.
Proof. induction l as [|[k v] l IH]; [reflexivity|]. cbn [flat_kv pair_up]. rewrite IH. reflexivity. Qed.

(* keys of real filters are never the group keywords, and contain no backslash *)
Lemma filter_pair_key : forall f k v, filter_pair f = Some (k, v) ->
  bytes_eqb k (str "nand") || bytes_eqb k (str "nor") = false /\ no_delim 92 k.
Proof.
  intros f k v H.
  destruct f as [b|s|b|b|b|b|n|n|tags|s|s|b|s|b|b|b|b|s]; cbn [filter_pair] in H;
    try (destruct tags; [discriminate|]); inversion H; subst; (split; [reflexivity|]);
    unfold no_delim; cbn; intuition discriminate.
Qed.
Lemma clean_no_delim : forall s, clean s = true -> no_delim 92 s.
Proof.
  intros s H Hin. unfold clean in H. rewrite forallb_forall in H. specialize (H 92 Hin). discriminate.
Qed.
Lemma intercalate_clean : forall tags, forallb clean tags = true -> no_delim 92 (intercalate [44] tags).
Proof.
  induction tags as [|t tags IH]; intro H; [intros []|].
  cbn [forallb] in H. apply andb_prop in H. destruct H as [Ht Hts]. cbn [intercalate].
  destruct tags as [|t2 tags]; [apply clean_no_delim; exact Ht|].
  intro Hin. apply in_app_or in Hin. destruct Hin as [Hin|Hin]; [exact (clean_no_delim t Ht Hin)|].
  apply in_app_or in Hin. destruct Hin as [[Hc|[]]|Hin]; [discriminate|exact (IH Hts Hin)].
Qed.
Lemma filter_pair_value : forall f k v, filter_wf f = true -> filter_pair f = Some (k, v) -> no_delim 92 v.
Proof.
  intros f k v Hwf H.
  assert (Hb : forall b, no_delim 92 (bchar b)) by (intros [|]; unfold no_delim; cbn; intuition discriminate).
  assert (Hn : forall n, no_delim 92 (show_N n)) by (intros n Hin; apply show_N_digits in Hin; lia).
  destruct f as [b|s|b|b|b|b|n|n|tags|s|s|b|s|b|b|b|b|s]; cbn [filter_pair filter_wf] in *;
    try (inversion H; subst; first [apply Hb | apply Hn | apply clean_no_delim; assumption]).
  destruct tags as [|t0 tags]; [discriminate|]. inversion H; subst.
  change (no_delim 92 (intercalate [44] (t0 :: tags))). apply intercalate_clean. exact Hwf.
Qed.

Lemma pairs_of_props : forall l, forallb filter_wf l = true ->
  Forall (fun kv => (bytes_eqb (fst kv) (str "nand") || bytes_eqb (fst kv) (str "nor") = false)
                    /\ no_delim 92 (fst kv) /\ no_delim 92 (snd kv)) (pairs_of l).
Proof.
  induction l as [|f l IH]; intro H; [constructor|]. cbn [forallb] in H. apply andb_prop in H. destruct H as [Hf Hl].
  cbn [pairs_of flat_map]. destruct (filter_pair f) as [[k v]|] eqn:E; cbn [app]; [|apply IH; exact Hl].
  constructor; [|apply IH; exact Hl]. cbn [fst snd]. destruct (filter_pair_key f k v E) as [H1 H2].
  split; [exact H1|split; [exact H2|exact (filter_pair_value f k v Hf E)]].
Qed.

(* the walk over the pairs: plain filters, then the groups *)
Lemma group_plain : forall l rest fuel g,
  Forall (fun kv => bytes_eqb (fst kv) (str "nand") || bytes_eqb (fst kv) (str "nor") = false) l ->
  group_pairs (length l + fuel) (l ++ rest) g
  = group_pairs fuel rest (mk_groups (gr_plain g ++ l) (gr_nand g) (gr_nor g)).
Proof.
  induction l as [|[k v] l IH]; intros rest fuel g H.
  - cbn [length app Nat.add]. rewrite app_nil_r. destruct g; reflexivity.
  - inversion H as [|x xs Hk Hl]; subst. cbn [fst] in Hk. cbn [length Nat.add app group_pairs]. rewrite Hk.
    rewrite IH by exact Hl. cbn [gr_plain gr_nand gr_nor]. rewrite <- app_assoc. reflexivity.
Qed.
Lemma take_pairs_app : forall (a b : pairs_t), take_pairs (length a) (a ++ b) = Some (a, b).
Proof. induction a as [|x a IH]; intro b; [reflexivity|]. cbn [length take_pairs app]. rewrite IH. reflexivity. Qed.

Lemma group_nand : forall A fuel rest2 g, (1 <= fuel)%nat ->
  group_pairs fuel ((hdr "nand" A ++ A) ++ rest2) g
  = group_pairs (match A with [] => fuel | _ => fuel - 1 end)%nat rest2 (mk_groups (gr_plain g) (gr_nand g ++ A) (gr_nor g)).
Proof.
  intros A fuel rest2 g Hf. destruct A as [|a0 A'].
  - cbn [hdr app]. rewrite app_nil_r. destruct g; reflexivity.
  - set (A := a0 :: A'). destruct fuel as [|fuel]; [lia|].
    change ((hdr "nand" A ++ A) ++ rest2) with ((str "nand", show_N (lenN A)) :: (A ++ rest2)).
    cbn [group_pairs]. change (bytes_eqb (str "nand") (str "nand")) with true. cbn [orb].
    unfold dec_value. rewrite show_N_read. unfold lenN. rewrite Nat2N.id.
    rewrite take_pairs_app. replace (S fuel - 1)%nat with fuel by lia. reflexivity.
Qed.
Lemma group_nor : forall O fuel rest2 g, (1 <= fuel)%nat ->
  group_pairs fuel ((hdr "nor" O ++ O) ++ rest2) g
  = group_pairs (match O with [] => fuel | _ => fuel - 1 end)%nat rest2 (mk_groups (gr_plain g) (gr_nand g) (gr_nor g ++ O)).
Proof.
  intros O fuel rest2 g Hf. destruct O as [|a0 A'].
  - cbn [hdr app]. rewrite app_nil_r. destruct g; reflexivity.
  - set (A := a0 :: A'). destruct fuel as [|fuel]; [lia|].
    change ((hdr "nor" A ++ A) ++ rest2) with ((str "nor", show_N (lenN A)) :: (A ++ rest2)).
    cbn [group_pairs]. change (bytes_eqb (str "nor") (str "nand")) with false.
    change (bytes_eqb (str "nor") (str "nor")) with true. cbn [orb].
    unfold dec_value. rewrite show_N_read. unfold lenN. rewrite Nat2N.id.
    rewrite take_pairs_app. replace (S fuel - 1)%nat with fuel by lia. reflexivity.
Qed.
Lemma group_end : forall fuel g, (1 <= fuel)%nat -> group_pairs fuel [] g = Some g.
Proof. intros [|f] g H; [lia|reflexivity]. Qed.

Theorem denote_sf_bytes : forall plain nand nor,
  forallb filter_wf plain = true -> forallb filter_wf nand = true -> forallb filter_wf nor = true ->
  denote (sf_bytes_ord plain nand nor) = Some (mk_groups (pairs_of plain) (pairs_of nand) (pairs_of nor)).
Proof.
  intros plain nand nor Hp Ha Ho. rewrite sf_bytes_chunks. unfold denote. rewrite rev_app_distr. cbn [rev app].
  rewrite rev_involutive.
  pose proof (pairs_of_props plain Hp) as PP. pose proof (pairs_of_props nand Ha) as PA. pose proof (pairs_of_props nor Ho) as PO.
  set (P := pairs_of plain) in *. set (A := pairs_of nand) in *. set (O := pairs_of nor) in *.
  assert (Hall : Forall (fun kv => no_delim 92 (fst kv) /\ no_delim 92 (snd kv)) (all_pairs plain nand nor)).
  { unfold all_pairs. fold P A O. repeat (apply Forall_app; split).
    - eapply Forall_impl; [|exact PP]. intros kv [_ H]; exact H.
    - destruct A; [constructor|]. constructor; [|constructor]. cbn [fst snd]. split.
      + unfold no_delim. cbn. intuition discriminate.
      + intro Hin. apply show_N_digits in Hin. lia.
    - eapply Forall_impl; [|exact PA]. intros kv [_ H]; exact H.
    - destruct O; [constructor|]. constructor; [|constructor]. cbn [fst snd]. split.
      + unfold no_delim. cbn. intuition discriminate.
      + intro Hin. apply show_N_digits in Hin. lia.
    - eapply Forall_impl; [|exact PO]. intros kv [_ H]; exact H. }
  destruct (all_pairs plain nand nor) as [|[k v] rest] eqn:Eall.
  - (* no filter at all *)
    cbn [map concat]. unfold all_pairs in Eall. fold P A O in Eall.
    destruct P; [|discriminate]. destruct A; [|discriminate]. destruct O; [|discriminate]. reflexivity.
  - cbn [map concat]. unfold chunk at 1. cbn [fst snd app].
    rewrite <- app_assoc. cbn [app].
    change (k ++ 92 :: v ++ concat (map (chunk 92) rest)) with (k ++ [92] ++ v ++ concat (map (chunk 92) rest)).
    rewrite (split_chunks 92 rest k v Hall).
    change (k :: v :: flat_kv rest) with (flat_kv ((k, v) :: rest)). rewrite pair_up_flat. rewrite <- Eall.
    unfold all_pairs. fold P A O.
    (* plain part *)
    replace (S (length (P ++ (hdr "nand" A ++ A) ++ hdr "nor" O ++ O)))
      with (length P + S (length ((hdr "nand" A ++ A) ++ hdr "nor" O ++ O)))%nat by (rewrite !app_length; lia).
    rewrite group_plain by (eapply Forall_impl; [|exact PP]; intros kv [H _]; exact H).
    cbn [gr_plain gr_nand gr_nor app].
    rewrite <- (app_nil_r (hdr "nor" O ++ O)).
    rewrite group_nand by lia.
    cbn [gr_plain gr_nand gr_nor app].
    rewrite group_nor by (destruct A; destruct O; cbn [hdr length app]; rewrite ?app_length; cbn [hdr length app]; lia).
    cbn [gr_plain gr_nand gr_nor app].
    apply group_end. destruct A; destruct O; cbn [hdr length app]; rewrite ?app_length; cbn [hdr length app]; lia.
Qed.

(* ---------------- insertion: a later filter of a kind replaces the earlier, per group ---------------- *)
Fixpoint fmap_lookup (k : N) (m : fmap) : option mfilter :=
  match m with [] => None | (k', f) :: r => if k' =? k then Some f else fmap_lookup k r end.
Definition group_eqb (a b : group) : bool :=
  match a, b with Plain, Plain | Nand, Nand | Nor, Nor => true | _, _ => false end.
Definition sf_group (g : group) (s : search_filters) : fmap :=
  match g with Plain => sf_plain s | Nand => sf_nand s | Nor => sf_nor s end.
(* the filter of kind k last inserted into group g *)
Definition last_of (ops : list (group * mfilter)) (g : group) (k : N) : option mfilter :=
  fold_left (fun acc gf => if group_eqb (fst gf) g && (discriminant (snd gf) =? k) then Some (snd gf) else acc) ops None.

Lemma fmap_lookup_insert : forall f m k,
  fmap_lookup k (fmap_insert f m) = if discriminant f =? k then Some f else fmap_lookup k m.
Proof.
  intros f m k. induction m as [|[k' g] m IH]; cbn [fmap_insert fmap_lookup].
  - reflexivity.
  - destruct (k' =? discriminant f) eqn:E; cbn [fmap_lookup].
    + assert (k' = discriminant f) by lia. subst k'. destruct (discriminant f =? k); reflexivity.
    + rewrite IH. destruct (k' =? k) eqn:E2; [|reflexivity].
      assert (k' = k) by lia. subst k'. destruct (discriminant f =? k) eqn:E3; [lia|reflexivity].
Qed.

Lemma sf_insert_lookup : forall g' f s g k,
  fmap_lookup k (sf_group g (sf_insert g' f s))
  = if group_eqb g' g && (discriminant f =? k) then Some f else fmap_lookup k (sf_group g s).
Proof.
  intros g' f s g k. destruct g', g; cbn [sf_insert sf_group sf_plain sf_nand sf_nor group_eqb andb];
    try reflexivity; apply fmap_lookup_insert.
Qed.

Theorem insert_last_wins : forall ops g k,
  fmap_lookup k (sf_group g (fold_left (fun s gf => sf_insert (fst gf) (snd gf) s) ops sf_new)) = last_of ops g k.
Proof.
  intros ops g k. unfold last_of.
  assert (G : forall ops s,
    fmap_lookup k (sf_group g (fold_left (fun s gf => sf_insert (fst gf) (snd gf) s) ops s))
    = fold_left (fun acc gf => if group_eqb (fst gf) g && (discriminant (snd gf) =? k) then Some (snd gf) else acc) ops
                (fmap_lookup k (sf_group g s))).
  { induction ops0 as [|[g' f] ops0 IH]; intro s; [reflexivity|]. cbn [fold_left fst snd]. rewrite IH, sf_insert_lookup. reflexivity. }
  rewrite G. destruct g; reflexivity.
Qed.

(* every binding is filed under its own kind, one per kind *)
Lemma fmap_insert_keys : forall f m, Forall (fun kf => fst kf = discriminant (snd kf)) m ->
  Forall (fun kf => fst kf = discriminant (snd kf)) (fmap_insert f m).
Proof.
  intros f m H. induction H as [|[k g] m Hk Hm IH]; cbn [fmap_insert]; [constructor; [reflexivity|constructor]|].
  destruct (k =? discriminant f) eqn:E; constructor; try assumption. cbn [fst snd] in *. lia.
Qed.

(* ---------------- paging ---------------- *)
Lemma read_be_at : forall n v pre r, v < 256 ^ N.of_nat n ->
  read_uint true n (at_ pre (be_bytes n v ++ r)) = (Ok v, at_ (pre ++ be_bytes n v) r).
Proof.
  intros n v pre r Hv. pose proof (read_uint_at true (be_bytes n v) pre r) as H.
  unfold be_bytes in H at 1. rewrite rev_length, le_bytes_length in H. rewrite H. rewrite val_of_be by exact Hv. reflexivity.
Qed.

Lemma enc_addr_length : forall a, length (enc_addr a) = 6%nat.
Proof. intros [[[[a1 a2] a3] a4] p]. unfold enc_addr, be16, be_bytes. cbn [app length]. rewrite rev_length, le_bytes_length. reflexivity. Qed.

Lemma parse_addrs_roundtrip : forall l pre fuel, forallb wf_addr l = true -> (length (flat_map enc_addr l) < fuel)%nat ->
  parse_addrs fuel (at_ pre (flat_map enc_addr l)) = (Ok l, at_ (pre ++ flat_map enc_addr l) []).
Proof.
  induction l as [|[[[[a1 a2] a3] a4] p] l IH]; intros pre fuel Hwf Hf.
  - destruct fuel as [|f]; [cbn in Hf; lia|]. cbn [flat_map parse_addrs]. unfold remaining_length, at_. cbn [over rest N.eqb lenN length].
    change (N.of_nat 0) with 0. cbv iota. rewrite app_nil_r. reflexivity.
  - cbn [forallb] in Hwf. apply andb_prop in Hwf. destruct Hwf as [Ha Hl].
    unfold wf_addr in Ha. repeat (apply andb_prop in Ha; destruct Ha as [Ha ?]).
    destruct fuel as [|f]; [cbn in Hf; lia|].
    cbn [flat_map]. unfold enc_addr at 1. cbn [app]. cbn [parse_addrs].
    unfold remaining_length. cbn [at_ over rest N.eqb]. unfold lenN at 1. cbn [length].
    match goal with |- context [match N.of_nat ?x with _ => _ end] => destruct (N.of_nat x) eqn:E; [lia|] end.
    erewrite bind_ok by apply read_u8_at'. erewrite bind_ok by apply read_u8_at'.
    erewrite bind_ok by apply read_u8_at'. erewrite bind_ok by apply read_u8_at'.
    unfold be16. erewrite bind_ok by (apply (read_be_at 2); cbn; lia).
    erewrite bind_ok.
    2:{ apply IH; [exact Hl|]. cbn [flat_map] in Hf. rewrite app_length, enc_addr_length in Hf. lia. }
    unfold ret. f_equal. f_equal. unfold enc_addr, be16. repeat (rewrite <- app_assoc; cbn [app]). reflexivity.
Qed.

Section Paging.
  Variable port region : N.
  Variable fb : bytes.

  Definition page_ok (p : list addr) : Prop :=
    forallb wf_addr p = true /\ lenN (enc_page p) <= 1400.

  Lemma query_specific_page : forall p last, page_ok p ->
    consumes (query_specific port region fb last) [enc_page p] p.
  Proof.
    intros p last [Hwf Hlen]. unfold query_specific.
    change [enc_page p] with ([] ++ ([enc_page p] ++ [])).
    apply (consumes_bind _ _ _ _ _ _ tt); [apply consumes_send|].
    apply (consumes_bind _ _ _ _ _ _ (enc_page p)).
    - intros n u Hu Hf. unfold udp_recv. rewrite Hu. cbn [map app].
      rewrite firstn_all2 by (unfold lenN in Hlen; lia). eexists. split; [reflexivity|]. cbn. auto.
    - unfold enc_page, page_header.
      change (buf_new ?x) with (at_ [] x).
      change ([255; 255; 255; 255; 102; 10] ++ flat_map enc_addr p) with (be_bytes 4 4294967295 ++ be_bytes 2 26122 ++ flat_map enc_addr p).
      erewrite bind_ok by (apply (read_be_at 4); cbn; lia).
      erewrite bind_ok by (apply (read_be_at 2); cbn; lia).
      change (4294967295 =? 4294967295) with true. change (26122 =? 26122) with true. cbn [negb orb].
      rewrite parse_addrs_roundtrip; [apply consumes_lift|exact Hwf|].
      change (be_bytes 4 4294967295 ++ be_bytes 2 26122 ++ flat_map enc_addr p) with ([255; 255; 255; 255; 102; 10] ++ flat_map enc_addr p).
      cbn [length app]. lia.
  Qed.

  (* a full page: non-empty, without terminator, ending on an address other than the seed *)
  Definition full_page (seed : addr) (p : list addr) : Prop :=
    page_ok p /\ p <> [] /\ forallb (fun a => negb (is_terminator a)) p = true /\ addr_eqb (last p zero_addr) seed = false.

  Lemma span_no_terminator : forall p, forallb (fun a => negb (is_terminator a)) p = true -> span_until is_terminator p = (p, []).
  Proof.
    induction p as [|a p IH]; intro H; [reflexivity|]. cbn [forallb] in H. apply andb_prop in H. destruct H as [Ha Hp].
    cbn [span_until]. destruct (is_terminator a); [discriminate|]. rewrite IH by exact Hp. reflexivity.
  Qed.
  Lemma span_at_terminator : forall before after, forallb (fun a => negb (is_terminator a)) before = true ->
    span_until is_terminator (before ++ zero_addr :: after) = (before, zero_addr :: after).
  Proof.
    induction before as [|a p IH]; intros after H; [reflexivity|]. cbn [forallb] in H. apply andb_prop in H. destruct H as [Ha Hp].
    cbn [span_until app]. destruct (is_terminator a); [discriminate|]. rewrite IH by exact Hp. reflexivity.
  Qed.
  Lemma rev_last : forall (p : list addr) d, p <> [] -> exists r, rev p = last p d :: r.
  Proof.
    intros p d Hne. destruct (exists_last Hne) as [l' [a ->]]. rewrite rev_app_distr. cbn [rev app].
    exists (rev l'). rewrite last_last. reflexivity.
  Qed.

  (* the seeds of the successive requests *)
  Fixpoint pages_ok (seed : addr) (pages : list (list addr)) : Prop :=
    match pages with
    | [] => True
    | p :: ps => full_page seed p /\ pages_ok (last p zero_addr) ps
    end.

  Theorem paging_complete : forall pages seed acc before after fuel,
    pages_ok seed pages -> page_ok (before ++ zero_addr :: after) ->
    forallb (fun a => negb (is_terminator a)) before = true ->
    (length pages < fuel)%nat ->
    consumes (paging fuel port region fb seed acc)
             (map enc_page pages ++ [enc_page (before ++ zero_addr :: after)])
             (acc ++ concat pages ++ before).
  Proof.
    induction pages as [|p pages IH]; intros seed acc before after fuel Hok Hfin Hbef Hfuel.
    - destruct fuel as [|f]; [cbn in Hfuel; lia|]. cbn [map app concat paging].
      change [enc_page (before ++ zero_addr :: after)] with ([enc_page (before ++ zero_addr :: after)] ++ []).
      apply (consumes_bind _ _ _ _ _ _ (before ++ zero_addr :: after)); [apply query_specific_page; exact Hfin|].
      rewrite span_at_terminator by exact Hbef. apply consumes_ret.
    - destruct fuel as [|f]; [cbn in Hfuel; lia|]. destruct Hok as [[Hp [Hne [Hnt Hlast]]] Hrest].
      cbn [map app concat paging].
      change (enc_page p :: map enc_page pages ++ [enc_page (before ++ zero_addr :: after)])
        with ([enc_page p] ++ (map enc_page pages ++ [enc_page (before ++ zero_addr :: after)])).
      apply (consumes_bind _ _ _ _ _ _ p); [apply query_specific_page; exact Hp|].
      rewrite span_no_terminator by exact Hnt.
      destruct (rev_last p zero_addr Hne) as [r Hr]. rewrite Hr. rewrite Hlast.
      rewrite <- app_assoc. rewrite (app_assoc acc p). apply IH; try assumption. cbn [length] in Hfuel. lia.
  Qed.
End Paging.

From GD Require Import Proofs.Msafe.
From Coq Require Import Permutation.

Theorem master_query_complete : forall port region fb l,
  pages_ok zero_addr (l_pages l) -> page_ok (l_final_before l ++ zero_addr :: l_final_after l) ->
  forallb (fun a => negb (is_terminator a)) (l_final_before l) = true ->
  consumes (master_query port region fb) (listing_script l) (listing_expected l).
Proof.
  intros port region fb l Hp Hf Hb. unfold master_query, listing_script, listing_expected.
  change (map enc_page (l_pages l) ++ [enc_page (l_final_before l ++ zero_addr :: l_final_after l)])
    with ([] ++ (map enc_page (l_pages l) ++ [enc_page (l_final_before l ++ zero_addr :: l_final_after l)])).
  apply (consumes_bind _ _ _ _ _ _ tt).
  - apply udp_new_consumes. split; intros d H; inversion H; reflexivity.
  - intros n u Hu Hfl.
    apply (paging_complete port region fb (l_pages l) zero_addr [] (l_final_before l) (l_final_after l)
             (S (length (n_udp n))) Hp Hf Hb); [|exact Hu|exact Hfl].
    rewrite Hu, app_length, map_length, app_length, map_length. cbn [length]. lia.
Qed.

Lemma pairs_of_perm : forall l l', Permutation l l' -> Permutation (pairs_of l) (pairs_of l').
Proof.
  intros l l' H. induction H as [|x l l' H IH|x y l|l l' l'' H1 IH1 H2 IH2]; cbn [pairs_of flat_map].
  - constructor.
  - apply Permutation_app_head. exact IH.
  - rewrite !app_assoc. apply Permutation_app_tail. apply Permutation_app_comm.
  - etransitivity; eassumption.
Qed.
