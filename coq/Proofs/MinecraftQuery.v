(* C03, Minecraft: each variant's whole query (socket, request, reply, decoding) on the reply of a server
   returns exactly the server's status. *)
From GD Require Import Base.Prelude Model.Strings Model.StrOps Model.Buffer Model.Net Model.Valve Model.Gamespy Model.Games Model.View Model.Minecraft.
From GD Require Import Spec.ValveSpec Spec.MinecraftSpec.
From GD Require Import Proofs.BufferLemmas Proofs.ReadSpecs Proofs.Varint Proofs.ValveRoundtrip Proofs.GamesProofs Proofs.MinecraftProofs Proofs.MinecraftRoundtrip Proofs.LegacyRoundtrip.
From Coq Require Import ZifyBool ZifyNat ZifyN Lia.

Lemma mb_ok {A B} (m : M A) (f : A -> M B) n a n' : m n = (Ok a, n') -> mbind m f n = f a n'.
Proof. intros H. unfold mbind. rewrite H. reflexivity. Qed.
Lemma tcp_new_ok port d (u : list udp_event) r sn cur tr :
  tcp_new port None (mknet u (Stream d false :: r) [] sn cur tr)
  = (Ok tt, mknet u r [] sn (Some (d, false)) (ApplyTimeout (Some (4, 0)) (Some (4, 0)) :: NewTcp port (Some (4, 0)) :: tr)).
Proof. reflexivity. Qed.
Lemma udp_new_ok port (u : list udp_event) t sn cur tr :
  udp_new port None (mknet u t [] sn cur tr) = (Ok tt, mknet u t [] sn cur (ApplyTimeout (Some (4, 0)) (Some (4, 0)) :: NewUdp port :: tr)).
Proof. reflexivity. Qed.
Lemma send_ok' port d (u : list udp_event) t sn cur tr : send port d (mknet u t [] sn cur tr) = (Ok tt, mknet u t [] (sn + 1) cur (SendEv port d :: tr)).
Proof. reflexivity. Qed.
Lemma tcp_recv_ok size d (u : list udp_event) t sn tr :
  tcp_recv size (mknet u t [] sn (Some (d, false)) tr) = (Ok d, mknet u t [] sn (Some ([], false)) (RecvEv size :: tr)).
Proof. reflexivity. Qed.

(* ---- Bedrock ---- *)
Theorem bedrock_query_roundtrip : forall port s u t sn cur tr, wf_bedrock s -> (length (bedrock_pong s) <= 1024)%nat ->
  exists n', query_bedrock port None (mknet (Datagram (bedrock_pong s) :: u) t [] sn cur tr) = (Ok (bedrock_expected s), n').
Proof.
  intros port s u t sn cur tr Hwf Hl. unfold query_bedrock.
  erewrite mb_ok by apply udp_new_ok. unfold retry_on_timeout. cbn [ts_retries_or_default N.to_nat retry_loop]. unfold bedrock_info_impl.
  erewrite mb_ok by apply send_ok'. unfold mbind, udp_recv. cbn [n_udp n_tcp n_fail n_sends n_cur n_trace].
  rewrite firstn_all2 by (change (N.to_nat default_packet_size) with 1024%nat; exact Hl).
  unfold mlift. rewrite (bedrock_roundtrip s Hwf). eexists. reflexivity.
Qed.

(* ---- legacy ---- *)
Theorem legacy_query_roundtrip : forall g port data r (u : list udp_event) t sn cur tr, legacy_parse g data = Ok r ->
  exists n', query_legacy_specific g port None (mknet u (Stream data false :: t) [] sn cur tr) = (Ok r, n').
Proof.
  intros g port data r u t sn cur tr H. unfold query_legacy_specific.
  erewrite mb_ok by apply tcp_new_ok. unfold retry_on_timeout. cbn [ts_retries_or_default N.to_nat retry_loop]. unfold legacy_info_impl.
  erewrite mb_ok by apply send_ok'. erewrite mb_ok by apply tcp_recv_ok. unfold mlift. rewrite H. eexists. reflexivity.
Qed.

(* ---- Java ---- *)
Section JavaQ.
  Variable json : bytes -> option (option jv).
  Theorem java_query_roundtrip : forall port s (u : list udp_event) t sn cur tr,
    wf_java_status s = true -> utf8_valid (java_json s) = true -> lenN (java_json s) + 16 < 2147483648 ->
    json (java_json s) = Some (Some (status_value s)) ->
    exists n', query_java json port None None (mknet u (Stream (java_stream s) false :: t) [] sn cur tr) = (Ok (java_expected s), n').
  Proof.
    intros port s u t sn cur tr Hwf Hu Hl Hj. unfold query_java.
    erewrite mb_ok by apply tcp_new_ok. unfold retry_on_timeout. cbn [ts_retries_or_default N.to_nat retry_loop]. unfold java_info_impl, mc_send.
    assert (Hhs : exists hs, as_string (rs_hostname rs_default) = Ok hs) by (eexists; vm_compute; reflexivity).
    destruct Hhs as [hs Hhs]. unfold mbind at 1. unfold mlift at 1. rewrite Hhs.
    erewrite mb_ok by apply send_ok'. erewrite mb_ok by apply send_ok'. erewrite mb_ok by apply send_ok'.
    erewrite mb_ok by apply tcp_recv_ok.
    set (js := java_json s) in *.
    set (body0 := as_varint 0 ++ as_varint (Z.of_N (lenN js)) ++ js).
    assert (Hb0 : lenN body0 < 2147483648).
    { unfold body0, lenN in *. rewrite !app_length. pose proof (as_varint_length 0). pose proof (as_varint_length (Z.of_N (N.of_nat (length js)))). lia. }
    assert (Hbody : run_r (let* _ := get_varint in fun b => (remaining_bytes b, b)) (java_stream s)
                    = Ok (body0 ++ (if st_pong s then [9; 1; 0; 0; 0; 0; 0; 0; 0; 0] else []))).
    { unfold run_r, java_stream. fold js. fold body0. change (buf_new ?d) with (at_ [] d).
      erewrite bind_ok by (apply varint_roundtrip; lia). reflexivity. }
    erewrite mb_ok by (unfold mlift; rewrite Hbody; reflexivity).
    assert (Hjs : run_r (let* id := get_varint in if negb (id =? 0)%Z then fail PacketBad else get_string)
                        (body0 ++ (if st_pong s then [9; 1; 0; 0; 0; 0; 0; 0; 0; 0] else [])) = Ok js).
    { unfold run_r, body0. change (buf_new ?d) with (at_ [] d). rewrite <- !app_assoc.
      erewrite bind_ok by (apply varint_roundtrip; lia). cbn [Z.eqb negb].
      rewrite app_assoc.
      rewrite (mc_string_roundtrip js (as_varint (Z.of_N (lenN js)) ++ js)); [reflexivity|exact Hu|].
      unfold as_string. replace (lenN js <? 2 ^ 31) with true by (change (2 ^ 31) with 2147483648; lia). reflexivity. }
    erewrite mb_ok by (unfold mlift; rewrite Hjs; reflexivity).
    rewrite Hj. unfold mlift. rewrite (java_status_decodes s Hwf). eexists. reflexivity.
  Qed.
End JavaQ.

(* ---- a server that speaks a set of variants: the auto-detecting query ---- *)
Section World.
  Variable json : bytes -> option (option jv).
  Variable port : N.

  Lemma java_dead w (u : list udp_event) t sn cur tr : exists e sn' cur' tr',
    query_java json port None None (mknet u (dead_conn w :: t) [] sn cur tr) = (Err e, mknet u t [] sn' cur' tr').
  Proof. unfold dead_conn. destruct (w_refuse w =? 0); [|destruct (w_refuse w =? 1)]; do 4 eexists; reflexivity. Qed.
  Lemma legacy_dead g w (u : list udp_event) t sn cur tr : exists e sn' cur' tr',
    query_legacy_specific g port None (mknet u (dead_conn w :: t) [] sn cur tr) = (Err e, mknet u t [] sn' cur' tr').
  Proof. unfold dead_conn. destruct (w_refuse w =? 0); [|destruct (w_refuse w =? 1)]; destruct g; do 4 eexists; reflexivity. Qed.
  Lemma bedrock_silent (u : list udp_event) t sn cur tr : exists e sn' cur' tr',
    query_bedrock port None (mknet (Timeout :: u) t [] sn cur tr) = (Err e, mknet u t [] sn' cur' tr').
  Proof. do 4 eexists. reflexivity. Qed.

  Definition wf_world (w : mc_world) : Prop :=
    match w_java w with
    | Some s => wf_java_status s = true /\ utf8_valid (java_json s) = true /\ lenN (java_json s) + 16 < 2147483648
                /\ json (java_json s) = Some (Some (status_value s))
    | None => True
    end
    /\ match w_bedrock w with Some s => wf_bedrock s /\ (length (bedrock_pong s) <= 1024)%nat | None => True end
    /\ match w_v16 w with Some s => wf_legacy s = true /\ lenN (utf16be (v16_text s)) / 2 < 65536 | None => True end
    /\ match w_v14 w with Some s => wf_legacy s = true /\ forallb (fun c => negb (c =? 167)) (ls_motd s) = true /\ lenN (utf16be (old_text s)) / 2 < 65536 | None => True end
    /\ match w_vb18 w with Some s => wf_legacy s = true /\ forallb (fun c => negb (c =? 167)) (ls_motd s) = true /\ lenN (utf16be (old_text s)) / 2 < 65536 | None => True end.

  Lemma or_else_assoc {A} (a b c : M A) n : or_else (or_else a b) c n = or_else a (or_else b c) n.
  Proof. unfold or_else. destruct (a n) as [[r|e|x|x|] n']; reflexivity. Qed.
  Ltac net_args k := match goal with |- context [mknet ?u ?t [] ?sn ?cur ?tr] => k u t sn cur tr end.
  Theorem auto_world_roundtrip : forall w, wf_world w ->
    fst (query_auto json port None None (net_init (world_udp w) (world_tcp w) [])) = auto_expected w.
  Proof.
    intros w [Hj [Hb [H6 [H4 H8]]]]. unfold net_init, world_udp, world_tcp, auto_expected, query_auto.
    destruct (w_java w) as [sj|].
    { destruct Hj as [J1 [J2 [J3 J4]]].
      match goal with |- context [mknet ?u (_ :: ?t) [] ?sn ?cur ?tr] => destruct (java_query_roundtrip json port sj u t sn cur tr J1 J2 J3 J4) as [n' E] end.
      rewrite (or_else_ok _ _ _ _ _ E). reflexivity. }
    match goal with |- context [mknet ?u (_ :: ?t) [] ?sn ?cur ?tr] => destruct (java_dead w u t sn cur tr) as [e1 [sn1 [cur1 [tr1 E1]]]] end.
    rewrite (or_else_err _ _ _ _ _ E1).
    destruct (w_bedrock w) as [sb|].
    { destruct Hb as [B1 B2].
      match goal with |- context [mknet (_ :: ?u) ?t [] ?sn ?cur ?tr] => destruct (bedrock_query_roundtrip port sb u t sn cur tr B1 B2) as [n' E] end.
      erewrite or_else_ok; [reflexivity|]. unfold mbind. rewrite E. reflexivity. }
    match goal with |- context [mknet (_ :: ?u) ?t [] ?sn ?cur ?tr] => destruct (bedrock_silent u t sn cur tr) as [e2 [sn2 [cur2 [tr2 E2]]]] end.
    erewrite or_else_err by (unfold mbind; rewrite E2; reflexivity).
    unfold query_legacy. rewrite !or_else_assoc.
    destruct (w_v16 w) as [s6|].
    { destruct H6 as [L1 L2]. destruct (v16_roundtrip s6 L1 L2) as [P _].
      match goal with |- context [mknet ?u (_ :: ?t) [] ?sn ?cur ?tr] => destruct (legacy_query_roundtrip V1_6 port _ _ u t sn cur tr P) as [n' E] end.
      rewrite (or_else_ok _ _ _ _ _ E). reflexivity. }
    match goal with |- context [mknet ?u (_ :: ?t) [] ?sn ?cur ?tr] => destruct (legacy_dead V1_6 w u t sn cur tr) as [e3 [sn3 [cur3 [tr3 E3]]]] end.
    rewrite (or_else_err _ _ _ _ _ E3). rewrite ?or_else_assoc.
    destruct (w_v14 w) as [s4|].
    { destruct H4 as [L1 [L2 L3]]. destruct (old_roundtrip s4 L1 L2 L3) as [P _].
      match goal with |- context [mknet ?u (_ :: ?t) [] ?sn ?cur ?tr] => destruct (legacy_query_roundtrip V1_4 port _ _ u t sn cur tr P) as [n' E] end.
      rewrite (or_else_ok _ _ _ _ _ E). reflexivity. }
    match goal with |- context [mknet ?u (_ :: ?t) [] ?sn ?cur ?tr] => destruct (legacy_dead V1_4 w u t sn cur tr) as [e4 [sn4 [cur4 [tr4 E4]]]] end.
    rewrite (or_else_err _ _ _ _ _ E4). rewrite ?or_else_assoc.
    destruct (w_vb18 w) as [s8|].
    { destruct H8 as [L1 [L2 L3]]. destruct (old_roundtrip s8 L1 L2 L3) as [_ P].
      match goal with |- context [mknet ?u (_ :: ?t) [] ?sn ?cur ?tr] => destruct (legacy_query_roundtrip VB1_8 port _ _ u t sn cur tr P) as [n' E] end.
      rewrite (or_else_ok _ _ _ _ _ E). reflexivity. }
    match goal with |- context [mknet ?u (_ :: ?t) [] ?sn ?cur ?tr] => destruct (legacy_dead VB1_8 w u t sn cur tr) as [e5 [sn5 [cur5 [tr5 E5]]]] end.
    rewrite (or_else_err _ _ _ _ _ E5). reflexivity.
  Qed.
End World.
