(* C19: the XML writer of the CLI. Text content survives escaping and is
   well-formed; a leaf element parses back to its name and text. *)
From GD Require Import Base.Prelude Model.Strings Model.View Model.Cli Proofs.Str.
From Coq Require Import ZifyBool ZifyNat ZifyN Lia.

(* characters the writer may put into a document literally *)
Definition texts_ok (s : bytes) : bool := forallb text_char s.

Lemma drop_prefix_app p r : drop_prefix p (p ++ r) = Some r.
Proof. induction p as [|c p IH]; cbn [drop_prefix app]; [reflexivity|]. rewrite N.eqb_refl. exact IH. Qed.

(* one character: written escaped or literally, read back as itself *)
Lemma take_text_char c s acc f :
  text_char c = true ->
  take_text (S f) (xml_escape_char c ++ s) acc = take_text f s (c :: acc).
Proof.
  intros Hc. unfold xml_escape_char.
  destruct (c =? 60) eqn:E1; [apply N.eqb_eq in E1; subst; reflexivity|].
  destruct (c =? 62) eqn:E2; [apply N.eqb_eq in E2; subst; reflexivity|].
  destruct (c =? 38) eqn:E3; [apply N.eqb_eq in E3; subst; reflexivity|].
  destruct (c =? 39) eqn:E4; [apply N.eqb_eq in E4; subst; reflexivity|].
  destruct (c =? 34) eqn:E5; [apply N.eqb_eq in E5; subst; reflexivity|].
  cbn [app take_text]. rewrite E1, E3, Hc, E2. reflexivity.
Qed.

Lemma take_text_escape s : forall rest acc f, texts_ok s = true ->
  take_text (S (length s + f)) (xml_escape s ++ 60 :: rest) acc = Some (rev acc ++ s, 60 :: rest).
Proof.
  induction s as [|c s IH]; intros rest acc f H.
  - cbn. rewrite app_nil_r. reflexivity.
  - cbn [texts_ok forallb] in H. apply andb_prop in H. destruct H as [Hc Hs].
    cbn [xml_escape flat_map]. rewrite <- app_assoc. fold (xml_escape s).
    change (S (length (c :: s) + f)) with (S (S (length s + f))).
    rewrite take_text_char by exact Hc.
    rewrite IH by exact Hs. cbn [rev]. rewrite <- app_assoc. reflexivity.
Qed.

Lemma xml_escape_length s : (length s <= length (xml_escape s))%nat.
Proof.
  induction s as [|a s IH]; [cbn; lia|]. cbn [xml_escape flat_map]. rewrite app_length. fold (xml_escape s).
  assert (1 <= length (xml_escape_char a))%nat by (unfold xml_escape_char; repeat destruct (_ =? _); cbn; lia).
  cbn [length]. lia.
Qed.

(* names *)
Lemma take_name_stop k : forall c rest acc, forallb name_char k = true -> name_char c = false ->
  take_name (k ++ c :: rest) acc = (rev acc ++ k, c :: rest).
Proof.
  induction k as [|x k IH]; intros c rest acc Hk Hc.
  - cbn. rewrite Hc, app_nil_r. reflexivity.
  - cbn [forallb] in Hk. apply andb_prop in Hk. destruct Hk as [Hx Hk].
    cbn [app take_name]. rewrite Hx. rewrite IH by assumption. cbn [rev]. rewrite <- app_assoc. reflexivity.
Qed.
Lemma is_name_chars k : is_name k = true -> forallb name_char k = true.
Proof.
  destruct k as [|c r]; [discriminate|]. cbn. intros H. apply andb_prop in H. destruct H as [H1 H2].
  rewrite H2. unfold name_char. rewrite H1. reflexivity.
Qed.
Lemma name_first k : is_name k = true -> exists c r, k = c :: r /\ (c =? 47) = false /\ (c =? 60) = false.
Proof.
  destruct k as [|c r]; [discriminate|]. cbn. intros H. apply andb_prop in H. destruct H as [H _].
  exists c, r. split; [reflexivity|].
  split; (destruct (c =? _) eqn:E; [apply N.eqb_eq in E; subst; discriminate H|reflexivity]).
Qed.

(* text content followed by a close tag *)
Lemma content_text s k rest f : texts_ok s = true -> s <> [] ->
  parse_content (S (S f)) (xml_escape s ++ tag_close k ++ rest) = Some ([XText s], tag_close k ++ rest).
Proof.
  intros Hs Hne.
  destruct s as [|c s']; [contradiction|].
  assert (Hc : text_char c = true) by (cbn in Hs; apply andb_prop in Hs; tauto).
  (* the first byte written is not '<' *)
  assert (Hx : exists x r, xml_escape (c :: s') ++ tag_close k ++ rest = x :: r /\ (x =? 60) = false).
  { cbn [xml_escape flat_map]. unfold xml_escape_char.
    destruct (c =? 60) eqn:E1; [eexists; eexists; split; [reflexivity|reflexivity]|].
    destruct (c =? 62); [eexists; eexists; split; [reflexivity|reflexivity]|].
    destruct (c =? 38); [eexists; eexists; split; [reflexivity|reflexivity]|].
    destruct (c =? 39); [eexists; eexists; split; [reflexivity|reflexivity]|].
    destruct (c =? 34); [eexists; eexists; split; [reflexivity|reflexivity]|].
    eexists; eexists; split; [reflexivity|exact E1]. }
  destruct Hx as [x [r [Ex Hx]]].
  remember (c :: s') as s eqn:Es.
  remember (xml_escape s ++ tag_close k ++ rest) as doc eqn:Ed.
  assert (Hd : parse_content (S (S f)) doc =
               match take_text (S (length doc)) doc [] with
               | Some (t, r1) => match parse_content (S f) r1 with Some (rest0, r2) => Some (XText t :: rest0, r2) | None => None end
               | None => None
               end).
  { rewrite Ex. cbn [parse_content]. rewrite Hx. reflexivity. }
  rewrite Hd. clear Hd.
  assert (Hg : exists g, S (length doc) = S (length s + g)).
  { exists (length doc - length s)%nat. subst doc. rewrite app_length. pose proof (xml_escape_length s). lia. }
  destruct Hg as [g Hg]. rewrite Hg. subst doc.
  assert (Et : tag_close k ++ rest = 60 :: 47 :: k ++ 62 :: rest).
  { unfold tag_close. cbn [str app]. rewrite <- app_assoc. reflexivity. }
  rewrite Et. rewrite take_text_escape by exact Hs. cbn [rev app].
  cbn [parse_content N.eqb Pos.eqb]. reflexivity.
Qed.

(* a leaf element <k>text</k>, followed by the close tag of its parent, parses to the element *)
Theorem leaf_element_roundtrip k s p rest f :
  is_name k = true -> texts_ok s = true ->
  parse_content (S (S (S f))) (tag_open k ++ xml_escape s ++ tag_close k ++ tag_close p ++ rest)
  = Some ([XElem k (match s with [] => [] | _ => [XText s] end)], tag_close p ++ rest).
Proof.
  intros Hk Hs. pose proof (is_name_chars k Hk) as Hkc.
  destruct (name_first k Hk) as [k0 [kr [Ek [N47 N60]]]].
  unfold tag_open. cbn [str app].
  assert (Hstep : forall r1,
    parse_content (S (S (S f))) (60 :: k ++ r1) =
      let '(name, r1') := take_name (k ++ r1) [] in
      if negb (is_name name) then None else
      match classify r1' with
      | AEmpty r2 => match parse_content (S (S f)) r2 with Some (rest0, r3) => Some (XElem name [] :: rest0, r3) | None => None end
      | AOpen r2 =>
          match parse_content (S (S f)) r2 with
          | Some (kids, r3) =>
              match drop_prefix (tag_close name) r3 with
              | Some r4 => match parse_content (S (S f)) r4 with Some (rest0, r5) => Some (XElem name kids :: rest0, r5) | None => None end
              | None => None
              end
          | None => None
          end
      | ABad => None
      end).
  { intros r1. rewrite Ek. cbn [app parse_content]. rewrite N47. cbn [N.eqb Pos.eqb]. reflexivity. }
  rewrite <- app_assoc. rewrite Hstep. clear Hstep.
  cbn [app].
  rewrite take_name_stop by (exact Hkc || reflexivity). cbn [rev app]. rewrite Hk. cbn [negb classify].
  change (N_of_ascii ">") with 62. cbn [N.eqb Pos.eqb].
  destruct s as [|c s'].
  - cbn [xml_escape flat_map app].
    assert (Eclose : forall q r g, parse_content (S g) (tag_close q ++ r) = Some ([], tag_close q ++ r)).
    { intros q r g. unfold tag_close. cbn [str app parse_content N.eqb Pos.eqb]. reflexivity. }
    rewrite Eclose, drop_prefix_app, Eclose. reflexivity.
  - assert (Eclose : forall q r g, parse_content (S g) (tag_close q ++ r) = Some ([], tag_close q ++ r)).
    { intros q r g. unfold tag_close. cbn [str app parse_content N.eqb Pos.eqb]. reflexivity. }
    rewrite content_text by (exact Hs || discriminate).
    rewrite drop_prefix_app, Eclose. reflexivity.
Qed.

(* ================= the whole document ================= *)

(* more fuel never changes a result *)
Lemma take_text_mono f : forall s acc r d, take_text f s acc = Some r -> take_text (f + d) s acc = Some r.
Proof.
  induction f as [|f IH]; intros s acc r d H; [discriminate|].
  cbn [Nat.add take_text] in *. destruct s as [|c s']; [exact H|].
  destruct (c =? 60); [exact H|].
  destruct (c =? 38).
  - destruct (entity s') as [[x r']|]; [apply IH; exact H|discriminate].
  - destruct (text_char c && negb (c =? 62)); [apply IH; exact H|discriminate].
Qed.

Lemma parse_content_mono f : forall s r d, parse_content f s = Some r -> parse_content (f + d) s = Some r.
Proof.
  induction f as [|f IH]; intros s r d H; [discriminate|].
  cbn [Nat.add parse_content] in *. destruct s as [|c s']; [exact H|].
  destruct (c =? 60).
  - destruct s' as [|c2 s'']; [discriminate|].
    destruct (c2 =? 47); [exact H|].
    destruct (take_name (c2 :: s'') []) as [name r1].
    destruct (negb (is_name name)); [discriminate|].
    destruct (classify r1) as [r2|r2|]; [| |discriminate].
    + destruct (parse_content f r2) as [[rest0 r3]|] eqn:E; [|discriminate].
      rewrite (IH _ _ d E). exact H.
    + destruct (parse_content f r2) as [[kids r3]|] eqn:E; [|discriminate].
      rewrite (IH _ _ d E).
      destruct (drop_prefix (tag_close name) r3) as [r4|]; [|discriminate].
      destruct (parse_content f r4) as [[rest0 r5]|] eqn:E2; [|discriminate].
      rewrite (IH _ _ d E2). exact H.
  - destruct (take_text (S (length (c :: s'))) (c :: s') []) as [[t r1]|]; [|discriminate].
    destruct (parse_content f r1) as [[rest0 r2]|] eqn:E; [|discriminate].
    rewrite (IH _ _ d E). exact H.
Qed.
Lemma parse_content_le f g s r : parse_content f s = Some r -> (f <= g)%nat -> parse_content g s = Some r.
Proof. intros H L. replace g with (f + (g - f))%nat by lia. apply parse_content_mono, H. Qed.

Lemma close_stops q r g : parse_content (S g) (tag_close q ++ r) = Some ([], tag_close q ++ r).
Proof. unfold tag_close. cbn [str app parse_content N.eqb Pos.eqb]. reflexivity. Qed.

(* one step of the parser on "<k" ... *)
Lemma open_step k F rest' :
  is_name k = true ->
  parse_content (S F) (tag_open k ++ rest') =
    match parse_content F rest' with
    | Some (kids, r3) =>
        match drop_prefix (tag_close k) r3 with
        | Some r4 => match parse_content F r4 with Some (rest0, r5) => Some (XElem k kids :: rest0, r5) | None => None end
        | None => None
        end
    | None => None
    end.
Proof.
  intros Hk. pose proof (is_name_chars k Hk) as Hkc.
  destruct (name_first k Hk) as [k0 [kr [Ek [N47 N60]]]].
  unfold tag_open. cbn [str app]. rewrite <- app_assoc. cbn [app].
  change (N_of_ascii "<") with 60. change (N_of_ascii ">") with 62.
  assert (E : parse_content (S F) (60 :: k ++ 62 :: rest') =
              let '(name, r1) := take_name (k ++ 62 :: rest') [] in
              if negb (is_name name) then None else
              match classify r1 with
              | AEmpty r2 => match parse_content F r2 with Some (rest0, r3) => Some (XElem name [] :: rest0, r3) | None => None end
              | AOpen r2 =>
                  match parse_content F r2 with
                  | Some (kids, r3) =>
                      match drop_prefix (tag_close name) r3 with
                      | Some r4 => match parse_content F r4 with Some (rest0, r5) => Some (XElem name kids :: rest0, r5) | None => None end
                      | None => None
                      end
                  | None => None
                  end
              | ABad => None
              end).
  { rewrite Ek. cbn [app parse_content]. rewrite N47. cbn [N.eqb Pos.eqb]. reflexivity. }
  rewrite E. clear E.
  rewrite take_name_stop by (exact Hkc || reflexivity). cbn [rev app]. rewrite Hk. cbn [negb classify N.eqb Pos.eqb].
  reflexivity.
Qed.
Lemma empty_step k F tail :
  is_name k = true ->
  parse_content (S F) (tag_empty k ++ tail) =
    match parse_content F tail with Some (rest0, r3) => Some (XElem k [] :: rest0, r3) | None => None end.
Proof.
  intros Hk. pose proof (is_name_chars k Hk) as Hkc.
  destruct (name_first k Hk) as [k0 [kr [Ek [N47 N60]]]].
  unfold tag_empty. cbn [str app]. rewrite <- app_assoc. cbn [app].
  change (N_of_ascii "<") with 60. change (N_of_ascii ">") with 62. change (N_of_ascii "/") with 47.
  assert (E : parse_content (S F) (60 :: k ++ 47 :: 62 :: tail) =
              let '(name, r1) := take_name (k ++ 47 :: 62 :: tail) [] in
              if negb (is_name name) then None else
              match classify r1 with
              | AEmpty r2 => match parse_content F r2 with Some (rest0, r3) => Some (XElem name [] :: rest0, r3) | None => None end
              | AOpen r2 =>
                  match parse_content F r2 with
                  | Some (kids, r3) =>
                      match drop_prefix (tag_close name) r3 with
                      | Some r4 => match parse_content F r4 with Some (rest0, r5) => Some (XElem name kids :: rest0, r5) | None => None end
                      | None => None
                      end
                  | None => None
                  end
              | ABad => None
              end).
  { rewrite Ek. cbn [app parse_content]. rewrite N47. cbn [N.eqb Pos.eqb]. reflexivity. }
  rewrite E. clear E.
  rewrite take_name_stop by (exact Hkc || reflexivity). cbn [rev app]. rewrite Hk. cbn [negb classify N.eqb Pos.eqb].
  reflexivity.
Qed.

(* an element whose body parses to kids, followed by anything that parses *)
Lemma elem_step k body kids tail nodes r fb ft :
  is_name k = true ->
  parse_content fb (body ++ tag_close k ++ tail) = Some (kids, tag_close k ++ tail) ->
  parse_content ft tail = Some (nodes, r) ->
  parse_content (S (fb + ft)) (tag_open k ++ body ++ tag_close k ++ tail) = Some (XElem k kids :: nodes, r).
Proof.
  intros Hk Hb Ht. rewrite open_step by exact Hk.
  rewrite (parse_content_le fb (fb + ft) _ _ Hb) by lia.
  rewrite drop_prefix_app.
  rewrite (parse_content_le ft (fb + ft) _ _ Ht) by lia. reflexivity.
Qed.

(* text bodies *)
Lemma text_body s k tail : texts_ok s = true ->
  parse_content 2 (xml_escape s ++ tag_close k ++ tail)
  = Some (match s with [] => [] | _ => [XText s] end, tag_close k ++ tail).
Proof.
  intros Hs. destruct s as [|c s'].
  - cbn [xml_escape flat_map app]. apply close_stops.
  - apply (content_text (c :: s') k tail 0 Hs). discriminate.
Qed.
Lemma leaf_step k s tail nodes r ft :
  is_name k = true -> texts_ok s = true -> parse_content ft tail = Some (nodes, r) ->
  parse_content (S (2 + ft)) (wrap (Some k) (xml_escape s) ++ tail) = Some (leaf (Some k) s ++ nodes, r).
Proof.
  intros Hk Hs Ht. unfold wrap, leaf. rewrite <- !app_assoc.
  apply (elem_step k (xml_escape s) _ tail nodes r 2 ft Hk); [apply text_body; exact Hs|exact Ht].
Qed.

(* ---- values the writer renders to a well-formed document ---- *)
Fixpoint ok (v : jv) : bool :=
  match raw_number v with
  | Some t => texts_ok t
  | None =>
      match v with
      | JObj l => forallb (fun kv => is_name (str (fst kv)) && ok (snd kv)) l
      | JList l => forallb ok l
      | JStr s => texts_ok s
      | _ => true
      end
  end.
(* the fuel the parser needs for the rendering of a value under a key *)
Fixpoint cost (v : jv) : nat :=
  match raw_number v with
  | Some _ => 3
  | None =>
      match v with
      | JObj l => 2 + list_sum (map (fun kv => cost (snd kv)) l)
      | JList l => list_sum (map cost l)
      | JNull => 1
      | _ => 3
      end
  end.

Lemma jv_ind' (P : jv -> Prop) :
  P JNull -> (forall b, P (JBool b)) -> (forall z, P (JNum z)) -> (forall s, P (JStr s)) ->
  (forall l, Forall P l -> P (JList l)) ->
  (forall l, Forall (fun kv => P (snd kv)) l -> P (JObj l)) ->
  forall v, P v.
Proof.
  intros Hn Hb Hz Hs Hl Ho.
  fix IH 1. intros [| b | z | s | l | l].
  - exact Hn. - apply Hb. - apply Hz. - apply Hs.
  - apply Hl. induction l as [|x l IHl]; constructor; [apply IH|exact IHl].
  - apply Ho. induction l as [|[k x] l IHl]; constructor; [apply IH|exact IHl].
Qed.

Lemma show_Z_texts z : texts_ok (show_Z z) = true.
Proof.
  unfold texts_ok. apply forallb_forall. intros c Hc.
  assert (H : c = 45 \/ (48 <= c /\ c <= 57)).
  { destruct z as [|p|p]; cbn [show_Z] in Hc.
    - destruct Hc as [<-|[]]. right. lia.
    - right. apply (show_N_digits _ _ Hc).
    - destruct Hc as [<-|Hc]; [left; reflexivity|right; apply (show_N_digits _ _ Hc)]. }
  unfold text_char. destruct H as [->|[H1 H2]]; [reflexivity|].
  repeat match goal with |- context [c =? ?n] => replace (c =? n) with false by lia end.
  replace ((1 <=? c) && (c <=? 8)) with false by lia.
  replace ((14 <=? c) && (c <=? 31)) with false by lia. reflexivity.
Qed.
Lemma show_bool_texts b : texts_ok (show_bool b) = true.
Proof. destruct b; reflexivity. Qed.

(* the text a scalar is written as *)
Definition scalar_text (v : jv) : option bytes :=
  match raw_number v with
  | Some t => Some t
  | None => match v with JStr s => Some s | JNum z => Some (show_Z z) | JBool b => Some (show_bool b) | _ => None end
  end.
Lemma raw_number_shape l t : raw_number (JObj l) = Some t -> l = [("$raw"%string, JStr t)].
Proof.
  destruct l as [|[k x] [|? ?]]; try (cbn; discriminate).
  - destruct x; try (cbn; discriminate). cbn. destruct (String.eqb k "$raw") eqn:Ek; [|discriminate].
    intros H. inversion H; subst. apply String.eqb_eq in Ek. subst. reflexivity.
  - destruct x; cbn; discriminate.
Qed.
Lemma scalar_render v t key : scalar_text v = Some t ->
  json_to_xml key v = wrap key (xml_escape t) /\ xtree key v = leaf key t /\ cost v = 3%nat.
Proof.
  unfold scalar_text. destruct v as [| b | z | s | l | l]; try (cbn; discriminate);
    try (cbn [raw_number]; intros H; inversion H; subst; cbn [json_to_xml xtree cost raw_number]; repeat split; reflexivity).
  destruct (raw_number (JObj l)) as [t'|] eqn:E; [|discriminate].
  intros H. inversion H; subst. apply raw_number_shape in E. subst l.
  cbn. repeat split; reflexivity.
Qed.
Lemma scalar_ok v t : scalar_text v = Some t -> ok v = true -> texts_ok t = true.
Proof.
  unfold scalar_text. destruct v as [| b | z | s | l | l]; try (cbn; discriminate).
  - cbn. intros H _. inversion H. apply show_bool_texts.
  - cbn. intros H _. inversion H. apply show_Z_texts.
  - cbn. intros H Hok. inversion H; subst. exact Hok.
  - destruct (raw_number (JObj l)) as [t'|] eqn:E; [|discriminate].
    intros H Hok. inversion H; subst. apply raw_number_shape in E. subst l. cbn in Hok. exact Hok.
Qed.

(* unfolding equations for maps *)
Lemma json_obj key l : raw_number (JObj l) = None ->
  json_to_xml key (JObj l) = wrap key (flat_map (fun kv => json_to_xml (Some (str (fst kv))) (snd kv)) l).
Proof. intros E. cbn [json_to_xml]. rewrite E. reflexivity. Qed.
Lemma xtree_obj key l : raw_number (JObj l) = None ->
  xtree key (JObj l) = (let kids := flat_map (fun kv => xtree (Some (str (fst kv))) (snd kv)) l in
                        match key with Some k => [XElem k kids] | None => kids end).
Proof. intros E. cbn [xtree]. rewrite E. reflexivity. Qed.
Lemma cost_obj l : raw_number (JObj l) = None -> cost (JObj l) = (2 + list_sum (map (fun kv => cost (snd kv)) l))%nat.
Proof. intros E. cbn [cost]. rewrite E. reflexivity. Qed.
Lemma ok_obj l : raw_number (JObj l) = None ->
  ok (JObj l) = forallb (fun kv => is_name (str (fst kv)) && ok (snd kv)) l.
Proof. intros E. cbn [ok]. rewrite E. reflexivity. Qed.

Definition renders (v : jv) : Prop :=
  ok v = true -> forall k tail nodes r ft,
  is_name k = true -> parse_content ft tail = Some (nodes, r) ->
  parse_content (cost v + ft) (json_to_xml (Some k) v ++ tail) = Some (xtree (Some k) v ++ nodes, r).

Lemma scalar_renders v t : scalar_text v = Some t -> renders v.
Proof.
  intros Hs Hok k tail nodes r ft Hk Ht.
  destruct (scalar_render v t (Some k) Hs) as [E1 [E2 E3]]. rewrite E1, E2, E3.
  apply leaf_step; [exact Hk|exact (scalar_ok v t Hs Hok)|exact Ht].
Qed.

Theorem every_value_renders : forall v, renders v.
Proof.
  apply jv_ind'.
  - (* null *)
    intros _ k tail nodes r ft Hk Ht. cbn [json_to_xml raw_number xtree cost].
    change (1 + ft)%nat with (S ft). rewrite empty_step by exact Hk. rewrite Ht. reflexivity.
  - intros b. apply (scalar_renders (JBool b) (show_bool b)). reflexivity.
  - intros z. apply (scalar_renders (JNum z) (show_Z z)). reflexivity.
  - intros s. apply (scalar_renders (JStr s) s). reflexivity.
  - (* list: the elements one after the other under the same key *)
    intros l IH Hok k tail nodes r ft Hk Ht.
    cbn [json_to_xml raw_number xtree cost] in *. cbn [ok raw_number] in Hok.
    induction l as [|x l IHl].
    + cbn. exact Ht.
    + inversion IH as [|? ? Hx Hl]; subst.
      cbn [forallb] in Hok. apply andb_prop in Hok. destruct Hok as [Hokx Hokl].
      cbn [flat_map map]. rewrite <- !app_assoc.
      change (list_sum (cost x :: map cost l)) with (cost x + list_sum (map cost l))%nat.
      replace (cost x + list_sum (map cost l) + ft)%nat with (cost x + (list_sum (map cost l) + ft))%nat by lia.
      apply (Hx Hokx k _ _ r _ Hk). apply IHl; assumption.
  - (* map *)
    intros l IH Hok k tail nodes r ft Hk Ht.
    destruct (raw_number (JObj l)) as [t|] eqn:E.
    + apply (scalar_renders (JObj l) t); try assumption. unfold scalar_text. rewrite E. reflexivity.
    + rewrite json_obj, xtree_obj, cost_obj by exact E. rewrite ok_obj in Hok by exact E.
      unfold wrap. rewrite <- !app_assoc.
      (* the members, up to the close tag *)
      assert (Hbody : parse_content (list_sum (map (fun kv => cost (snd kv)) l) + 1)
                        (flat_map (fun kv => json_to_xml (Some (str (fst kv))) (snd kv)) l ++ tag_close k ++ tail)
                      = Some (flat_map (fun kv => xtree (Some (str (fst kv))) (snd kv)) l, tag_close k ++ tail)).
      { clear Ht E. induction l as [|[kk x] l IHl].
        - cbn [flat_map map list_sum fold_right app Nat.add]. apply (close_stops k tail 0).
        - inversion IH as [|? ? Hx Hl]; subst. cbn [snd] in Hx.
          cbn [forallb fst snd] in Hok. apply andb_prop in Hok. destruct Hok as [Hokx Hokl].
          apply andb_prop in Hokx. destruct Hokx as [Hkk Hokx].
          cbn [flat_map map fst snd]. rewrite <- !app_assoc.
          change (list_sum (cost x :: map (fun kv => cost (snd kv)) l)) with (cost x + list_sum (map (fun kv => cost (snd kv)) l))%nat.
          replace (cost x + list_sum (map (fun kv => cost (snd kv)) l) + 1)%nat
            with (cost x + (list_sum (map (fun kv => cost (snd kv)) l) + 1))%nat by lia.
          apply (Hx Hokx (str kk) _ _ _ _ Hkk).
          apply IHl; assumption. }
      replace (2 + list_sum (map (fun kv => cost (snd kv)) l) + ft)%nat
        with (S ((list_sum (map (fun kv => cost (snd kv)) l) + 1) + ft)) by lia.
      cbn [app].
      apply (elem_step k _ _ tail nodes r _ ft Hk Hbody Ht).
Qed.

Lemma members_parse l k tail :
  forallb (fun kv => is_name (str (fst kv)) && ok (snd kv)) l = true ->
  parse_content (list_sum (map (fun kv => cost (snd kv)) l) + 1)
    (flat_map (fun kv => json_to_xml (Some (str (fst kv))) (snd kv)) l ++ tag_close k ++ tail)
  = Some (flat_map (fun kv => xtree (Some (str (fst kv))) (snd kv)) l, tag_close k ++ tail).
Proof.
  induction l as [|[kk x] l IHl]; intros Hok.
  - cbn [flat_map map list_sum fold_right app Nat.add]. apply (close_stops k tail 0).
  - cbn [forallb fst snd] in Hok. apply andb_prop in Hok. destruct Hok as [Hokx Hokl].
    apply andb_prop in Hokx. destruct Hokx as [Hkk Hokx].
    cbn [flat_map map fst snd]. rewrite <- !app_assoc.
    change (list_sum (cost x :: map (fun kv => cost (snd kv)) l)) with (cost x + list_sum (map (fun kv => cost (snd kv)) l))%nat.
    replace (cost x + list_sum (map (fun kv => cost (snd kv)) l) + 1)%nat
      with (cost x + (list_sum (map (fun kv => cost (snd kv)) l) + 1))%nat by lia.
    apply (every_value_renders x Hokx (str kk) _ _ _ _ Hkk). apply IHl. exact Hokl.
Qed.

(* the parser never needs more fuel than the rendering has bytes *)
Lemma cost_le_length : forall v k, (cost v <= length (json_to_xml (Some k) v))%nat.
Proof.
  apply (jv_ind' (fun v => forall k, (cost v <= length (json_to_xml (Some k) v))%nat)).
  - intros k. cbn. unfold tag_empty. rewrite !app_length. cbn. lia.
  - intros b k. cbn [json_to_xml raw_number cost wrap]. unfold tag_open, tag_close. rewrite !app_length. cbn. lia.
  - intros z k. cbn [json_to_xml raw_number cost wrap]. unfold tag_open, tag_close. rewrite !app_length. cbn. lia.
  - intros s k. cbn [json_to_xml raw_number cost wrap]. unfold tag_open, tag_close. rewrite !app_length. cbn. lia.
  - intros l IH k. cbn [json_to_xml raw_number cost].
    induction l as [|x l IHl]; [cbn; lia|]. inversion IH as [|? ? Hx Hl]; subst.
    cbn [flat_map map]. change (list_sum (cost x :: map cost l)) with (cost x + list_sum (map cost l))%nat.
    rewrite app_length. specialize (Hx k). specialize (IHl Hl). lia.
  - intros l IH k. destruct (raw_number (JObj l)) as [t|] eqn:E.
    + destruct (scalar_render (JObj l) t (Some k)) as [E1 [_ E3]]; [unfold scalar_text; rewrite E; reflexivity|].
      rewrite E1, E3. unfold wrap, tag_open, tag_close. rewrite !app_length. cbn. lia.
    + rewrite json_obj, cost_obj by exact E. unfold wrap, tag_open, tag_close. rewrite !app_length. cbn [length str].
      assert (H : (list_sum (map (fun kv => cost (snd kv)) l)
                   <= length (flat_map (fun kv => json_to_xml (Some (str (fst kv))) (snd kv)) l))%nat).
      { clear E. induction l as [|[kk x] l IHl]; [cbn; lia|]. inversion IH as [|? ? Hx Hl]; subst. cbn [snd] in Hx.
        cbn [flat_map map fst snd].
        change (list_sum (cost x :: map (fun kv => cost (snd kv)) l)) with (cost x + list_sum (map (fun kv => cost (snd kv)) l))%nat.
        rewrite app_length. specialize (Hx (str kk)). specialize (IHl Hl). lia. }
      cbn [length app]. lia.
Qed.

(* the document: for every map value whose keys are XML names and whose strings
   have no literal control characters, the writer's output parses to exactly the
   tree the value stands for *)
Theorem document_roundtrip l :
  raw_number (JObj l) = None -> ok (JObj l) = true ->
  xml_parse (xml_document (JObj l)) = Some (XElem (str "data") (xtree None (JObj l))).
Proof.
  intros E Hok. rewrite ok_obj in Hok by exact E.
  unfold xml_document, xml_parse. rewrite json_obj, xtree_obj by exact E. unfold wrap.
  rewrite drop_prefix_app.
  set (body := flat_map (fun kv => json_to_xml (Some (str (fst kv))) (snd kv)) l).
  set (kids := flat_map (fun kv => xtree (Some (str (fst kv))) (snd kv)) l).
  set (sigma := list_sum (map (fun kv => cost (snd kv)) l)).
  assert (Hb : parse_content (sigma + 1) (body ++ tag_close (str "data") ++ []) = Some (kids, tag_close (str "data") ++ []))
    by (apply members_parse; exact Hok).
  assert (Hdoc : parse_content (S ((sigma + 1) + 1)) (tag_open (str "data") ++ body ++ tag_close (str "data") ++ [])
                 = Some ([XElem (str "data") kids], [])).
  { apply (elem_step (str "data") body kids [] [] [] (sigma + 1) 1); [reflexivity|exact Hb|reflexivity]. }
  rewrite app_nil_r in Hdoc.
  assert (Hle : (sigma <= length body)%nat).
  { subst sigma body. clear -l. induction l as [|[kk x] l IHl]; [cbn; lia|].
    cbn [flat_map map fst snd].
    change (list_sum (cost x :: map (fun kv => cost (snd kv)) l)) with (cost x + list_sum (map (fun kv => cost (snd kv)) l))%nat.
    rewrite app_length. pose proof (cost_le_length x (str kk)). lia. }
  rewrite (parse_content_le _ (S (length (tag_open (str "data") ++ body ++ tag_close (str "data")))) _ _ Hdoc).
  - reflexivity.
  - rewrite !app_length. cbn [length tag_open tag_close str app]. lia.
Qed.
