(* C19: the XML writer of the CLI. Text content survives escaping and is
   well-formed; a leaf element parses back to its name and text. *)
From GD Require Import Base.Prelude Model.Strings Model.View Model.Cli.
From Coq Require Import ZifyBool ZifyNat ZifyN Lia.

(* characters the writer may put into a document literally *)
Definition texts_ok (s : bytes) : bool := forallb text_char s.

Lemma drop_prefix_app p r : drop_prefix p (p ++ r) = Some r.
Proof. induction p as [|c p IH]; cbn [drop_prefix app]; [reflexivity|]. rewrite N.eqb_refl. exact IH. Qed.

(* one character: written escaped or literally, read back as itself *)
Lemma take_text_char c s acc f :
  text_char c = true ->
  take_text (S f) (xml_escape_char c ++ s) acc = take_text f s (c :: acc).
Proof.
  intros Hc. unfold xml_escape_char.
  destruct (c =? 60) eqn:E1; [apply N.eqb_eq in E1; subst; reflexivity|].
  destruct (c =? 62) eqn:E2; [apply N.eqb_eq in E2; subst; reflexivity|].
  destruct (c =? 38) eqn:E3; [apply N.eqb_eq in E3; subst; reflexivity|].
  destruct (c =? 39) eqn:E4; [apply N.eqb_eq in E4; subst; reflexivity|].
  destruct (c =? 34) eqn:E5; [apply N.eqb_eq in E5; subst; reflexivity|].
  cbn [app take_text]. rewrite E1, E3, Hc, E2. reflexivity.
Qed.

Lemma take_text_escape s : forall rest acc f, texts_ok s = true ->
  take_text (S (length s + f)) (xml_escape s ++ 60 :: rest) acc = Some (rev acc ++ s, 60 :: rest).
Proof.
  induction s as [|c s IH]; intros rest acc f H.
  - cbn. rewrite app_nil_r. reflexivity.
  - cbn [texts_ok forallb] in H. apply andb_prop in H. destruct H as [Hc Hs].
    cbn [xml_escape flat_map]. rewrite <- app_assoc. fold (xml_escape s).
    change (S (length (c :: s) + f)) with (S (S (length s + f))).
    rewrite take_text_char by exact Hc.
    rewrite IH by exact Hs. cbn [rev]. rewrite <- app_assoc. reflexivity.
Qed.

Lemma xml_escape_length s : (length s <= length (xml_escape s))%nat.
Proof.
  induction s as [|a s IH]; [cbn; lia|]. cbn [xml_escape flat_map]. rewrite app_length. fold (xml_escape s).
  assert (1 <= length (xml_escape_char a))%nat by (unfold xml_escape_char; repeat destruct (_ =? _); cbn; lia).
  cbn [length]. lia.
Qed.

(* names *)
Lemma take_name_stop k : forall c rest acc, forallb name_char k = true -> name_char c = false ->
  take_name (k ++ c :: rest) acc = (rev acc ++ k, c :: rest).
Proof.
  induction k as [|x k IH]; intros c rest acc Hk Hc.
  - cbn. rewrite Hc, app_nil_r. reflexivity.
  - cbn [forallb] in Hk. apply andb_prop in Hk. destruct Hk as [Hx Hk].
    cbn [app take_name]. rewrite Hx. rewrite IH by assumption. cbn [rev]. rewrite <- app_assoc. reflexivity.
Qed.
Lemma is_name_chars k : is_name k = true -> forallb name_char k = true.
Proof.
  destruct k as [|c r]; [discriminate|]. cbn. intros H. apply andb_prop in H. destruct H as [H1 H2].
  rewrite H2. unfold name_char. rewrite H1. reflexivity.
Qed.
Lemma name_first k : is_name k = true -> exists c r, k = c :: r /\ (c =? 47) = false /\ (c =? 60) = false.
Proof.
  destruct k as [|c r]; [discriminate|]. cbn. intros H. apply andb_prop in H. destruct H as [H _].
  exists c, r. split; [reflexivity|].
  split; (destruct (c =? _) eqn:E; [apply N.eqb_eq in E; subst; discriminate H|reflexivity]).
Qed.

(* text content followed by a close tag *)
Lemma content_text s k rest f : texts_ok s = true -> s <> [] ->
  parse_content (S (S f)) (xml_escape s ++ tag_close k ++ rest) = Some ([XText s], tag_close k ++ rest).
Proof.
  intros Hs Hne.
  destruct s as [|c s']; [contradiction|].
  assert (Hc : text_char c = true) by (cbn in Hs; apply andb_prop in Hs; tauto).
  (* the first byte written is not '<' *)
  assert (Hx : exists x r, xml_escape (c :: s') ++ tag_close k ++ rest = x :: r /\ (x =? 60) = false).
  { cbn [xml_escape flat_map]. unfold xml_escape_char.
    destruct (c =? 60) eqn:E1; [eexists; eexists; split; [reflexivity|reflexivity]|].
    destruct (c =? 62); [eexists; eexists; split; [reflexivity|reflexivity]|].
    destruct (c =? 38); [eexists; eexists; split; [reflexivity|reflexivity]|].
    destruct (c =? 39); [eexists; eexists; split; [reflexivity|reflexivity]|].
    destruct (c =? 34); [eexists; eexists; split; [reflexivity|reflexivity]|].
    eexists; eexists; split; [reflexivity|exact E1]. }
  destruct Hx as [x [r [Ex Hx]]].
  remember (c :: s') as s eqn:Es.
  remember (xml_escape s ++ tag_close k ++ rest) as doc eqn:Ed.
  assert (Hd : parse_content (S (S f)) doc =
               match take_text (S (length doc)) doc [] with
               | Some (t, r1) => match parse_content (S f) r1 with Some (rest0, r2) => Some (XText t :: rest0, r2) | None => None end
               | None => None
               end).
  { rewrite Ex. cbn [parse_content]. rewrite Hx. reflexivity. }
  rewrite Hd. clear Hd.
  assert (Hg : exists g, S (length doc) = S (length s + g)).
  { exists (length doc - length s)%nat. subst doc. rewrite app_length. pose proof (xml_escape_length s). lia. }
  destruct Hg as [g Hg]. rewrite Hg. subst doc.
  assert (Et : tag_close k ++ rest = 60 :: 47 :: k ++ 62 :: rest).
  { unfold tag_close. cbn [str app]. rewrite <- app_assoc. reflexivity. }
  rewrite Et. rewrite take_text_escape by exact Hs. cbn [rev app].
  cbn [parse_content N.eqb Pos.eqb]. reflexivity.
Qed.

(* a leaf element <k>text</k>, followed by the close tag of its parent, parses to the element *)
Theorem leaf_element_roundtrip k s p rest f :
  is_name k = true -> texts_ok s = true ->
  parse_content (S (S (S f))) (tag_open k ++ xml_escape s ++ tag_close k ++ tag_close p ++ rest)
  = Some ([XElem k (match s with [] => [] | _ => [XText s] end)], tag_close p ++ rest).
Proof.
  intros Hk Hs. pose proof (is_name_chars k Hk) as Hkc.
  destruct (name_first k Hk) as [k0 [kr [Ek [N47 N60]]]].
  unfold tag_open. cbn [str app].
  assert (Hstep : forall r1,
    parse_content (S (S (S f))) (60 :: k ++ r1) =
      let '(name, r1') := take_name (k ++ r1) [] in
      if negb (is_name name) then None else
      match classify r1' with
      | AEmpty r2 => match parse_content (S (S f)) r2 with Some (rest0, r3) => Some (XElem name [] :: rest0, r3) | None => None end
      | AOpen r2 =>
          match parse_content (S (S f)) r2 with
          | Some (kids, r3) =>
              match drop_prefix (tag_close name) r3 with
              | Some r4 => match parse_content (S (S f)) r4 with Some (rest0, r5) => Some (XElem name kids :: rest0, r5) | None => None end
              | None => None
              end
          | None => None
          end
      | ABad => None
      end).
  { intros r1. rewrite Ek. cbn [app parse_content]. rewrite N47. cbn [N.eqb Pos.eqb]. reflexivity. }
  rewrite <- app_assoc. rewrite Hstep. clear Hstep.
  cbn [app].
  rewrite take_name_stop by (exact Hkc || reflexivity). cbn [rev app]. rewrite Hk. cbn [negb classify].
  change (N_of_ascii ">") with 62. cbn [N.eqb Pos.eqb].
  destruct s as [|c s'].
  - cbn [xml_escape flat_map app].
    assert (Eclose : forall q r g, parse_content (S g) (tag_close q ++ r) = Some ([], tag_close q ++ r)).
    { intros q r g. unfold tag_close. cbn [str app parse_content N.eqb Pos.eqb]. reflexivity. }
    rewrite Eclose, drop_prefix_app, Eclose. reflexivity.
  - assert (Eclose : forall q r g, parse_content (S g) (tag_close q ++ r) = Some ([], tag_close q ++ r)).
    { intros q r g. unfold tag_close. cbn [str app parse_content N.eqb Pos.eqb]. reflexivity. }
    rewrite content_text by (exact Hs || discriminate).
    rewrite drop_prefix_app, Eclose. reflexivity.
Qed.
