(* Unreal 2 query for every script: total, requests are the protocol's,
   reservations bounded; gather structure (C11). *)
From GD Require Import Base.Prelude Model.Strings Model.StrOps Model.Buffer Model.Unreal2Str Model.BufOps Model.Net Model.Valve Model.Unreal2.
From GD Require Import Proofs.BufferLemmas Proofs.BufInv Proofs.Msafe Proofs.QuakeTotal.
From Coq Require Import ZifyBool ZifyNat ZifyN.

Definition Qu (port : N) (e : tev) : Prop :=
  match e with
  | SendEv p d => p = port /\ (d = u2_request 0 \/ d = u2_request 1 \/ d = u2_request 2)
  | Reserve k => k <= 50
  | NewTcp _ _ => False
  | _ => True
  end.

Lemma Rsafe_dec_unreal2 : Rsafe dec_unreal2.
Proof.
  intros b Hb. split.
  - pose proof (run_bop_safe false OpUnreal2 b Hb) as H. cbn [run_bop] in H. destruct (dec_unreal2 b) as [[s| | | |] b']; cbn in *; auto.
  - exact (proj1 (preserves_dec_unreal2 (buf_data b) b (conj Hb eq_refl))).
Qed.

(* a successful string read consumes at least the length byte *)
Lemma dec_unreal2_consumes : forall b s b', buf_inv b -> dec_unreal2 b = (Ok s, b') ->
  buf_inv b' /\ (length (rest b') < length (rest b))%nat.
Proof.
  intros b s b' Hi H. pose proof (proj2 (Rsafe_dec_unreal2 b Hi)) as Hinv. rewrite H in Hinv. cbn [snd] in Hinv.
  split; [exact Hinv|]. unfold dec_unreal2, with_slice in H. rewrite Hi in H. cbn [N.eqb] in H.
  destruct (rest b) as [|l tl] eqn:Er; [discriminate|].
  destruct (128 <=? l).
  - destruct (match tl with 1 :: tl' => (2%nat, tl') | _ => (1%nat, tl) end) as [start body] eqn:Es.
    assert (Hst : (1 <= start)%nat /\ (start + length body = length (l :: tl))%nat).
    { destruct tl as [|[|[| |]] tl']; inversion Es; subst; cbn; lia. }
    destruct (take_n _ body) as [[sd r']|] eqn:Et; [|discriminate].
    destruct (utf16_scalars _); [|discriminate]. inversion H; subst.
    apply take_n_spec in Et. destruct Et as [-> Hl]. rewrite app_length in Hst.
    rewrite advance_rest_length by (rewrite Er; lia). rewrite Er. lia.
  - destruct (take_n (N.to_nat l) tl) as [[sd r']|] eqn:Et; [|discriminate]. inversion H; subst.
    apply take_n_spec in Et. destruct Et as [-> Hl].
    rewrite advance_rest_length by (rewrite Er; cbn [length]; rewrite app_length; lia). rewrite Er. cbn [length]. lia.
Qed.

(* an error leaves the reader where it was *)
Lemma dec_unreal2_err_same : forall b e b', dec_unreal2 b = (Err e, b') -> b' = b.
Proof.
  intros b e b' H. unfold dec_unreal2, with_slice in H. destruct (over b =? 0); [|inversion H; reflexivity].
  destruct (rest b) as [|l tl]; [inversion H; reflexivity|].
  destruct (128 <=? l).
  - destruct (match tl with 1 :: tl' => (2%nat, tl') | _ => (1%nat, tl) end) as [start body].
    destruct (take_n _ body) as [[sd r']|]; [|inversion H; reflexivity]. destruct (utf16_scalars _); inversion H; reflexivity.
  - destruct (take_n _ tl) as [[sd r']|]; inversion H; reflexivity.
Qed.

Lemma parse_mr_safe : forall fuel acc b, buf_inv b -> (length (rest b) < fuel)%nat -> safe (fst (parse_mr fuel acc b)).
Proof.
  induction fuel as [|f IH]; intros acc b Hb Hf; [lia|]. cbn [parse_mr]. unfold remaining_length. rewrite Hb. cbn [N.eqb].
  destruct (lenN (rest b)) eqn:El; [exact I|].
  unfold u2_string.
  pose proof (proj1 (Rsafe_dec_unreal2 b Hb)) as X0.
  destruct (dec_unreal2 b) as [[key| | | |] b1] eqn:Ek; cbn in X0; try contradiction; [|exact I]. clear X0.
  destruct (dec_unreal2_consumes b key b1 Hb Ek) as [Hb1 Hl1].
  destruct (dec_unreal2 b1) as [[v| | | |] b2] eqn:Ev.
  - destruct (dec_unreal2_consumes b1 v b2 Hb1 Ev) as [Hb2 Hl2]. destruct (eq_ignore_ascii_case _ _); apply IH; try exact Hb2; lia.
  - apply dec_unreal2_err_same in Ev. subst b2. destruct (eq_ignore_ascii_case _ _); apply IH; try exact Hb1; lia.
  - pose proof (proj1 (Rsafe_dec_unreal2 b1 Hb1)) as X. rewrite Ev in X. cbn in X. contradiction.
  - pose proof (proj1 (Rsafe_dec_unreal2 b1 Hb1)) as X. rewrite Ev in X. cbn in X. contradiction.
  - pose proof (proj1 (Rsafe_dec_unreal2 b1 Hb1)) as X. rewrite Ev in X. cbn in X. contradiction.
Qed.

Lemma read_uint_consumes : forall be w b v b', buf_inv b -> (0 < w)%nat -> read_uint be w b = (Ok v, b') ->
  buf_inv b' /\ (length (rest b') < length (rest b))%nat.
Proof.
  intros be w b v b' Hb Hw H. unfold read_uint, bind in H. rewrite read_raw_spec in H by exact Hb.
  destruct (w <=? length (rest b))%nat eqn:E; [|discriminate]. inversion H; subst. split; [reflexivity|].
  cbn [rest]. rewrite skipn_length. lia.
Qed.

(* readers that only move forward *)
Definition Rfwd {A} (m : R A) : Prop :=
  forall b, buf_inv b -> safe (fst (m b)) /\ buf_inv (snd (m b)) /\ (length (rest (snd (m b))) <= length (rest b))%nat.
Lemma Rfwd_ret : forall A (a : A), Rfwd (ret a).
Proof. intros A a b H. cbn. auto. Qed.
Lemma Rfwd_bind : forall A B (m : R A) (f : A -> R B), Rfwd m -> (forall a, Rfwd (f a)) -> Rfwd (bind m f).
Proof.
  intros A B m f Hm Hf b H. unfold bind. destruct (Hm b H) as [H1 [H2 H3]].
  destruct (m b) as [[a|e| | |] b']; cbn [fst snd] in *; try contradiction; [|auto].
  destruct (Hf a b' H2) as [G1 [G2 G3]]. repeat split; [exact G1|exact G2|lia].
Qed.
Lemma Rfwd_read_uint : forall be w, Rfwd (read_uint be w).
Proof.
  intros be w b Hb. unfold read_uint, bind. rewrite read_raw_spec by exact Hb.
  destruct (w <=? length (rest b))%nat; cbn [fst snd ret rest]; repeat split; try exact I; try exact Hb; try lia.
  rewrite skipn_length. lia.
Qed.
Lemma Rfwd_read_int : forall be w, Rfwd (read_int be w).
Proof.
  intros be w b Hb. unfold read_int, bind. rewrite read_raw_spec by exact Hb.
  destruct (w <=? length (rest b))%nat; cbn [fst snd ret rest]; repeat split; try exact I; try exact Hb; try lia.
  rewrite skipn_length. lia.
Qed.
Lemma Rfwd_dec_unreal2 : Rfwd dec_unreal2.
Proof.
  intros b Hb. destruct (Rsafe_dec_unreal2 b Hb) as [H1 H2]. split; [exact H1|split; [exact H2|]].
  destruct (dec_unreal2 b) as [[s|e| | |] b'] eqn:E; cbn [fst snd] in *; try contradiction.
  - destruct (dec_unreal2_consumes b s b' Hb E) as [_ Hl]. lia.
  - apply dec_unreal2_err_same in E. subst. lia.
Qed.

Lemma parse_u2_players_safe : forall fuel acc b, buf_inv b -> (length (rest b) < fuel)%nat ->
  safe (fst (parse_u2_players fuel acc b)).
Proof.
  induction fuel as [|f IH]; intros acc b Hb Hf; [lia|]. cbn [parse_u2_players]. unfold remaining_length. rewrite Hb. cbn [N.eqb].
  destruct (lenN (rest b)) eqn:El; [exact I|].
  unfold bind at 1. unfold read_u32l.
  pose proof (proj1 (Rfwd_read_uint false 4 b Hb)) as X0.
  destruct (read_uint false 4 b) as [[id| | | |] b1] eqn:E1; cbn in X0; try contradiction; [|exact I]. clear X0.
  destruct (read_uint_consumes false 4 b id b1 Hb ltac:(lia) E1) as [Hb1 Hl1].
  (* the rest of the record only moves forward *)
  assert (G : forall (k : bytes -> N -> Z -> N -> R u2_players), (forall a b0 c d, forall b', buf_inv b' -> (length (rest b') < f)%nat -> safe (fst (k a b0 c d b'))) ->
              safe (fst ((let* name := u2_string in let* ping := read_uint false 4 in let* score := read_int false 4 in
                          let* sid := read_uint false 4 in k name ping score sid) b1))).
  { intros k Hk. unfold bind at 1. unfold u2_string. destruct (Rfwd_dec_unreal2 b1 Hb1) as [A1 [A2 A3]].
    destruct (dec_unreal2 b1) as [[name| | | |] b2]; cbn [fst snd] in *; try contradiction; [|exact I].
    unfold bind at 1. destruct (Rfwd_read_uint false 4 b2 A2) as [B1 [B2 B3]].
    destruct (read_uint false 4 b2) as [[ping| | | |] b3]; cbn [fst snd] in *; try contradiction; [|exact I].
    unfold bind at 1. destruct (Rfwd_read_int false 4 b3 B2) as [C1 [C2 C3]].
    destruct (read_int false 4 b3) as [[score| | | |] b4]; cbn [fst snd] in *; try contradiction; [|exact I].
    unfold bind at 1. destruct (Rfwd_read_uint false 4 b4 C2) as [D1 [D2 D3]].
    destruct (read_uint false 4 b4) as [[sid| | | |] b5]; cbn [fst snd] in *; try contradiction; [|exact I].
    apply Hk; [exact D2|lia]. }
  apply (G (fun name ping score sid => parse_u2_players f (if ping =? 0 then mk_u2ps (ups_players acc) (ups_bots acc ++ [mk_u2p id name ping score sid])
                               else mk_u2ps (ups_players acc ++ [mk_u2p id name ping score sid]) (ups_bots acc)))).
  intros a b0 c d b' Hb' Hl'. apply IH; assumption.
Qed.

Lemma consume_headers_fwd : forall k, Rsafe (consume_headers k).
Proof.
  intro k. unfold consume_headers. apply Rsafe_bind; [apply Rsafe_move_cursor|intros _].
  apply Rsafe_bind; [apply Rsafe_read_u8|intro x]. apply Rsafe_if; [apply Rsafe_fail|apply Rsafe_if; [apply Rsafe_fail|apply Rsafe_ret]].
Qed.

(* after the 5 header bytes at most length data bytes are left *)
Lemma headers_rest_le : forall k data, (length (rest (snd (consume_headers k (buf_new data)))) <= length data)%nat.
Proof.
  intros k data. pose proof (preserves_bind _ _ (move_cursor 4) (fun _ => let* x := read_u8 in if 2 <? x then fail PacketBad else if negb (x =? k) then fail PacketBad else ret tt)) as P.
  assert (Pres : preserves (consume_headers k)).
  { unfold consume_headers. apply preserves_bind; [apply preserves_move_cursor|intros _].
    apply preserves_bind; [apply preserves_read_uint|intro x]. destruct (2 <? x); [apply preserves_fail|]. destruct (negb _); [apply preserves_fail|apply preserves_ret]. }
  destruct (Pres data (buf_new data) (conj eq_refl eq_refl)) as [_ Hd].
  unfold buf_data in Hd. rewrite rev_append_rev in Hd. rewrite <- Hd at 2. rewrite app_length. lia.
Qed.

Lemma with_headers_safe_mr : forall data acc, safe (with_headers 1 data (parse_mr (S (length data)) acc)).
Proof.
  intros data acc. unfold with_headers, bind.
  destruct (consume_headers_fwd 1 (buf_new data) eq_refl) as [H1 H2]. pose proof (headers_rest_le 1 data) as H3.
  destruct (consume_headers 1 (buf_new data)) as [[u| | | |] b1]; cbn [fst snd] in *; try contradiction; [|exact I].
  apply parse_mr_safe; [exact H2|lia].
Qed.
Lemma with_headers_safe_players : forall data acc, safe (with_headers 2 data (parse_u2_players (S (length data)) acc)).
Proof.
  intros data acc. unfold with_headers, bind.
  destruct (consume_headers_fwd 2 (buf_new data) eq_refl) as [H1 H2]. pose proof (headers_rest_le 2 data) as H3.
  destruct (consume_headers 2 (buf_new data)) as [[u| | | |] b1]; cbn [fst snd] in *; try contradiction; [|exact I].
  apply parse_u2_players_safe; [exact H2|lia].
Qed.

Section WithPort.
  Variable port : N.
  Notation Moku := (Mok (Qu port)).
  Definition okru (n : net) {A} (r : outcome A * net) : Prop :=
    safe (fst r) /\ (length (n_udp (snd r)) <= length (n_udp n))%nat
    /\ exists evs, n_trace (snd r) = evs ++ n_trace n /\ Forall (Qu port) evs.
  Lemma okru_refl : forall A (o : outcome A) n, safe o -> okru n (o, n).
  Proof. intros A o n H. split; [exact H|split; [cbn; lia|exists []; split; [reflexivity|constructor]]]. Qed.
  Lemma okru_trans : forall A B n (r1 : outcome A * net) (r2 : outcome B * net),
    okru n r1 -> okru (snd r1) r2 -> okru n r2.
  Proof.
    intros A B n r1 r2 [_ [L1 [e1 [T1 F1]]]] [S2 [L2 [e2 [T2 F2]]]]. split; [exact S2|split; [lia|]].
    exists (e2 ++ e1). split; [rewrite T2, T1, app_assoc; reflexivity|apply Forall_app; split; assumption].
  Qed.

  Lemma Mok_u2_request : forall retries kind, kind <= 2 -> Moku (u2_get_request_data port retries kind).
  Proof.
    intros retries kind Hk. unfold u2_get_request_data. apply Mok_retry.
    apply Mok_bind; [|intros _; apply Mok_udp_recv; exact I].
    apply Mok_send. split; [reflexivity|]. assert (kind = 0 \/ kind = 1 \/ kind = 2) as [->|[->| ->]] by lia; auto.
  Qed.

  Lemma more_mr_ok : forall fuel acc n, (length (n_udp n) < fuel)%nat -> okru n (more_mr fuel acc n).
  Proof.
    induction fuel as [|f IH]; intros acc n Hf; [lia|]. cbn [more_mr].
    pose proof (Mok_udp_recv (Qu port) (Some u2_packet_size) I n) as [R1 [R2 [ev [R3 R4]]]].
    destruct (udp_recv (Some u2_packet_size) n) as [[data|e| | |] n1] eqn:E; cbn [fst snd] in *; try contradiction.
    - apply udp_recv_consumes in E.
      assert (Hn1 : okru n (@Ok unit tt, n1)) by (split; [exact I|split; [cbn; lia|exists ev; split; assumption]]).
      pose proof (proj1 (consume_headers_fwd 1 (buf_new data) eq_refl)) as Hh.
      destruct (fst (consume_headers 1 (buf_new data))) as [u|e2| | |]; cbn in Hh; try contradiction.
      + pose proof (with_headers_safe_mr data acc) as Hw.
        destruct (with_headers 1 data (parse_mr (S (length data)) acc)) as [acc'|e3| | |]; cbn in Hw; try contradiction.
        * apply (okru_trans _ _ n _ _ Hn1). cbn [snd]. apply IH. lia.
        * apply (okru_trans _ _ n _ _ Hn1). cbn [snd fst]. apply okru_refl. exact I.
      + apply (okru_trans _ _ n _ _ Hn1). cbn [snd fst]. apply okru_refl. exact I.
    - split; [exact I|split; [cbn; lia|exists ev; split; assumption]].
  Qed.

  Lemma Mok_query_mr : forall retries, Moku (query_mr port retries).
  Proof.
    intro retries. unfold query_mr. apply Mok_bind; [apply Mok_u2_request; lia|intro data].
    apply Mok_bind; [apply Mok_lift, with_headers_safe_mr|intro first].
    intro n. apply more_mr_ok. lia.
  Qed.

  Lemma more_players_ok : forall fuel num acc data n, (length (n_udp n) < fuel)%nat -> okru n (more_players fuel num acc data n).
  Proof.
    induction fuel as [|f IH]; intros num acc data n Hf; [lia|]. cbn [more_players].
    pose proof (with_headers_safe_players data acc) as Hw.
    destruct (with_headers 2 data (parse_u2_players (S (length data)) acc)) as [acc'|e3| | |]; cbn in Hw; try contradiction;
      [|apply okru_refl; exact I].
    destruct (num <=? _); [apply okru_refl; exact I|].
    pose proof (Mok_udp_recv (Qu port) (Some u2_packet_size) I n) as [R1 [R2 [ev [R3 R4]]]].
    destruct (udp_recv (Some u2_packet_size) n) as [[d|e| | |] n1] eqn:E; cbn [fst snd] in *; try contradiction.
    - apply udp_recv_consumes in E.
      assert (Hn1 : okru n (@Ok unit tt, n1)) by (split; [exact I|split; [cbn; lia|exists ev; split; assumption]]).
      apply (okru_trans _ _ n _ _ Hn1). cbn [snd]. apply IH. lia.
    - split; [exact I|split; [cbn; lia|exists ev; split; assumption]].
  Qed.

  Lemma Mok_query_players : forall retries num, Moku (query_players port retries num).
  Proof.
    intros retries num. unfold query_players.
    apply Mok_bind; [apply Mok_log; cbn; lia|intros _].
    apply Mok_bind; [apply Mok_u2_request; lia|intro data].
    intro n. apply more_players_ok. lia.
  Qed.

  Lemma Rsafe_parse_u2_info : Rsafe parse_u2_info.
  Proof.
    unfold parse_u2_info, read_u32l, u2_string.
    repeat (apply Rsafe_bind; [first [apply Rsafe_read_uint|apply Rsafe_dec_unreal2]|intro]). apply Rsafe_ret.
  Qed.

  Theorem u2_query_ok : forall g t, settings_ok t -> Moku (u2_query port g t).
  Proof.
    intros g t Hs. unfold u2_query.
    apply Mok_bind; [apply Mok_udp_new; [exact Hs|exact I|intros; exact I]|intros _].
    apply Mok_bind.
    - unfold query_server_info. apply Mok_bind; [apply Mok_u2_request; lia|intro data].
      apply Mok_lift. unfold with_headers. apply Rsafe_run. apply Rsafe_bind; [apply consume_headers_fwd|intros _; apply Rsafe_parse_u2_info].
    - intro info. apply Mok_bind; [apply Mok_gather, Mok_query_mr|intro mr].
      apply Mok_bind; [apply Mok_gather, Mok_query_players|intro players]. apply Mok_ret.
  Qed.
End WithPort.

Theorem u2_total : forall port g t u tc sf, settings_ok t -> safe (fst (u2_query port g t (net_init u tc sf))).
Proof. intros. exact (proj1 (u2_query_ok port g t H (net_init u tc sf))). Qed.
Theorem u2_sends_are_requests : forall port g t u tc sf, settings_ok t ->
  forall p d, In (SendEv p d) (n_trace (snd (u2_query port g t (net_init u tc sf)))) ->
  p = port /\ (d = u2_request 0 \/ d = u2_request 1 \/ d = u2_request 2).
Proof.
  intros port g t u tc sf Hs p d Hin.
  destruct (u2_query_ok port g t Hs (net_init u tc sf)) as [_ [_ [evs [H1 H2]]]].
  rewrite H1 in Hin. cbn [net_init n_trace] in Hin. rewrite app_nil_r in Hin.
  rewrite Forall_forall in H2. exact (H2 _ Hin).
Qed.
Theorem u2_reserves_bounded : forall port g t u tc sf, settings_ok t ->
  Forall (fun k => k <= 50) (reserves (snd (u2_query port g t (net_init u tc sf)))).
Proof.
  intros port g t u tc sf Hs.
  destruct (u2_query_ok port g t Hs (net_init u tc sf)) as [_ [_ [evs [H1 H2]]]].
  unfold reserves. rewrite H1. cbn [net_init n_trace]. rewrite app_nil_r. clear H1.
  induction H2 as [|e evs He Hevs IH]; [constructor|]. cbn [flat_map]. apply Forall_app. split; [|exact IH].
  destruct e; try constructor; [exact He|constructor].
Qed.
