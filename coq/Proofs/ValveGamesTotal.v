(* C01 rows for the games that sit on the Valve protocol: The Ship, Battalion
   1944 (the generic query plus a mapping) and America's Army: Proving Grounds
   style FFOW (its own request kind through the Valve challenge loop). *)
From GD Require Import Base.Prelude Model.Strings Model.StrOps Model.Buffer Model.Net Model.Valve Model.Gamespy Model.Games.
From GD Require Import Proofs.BufferLemmas Proofs.BufInv Proofs.Msafe Proofs.ValveTotal Proofs.QuakeTotal Proofs.GamesTotal Proofs.GamespyTotal.
From Coq Require Import ZifyBool ZifyNat ZifyN Lia.

Lemma Mok_mono (Q Q' : tev -> Prop) A (m : M A) : (forall e, Q e -> Q' e) -> Mok Q m -> Mok Q' m.
Proof.
  intros HQ H n. destruct (H n) as [H1 [H2 [evs [H3 H4]]]]. split; [exact H1|split; [exact H2|exists evs; split; [exact H3|]]].
  eapply Forall_impl; [|exact H4]. exact HQ.
Qed.
Lemma settings_ok_none : settings_ok None.
Proof. cbn. split; intros d H; inversion H; reflexivity. Qed.

Section WithBz.
  Variable bz : bytes -> N -> outcome bytes.
  Hypothesis bz_safe : forall p s, safe (bz p s).

  Lemma safe_ship_of_valve r : safe (ship_of_valve r).
  Proof.
    unfold ship_of_valve. apply safe_obind; [apply safe_need|intros ship].
    apply safe_obind; [apply safe_need|intros ps].
    apply safe_obind; [|intros players; apply safe_obind; [apply safe_need|intros rules; exact I]].
    apply omap_list_safe. intros p. apply safe_obind; [apply safe_need|intros d]. apply safe_obind; [apply safe_need|intros m]. exact I.
  Qed.
  Lemma safe_bat_overrides r : safe (bat_overrides r).
  Proof.
    unfold bat_overrides. destruct (r_rules r) as [rules|]; [|exact I].
    apply safe_obind.
    { destruct (vm_get _ rules); [apply safe_obind; [apply safe_need|intro; exact I]|exact I]. }
    intros [i rules1]. apply safe_obind.
    { destruct (vm_get _ rules1); [apply safe_obind; [apply safe_need|intro; exact I]|exact I]. }
    intros [i2 rules2].
    repeat match goal with |- safe (let '(_, _) := ?x in _) => destruct x end. exact I.
  Qed.

  Theorem theship_query_ok port t : settings_ok t -> MokT (theship_query bz port t).
  Proof.
    intros Hs. unfold theship_query, MokT.
    apply Mok_bind; [|intros r; apply Mok_lift, safe_ship_of_valve].
    apply Mok_mono with (Q := Qv port); [intros; exact I|]. apply valve_query_ok; [exact bz_safe|exact Hs|exact I].
  Qed.
  Theorem battalion_query_ok port : MokT (battalion_query bz port).
  Proof.
    unfold battalion_query, MokT.
    apply Mok_bind; [|intros r; apply Mok_bind; [apply Mok_lift, safe_bat_overrides|intros r'; apply Mok_ret]].
    apply Mok_mono with (Q := Qv port); [intros; exact I|]. apply valve_query_ok; [exact bz_safe|exact settings_ok_none|exact I].
  Qed.

  (* the challenge loop for any request kind *)
  Lemma MokT_receive e protocol : MokT (receive bz e protocol).
  Proof. apply Mok_mono with (Q := Qv 0); [intros; exact I|]. apply Mok_receive. exact bz_safe. Qed.
  Lemma challenge_loop_at : forall fuel port e protocol kind pk n, (length (n_udp n) < fuel)%nat ->
    MokAt (challenge_loop bz fuel port e protocol kind pk) n.
  Proof.
    induction fuel as [|f IH]; intros port e protocol kind pk n Hf; [lia|].
    cbn [challenge_loop]. destruct pk as [k payload]. destruct (k =? 65); [|apply MokAt_ret].
    apply MokAt_bind; [apply MokAt_of, MokT_send|]. intros u n1 E1. apply send_keeps_udp in E1.
    apply MokAt_bind; [apply MokAt_of, MokT_receive|]. intros pk' n2 E2.
    apply (receive_consumes bz bz_safe 0) in E2. rewrite E1 in E2. apply IH. lia.
  Qed.
  Theorem ffow_query_ok port t : settings_ok t -> MokT (ffow_query bz port t).
  Proof.
    intros Hs. unfold ffow_query, MokT.
    apply Mok_bind; [apply MokT_udp_new; exact Hs|intros _].
    apply Mok_bind; [|intros data; apply Mok_lift, Rsafe_run, ffow_parse_safe].
    apply Mok_retry. unfold get_request_data_impl.
    apply Mok_bind; [apply MokT_send|intros _]. apply Mok_bind; [apply MokT_receive|intros pk].
    apply MokT_of_at. intros n. apply challenge_loop_at. lia.
  Qed.

  Theorem theship_total port t u tc sf : settings_ok t -> safe (fst (theship_query bz port t (net_init u tc sf))).
  Proof. intros H. exact (proj1 (theship_query_ok port t H (net_init u tc sf))). Qed.
  Theorem battalion_total port u tc sf : safe (fst (battalion_query bz port (net_init u tc sf))).
  Proof. exact (proj1 (battalion_query_ok port (net_init u tc sf))). Qed.
  Theorem ffow_total port t u tc sf : settings_ok t -> safe (fst (ffow_query bz port t (net_init u tc sf))).
  Proof. intros H. exact (proj1 (ffow_query_ok port t H (net_init u tc sf))). Qed.
End WithBz.
