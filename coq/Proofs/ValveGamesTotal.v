(* C01 rows for the games that sit on the Valve protocol: The Ship, Battalion
   1944 (the generic query plus a mapping) and America's Army: Proving Grounds
   style FFOW (its own request kind through the Valve challenge loop). *)
From GD Require Import Base.Prelude Model.Strings Model.StrOps Model.Buffer Model.Net Model.Valve Model.Gamespy Model.Games Model.View Model.Minecraft.
From GD Require Import Proofs.BufferLemmas Proofs.BufInv Proofs.Msafe Proofs.ValveTotal Proofs.QuakeTotal Proofs.GamesTotal Proofs.GamespyTotal.
From Coq Require Import ZifyBool ZifyNat ZifyN Lia.

Lemma Mok_mono (Q Q' : tev -> Prop) A (m : M A) : (forall e, Q e -> Q' e) -> Mok Q m -> Mok Q' m.
Proof.
  intros HQ H n. destruct (H n) as [H1 [H2 [evs [H3 H4]]]]. split; [exact H1|split; [exact H2|exists evs; split; [exact H3|]]].
  eapply Forall_impl; [|exact H4]. exact HQ.
Qed.
Lemma settings_ok_none : settings_ok None.
Proof. cbn. split; intros d H; inversion H; reflexivity. Qed.

Section WithBz.
  Variable bz : bytes -> N -> outcome bytes.
  Hypothesis bz_safe : forall p s, safe (bz p s).

  Lemma safe_ship_of_valve r : safe (ship_of_valve r).
  Proof.
    unfold ship_of_valve. apply safe_obind; [apply safe_need|intros ship].
    apply safe_obind; [apply safe_need|intros ps].
    apply safe_obind; [|intros players; apply safe_obind; [apply safe_need|intros rules; exact I]].
    apply omap_list_safe. intros p. apply safe_obind; [apply safe_need|intros d]. apply safe_obind; [apply safe_need|intros m]. exact I.
  Qed.
  Lemma safe_bat_overrides r : safe (bat_overrides r).
  Proof.
    unfold bat_overrides. destruct (r_rules r) as [rules|]; [|exact I].
    apply safe_obind.
    { destruct (vm_get _ rules); [apply safe_obind; [apply safe_need|intro; exact I]|exact I]. }
    intros [i rules1]. apply safe_obind.
    { destruct (vm_get _ rules1); [apply safe_obind; [apply safe_need|intro; exact I]|exact I]. }
    intros [i2 rules2].
    repeat match goal with |- safe (let '(_, _) := ?x in _) => destruct x end. exact I.
  Qed.

  Theorem theship_query_ok port t : settings_ok t -> MokT (theship_query bz port t).
  Proof.
    intros Hs. unfold theship_query, MokT.
    apply Mok_bind; [|intros r; apply Mok_lift, safe_ship_of_valve].
    apply Mok_mono with (Q := Qv port); [intros; exact I|]. apply valve_query_ok; [exact bz_safe|exact Hs|exact I].
  Qed.
  Theorem battalion_query_ok port : MokT (battalion_query bz port).
  Proof.
    unfold battalion_query, MokT.
    apply Mok_bind; [|intros r; apply Mok_bind; [apply Mok_lift, safe_bat_overrides|intros r'; apply Mok_ret]].
    apply Mok_mono with (Q := Qv port); [intros; exact I|]. apply valve_query_ok; [exact bz_safe|exact settings_ok_none|exact I].
  Qed.

  (* the challenge loop for any request kind *)
  Lemma MokT_receive e protocol : MokT (receive bz e protocol).
  Proof. apply Mok_mono with (Q := Qv 0); [intros; exact I|]. apply Mok_receive. exact bz_safe. Qed.
  Lemma challenge_loop_at : forall fuel port e protocol kind pk n, (length (n_udp n) < fuel)%nat ->
    MokAt QT (challenge_loop bz fuel port e protocol kind pk) n.
  Proof.
    induction fuel as [|f IH]; intros port e protocol kind pk n Hf; [lia|].
    cbn [challenge_loop]. destruct pk as [k payload]. destruct (k =? 65); [|apply MokAt_ret].
    apply MokAt_bind; [apply MokAt_of, MokT_send|]. intros u n1 E1. apply send_keeps_udp in E1.
    apply MokAt_bind; [apply MokAt_of, MokT_receive|]. intros pk' n2 E2.
    apply (receive_consumes bz bz_safe 0) in E2. rewrite E1 in E2. apply IH. lia.
  Qed.
  Theorem ffow_query_ok port t : settings_ok t -> MokT (ffow_query bz port t).
  Proof.
    intros Hs. unfold ffow_query, MokT.
    apply Mok_bind; [apply MokT_udp_new; exact Hs|intros _].
    apply Mok_bind; [|intros data; apply Mok_lift, Rsafe_run, ffow_parse_safe].
    apply Mok_retry. unfold get_request_data_impl.
    apply Mok_bind; [apply MokT_send|intros _]. apply Mok_bind; [apply MokT_receive|intros pk].
    apply Mok_of_at. intros n. apply challenge_loop_at. lia.
  Qed.

  (* The Ship and Battalion 1944 keep the contract of the Valve query (C09 / C13 rows) *)
  Theorem theship_query_okv port t : settings_ok t -> Mok (Qv port) (theship_query bz port t).
  Proof.
    intros Hs. unfold theship_query. apply Mok_bind; [|intros r; apply Mok_lift, safe_ship_of_valve].
    apply valve_query_ok; [exact bz_safe|exact Hs|exact I].
  Qed.
  Theorem battalion_query_okv port : Mok (Qv port) (battalion_query bz port).
  Proof.
    unfold battalion_query.
    apply Mok_bind; [|intros r; apply Mok_bind; [apply Mok_lift, safe_bat_overrides|intros r'; apply Mok_ret]].
    apply valve_query_ok; [exact bz_safe|exact settings_ok_none|exact I].
  Qed.

  Theorem theship_total port t u tc sf : settings_ok t -> safe (fst (theship_query bz port t (net_init u tc sf))).
  Proof. intros H. exact (proj1 (theship_query_ok port t H (net_init u tc sf))). Qed.
  Theorem battalion_total port u tc sf : safe (fst (battalion_query bz port (net_init u tc sf))).
  Proof. exact (proj1 (battalion_query_ok port (net_init u tc sf))). Qed.
  Theorem ffow_total port t u tc sf : settings_ok t -> safe (fst (ffow_query bz port t (net_init u tc sf))).
  Proof. intros H. exact (proj1 (ffow_query_ok port t H (net_init u tc sf))). Qed.
End WithBz.

(* the contract of a query whose trace events all satisfy Qv: totality, A2S requests to the
   query's port, reservations of at most 1 MiB, no TCP *)
Definition valve_query_contract {A} (q : M A) (port : N) : Prop :=
  forall u tc sf,
    safe (fst (q (net_init u tc sf)))
    /\ (forall p d, In (SendEv p d) (n_trace (snd (q (net_init u tc sf)))) -> p = port /\ valve_request d)
    /\ Forall (fun k => k <= max_decompressed_size) (reserves (snd (q (net_init u tc sf))))
    /\ (forall p c, ~ In (NewTcp p c) (n_trace (snd (q (net_init u tc sf))))).
Lemma valve_contract_of_mok {A} (q : M A) port : Mok (Qv port) q -> valve_query_contract q port.
Proof.
  intros H u tc sf. destruct (H (net_init u tc sf)) as [H1 [_ [evs [H3 H4]]]].
  cbn [net_init n_trace] in H3. rewrite app_nil_r in H3. split; [exact H1|]. unfold reserves. rewrite H3.
  split; [|split].
  - intros p d Hin. rewrite Forall_forall in H4. exact (H4 _ Hin).
  - exact (forall_reserves port evs H4).
  - intros p c Hin. rewrite Forall_forall in H4. exact (H4 _ Hin).
Qed.
Theorem theship_contract bz : (forall p s, safe (bz p s)) -> forall port t, settings_ok t -> valve_query_contract (theship_query bz port t) port.
Proof. intros Hbz port t Hs. apply valve_contract_of_mok, theship_query_okv; assumption. Qed.
Theorem battalion_contract bz : (forall p s, safe (bz p s)) -> forall port, valve_query_contract (battalion_query bz port) port.
Proof. intros Hbz port. apply valve_contract_of_mok, battalion_query_okv; assumption. Qed.

(* Savage 2, Mindustry, Minecraft Bedrock: one request, one reply *)
Theorem savage2_contract port t : settings_ok t -> udp_query_contract (savage2_query port t) port (fun d => d = [1]).
Proof.
  intros Hs. apply contract_of_mok. unfold savage2_query.
  apply Mok_bind; [apply Mokq_udp_new; exact Hs|intros _]. apply Mok_bind; [apply Mokq_send; reflexivity|intros _].
  apply Mok_bind; [apply Mokq_recv|intros d]. apply Mok_lift, Rsafe_run, savage2_parse_safe.
Qed.
Theorem mindustry_contract port t : settings_ok t -> udp_query_contract (mindustry_query port t) port (fun d => d = [254; 1]).
Proof.
  intros Hs. apply contract_of_mok. unfold mindustry_query, mindustry_attempt. apply Mok_retry.
  apply Mok_bind; [apply Mokq_udp_new; exact Hs|intros _]. apply Mok_bind; [apply Mokq_send; reflexivity|intros _].
  apply Mok_bind; [apply Mokq_recv|intros d]. apply Mok_lift, Rsafe_run, mindustry_parse_safe.
Qed.
Theorem bedrock_contract port t : settings_ok t -> udp_query_contract (Minecraft.query_bedrock port t) port (fun d => d = Minecraft.bedrock_ping).
Proof.
  intros Hs. apply contract_of_mok. unfold Minecraft.query_bedrock, Minecraft.bedrock_info_impl.
  apply Mok_bind; [apply Mokq_udp_new; exact Hs|intros _]. apply Mok_retry. apply Mok_bind; [apply Mokq_send; reflexivity|intros _].
  apply Mok_bind; [apply Mokq_recv|intros d]. apply Mok_lift, Rsafe_run, bedrock_parse_safe.
Qed.
