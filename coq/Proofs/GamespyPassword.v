(* C04: the password flag of GameSpy 1 / 3 (and JC2-MP) replies: the word in any capitalisation, or a number. *)
From GD Require Import Base.Prelude Model.Strings Model.StrOps Model.Buffer Model.Net Model.Valve Model.Gamespy.
From Coq Require Import ZifyBool ZifyNat ZifyN Lia.

Theorem has_password_words : forall (m : vmap) v, vm_get (str "password") m = Some v ->
  (lower_ascii v = str "true" -> has_password m = Ok (true, map_remove (str "password") m))
  /\ (lower_ascii v = str "false" -> has_password m = Ok (false, map_remove (str "password") m))
  /\ (v = str "0" -> has_password m = Ok (false, map_remove (str "password") m))
  /\ (v = str "1" -> has_password m = Ok (true, map_remove (str "password") m)).
Proof.
  intros m v H. unfold has_password, vm_remove. rewrite H. cbn [need obind].
  repeat split; intros E; try (rewrite E; reflexivity); subst v; reflexivity.
Qed.
Theorem has_password_absent : forall (m : vmap), vm_get (str "password") m = None -> has_password m = Err PacketBad.
Proof. intros m H. unfold has_password, vm_remove. rewrite H. reflexivity. Qed.
Example capitalisations :
  lower_ascii (str "True") = str "true" /\ lower_ascii (str "TRUE") = str "true" /\ lower_ascii (str "tRuE") = str "true"
  /\ lower_ascii (str "False") = str "false" /\ lower_ascii (str "FALSE") = str "false".
Proof. repeat split; reflexivity. Qed.

(* the tournament flag of GameSpy 1: absent means true; the word in any capitalisation; anything else is a parse error *)
Theorem tournament_spec : forall (m : vmap),
  (vm_get (str "tournament") m = None -> tournament_of m = Ok (true, map_remove (str "tournament") m))
  /\ (forall v, vm_get (str "tournament") m = Some v ->
        (lower_ascii v = str "true" -> tournament_of m = Ok (true, map_remove (str "tournament") m))
        /\ (lower_ascii v = str "false" -> tournament_of m = Ok (false, map_remove (str "tournament") m))
        /\ (parse_bool (lower_ascii v) = None -> tournament_of m = Err TypeParse)).
Proof.
  intros m. unfold tournament_of, vm_remove. split.
  - intros H. rewrite H. reflexivity.
  - intros v H. rewrite H. repeat split; intros E; rewrite E; reflexivity.
Qed.
