(* C12: the retried units of the other UDP protocols, against a peer that never answers: each fails with the receive
   timeout after exactly one receive, so (silent_peer_costs_retries_plus_one) the retried unit costs retries + 1 receives. *)
From GD Require Import Base.Prelude Model.Strings Model.Buffer Model.Net Model.Valve Model.Gamespy Model.Games Model.Minecraft Model.Unreal2 Proofs.TimeoutProofs.
From Coq Require Import ZifyBool ZifyNat ZifyN Lia.

Ltac silent_unit :=
  let n := fresh "n" in let Hu := fresh "Hu" in let Hf := fresh "Hf" in
  intros n [Hu Hf]; destruct n as [u t f sn cur tr]; cbn [n_udp n_fail] in Hu, Hf; subst u f;
  eexists; split; [reflexivity|]; split; [split; reflexivity|reflexivity].

Lemma valve_one_receive bz port e protocol kind payload : one_receive (get_request_data_impl bz port e protocol kind payload).
Proof. silent_unit. Qed.
Lemma gs1_one_receive port : one_receive (gs1_values_impl port).
Proof. silent_unit. Qed.
Lemma gs2_one_receive port : one_receive (gs2_request_impl port).
Proof. silent_unit. Qed.
Lemma gs3_one_receive port : one_receive (gs3_packets_impl port).
Proof. silent_unit. Qed.
Lemma jc2m_one_receive port : one_receive (jc2m_packets_impl port).
Proof. silent_unit. Qed.
Lemma bedrock_one_receive port : one_receive (bedrock_info_impl port).
Proof. silent_unit. Qed.
Lemma unreal2_one_receive port kind : one_receive (do* _ := send port (u2_request kind) in udp_recv (Some u2_packet_size)).
Proof. apply send_recv_one_receive. Qed.
