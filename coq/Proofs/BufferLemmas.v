(* Lemmas about the packet reader model: the [at_] proof view, the primitive
   reads, the invariant. *)
From GD Require Import Base.Prelude Model.Strings Model.Buffer Model.Unreal2Str Model.BufOps.
From Coq Require Import ZifyBool ZifyNat ZifyN.
Ltac Zify.zify_post_hook ::= Z.div_mod_to_equations.

Definition at_ (pre rest : bytes) : buf := mkbuf (rev pre) rest 0.

Lemma take_n_app : forall (x r : bytes), take_n (length x) (x ++ r) = Some (x, r).
Proof. induction x as [|a x IH]; intro r; cbn [take_n length app]; [reflexivity|]. rewrite IH. reflexivity. Qed.

Lemma take_n_spec : forall n (l a b : bytes), take_n n l = Some (a, b) -> l = a ++ b /\ length a = n.
Proof.
  induction n as [|n IH]; intros l a b H; cbn [take_n] in H.
  - inversion H; subst. split; reflexivity.
  - destruct l as [|x l]; [discriminate|].
    destruct (take_n n l) as [[a' b']|] eqn:E; [|discriminate].
    inversion H; subst. apply IH in E. destruct E as [-> E2]. split; cbn; [reflexivity|lia].
Qed.

Lemma take_n_none : forall n (l : bytes), take_n n l = None -> (length l < n)%nat.
Proof.
  induction n as [|n IH]; intros l H; cbn [take_n] in H; [discriminate|].
  destruct l as [|x l]; [cbn; lia|].
  destruct (take_n n l) as [[a' b']|] eqn:E; [discriminate|]. apply IH in E. cbn. lia.
Qed.

Lemma take_n_some : forall n (l : bytes), (n <= length l)%nat -> take_n n l = Some (firstn n l, skipn n l).
Proof.
  induction n as [|n IH]; intros l H; cbn [take_n firstn skipn]; [reflexivity|].
  destruct l as [|x l]; [cbn in H; lia|]. cbn in H. rewrite IH by lia. reflexivity.
Qed.

Lemma rev_append_at : forall (x pre : bytes), rev_append x (rev pre) = rev (pre ++ x).
Proof. intros. rewrite rev_append_rev, rev_app_distr. reflexivity. Qed.

(* --- fixed-width reads --- *)

Lemma read_raw_at : forall (x pre r : bytes),
  read_raw (length x) (at_ pre (x ++ r)) = (Ok x, at_ (pre ++ x) r).
Proof.
  intros. unfold read_raw, at_. cbn [over rest pre_rev]. rewrite N.eqb_refl, take_n_app, rev_append_at. reflexivity.
Qed.

Lemma read_raw_short : forall w b, buf_inv b -> (length (rest b) < w)%nat ->
  read_raw w b = (Err PacketUnderflow, b).
Proof.
  intros w b Hi Hl. unfold read_raw. rewrite Hi. cbn.
  destruct (take_n w (rest b)) as [[a c]|] eqn:E; [|reflexivity].
  apply take_n_spec in E. destruct E as [E1 E2]. rewrite E1, app_length in Hl. lia.
Qed.

(* the complete specification of a fixed-width read under the invariant *)
Lemma read_raw_spec : forall w b, buf_inv b ->
  read_raw w b =
    if (w <=? length (rest b))%nat
    then (Ok (firstn w (rest b)), mkbuf (rev_append (firstn w (rest b)) (pre_rev b)) (skipn w (rest b)) 0)
    else (Err PacketUnderflow, b).
Proof.
  intros w b Hi. unfold read_raw. rewrite Hi. cbn.
  destruct (Nat.leb_spec w (length (rest b))) as [H|H].
  - rewrite take_n_some by exact H. reflexivity.
  - destruct (take_n w (rest b)) as [[a c]|] eqn:E; [|reflexivity].
    apply take_n_spec in E. destruct E as [E1 E2]. rewrite E1, app_length in H. lia.
Qed.

(* --- data integrity: no operation changes the packet --- *)

Lemma buf_data_advance : forall n b, buf_data (advance n b) = buf_data b.
Proof.
  intros. unfold advance, buf_data.
  destruct (take_n n (rest b)) as [[x r]|] eqn:E; cbn [pre_rev rest].
  - apply take_n_spec in E. destruct E as [-> _]. rewrite !rev_append_rev, rev_app_distr, rev_involutive, app_assoc. reflexivity.
  - rewrite !rev_append_rev, rev_app_distr, rev_involutive, app_nil_r. reflexivity.
Qed.

Lemma advance_inv : forall n b, buf_inv b -> (n <= length (rest b))%nat -> buf_inv (advance n b).
Proof.
  intros n b Hi Hl. unfold advance, buf_inv in *.
  rewrite take_n_some by exact Hl. cbn. exact Hi.
Qed.

Lemma advance_at : forall (x pre r : bytes), advance (length x) (at_ pre (x ++ r)) = at_ (pre ++ x) r.
Proof. intros. unfold advance, at_. cbn [rest pre_rev over]. rewrite take_n_app, rev_append_at. reflexivity. Qed.

Lemma retreat_data : forall n pre rest p r, retreat n pre rest = Some (p, r) -> rev_append p r = rev_append pre rest.
Proof.
  induction n as [|n IH]; intros pre rest p r H; cbn [retreat] in H.
  - inversion H; reflexivity.
  - destruct pre as [|x pre]; [discriminate|]. apply IH in H. rewrite H. reflexivity.
Qed.

Lemma move_cursor_inv : forall off b, buf_inv (snd (move_cursor off b)) \/ snd (move_cursor off b) = b.
Proof.
  intros. unfold move_cursor.
  destruct (_ || _); [right; reflexivity|].
  destruct (0 <=? off + Z.of_N (over b))%Z.
  - destruct (take_n _ _) as [[x r]|]; [left; reflexivity|right; reflexivity].
  - destruct (retreat _ _ _) as [[p r]|]; [left; reflexivity|right; reflexivity].
Qed.

Lemma move_cursor_data : forall off b, buf_data (snd (move_cursor off b)) = buf_data b.
Proof.
  intros. unfold move_cursor.
  destruct (_ || _); [reflexivity|].
  destruct (0 <=? off + Z.of_N (over b))%Z.
  - destruct (take_n _ _) as [[x r]|] eqn:E; [|reflexivity]. cbn [snd]. unfold buf_data; cbn [pre_rev rest].
    apply take_n_spec in E. destruct E as [-> _]. rewrite !rev_append_rev, rev_app_distr, rev_involutive, app_assoc. reflexivity.
  - destruct (retreat _ _ _) as [[p r]|] eqn:E; [|reflexivity]. cbn [snd]. unfold buf_data; cbn [pre_rev rest].
    apply retreat_data in E. exact E.
Qed.
