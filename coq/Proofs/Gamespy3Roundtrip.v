(* C04, GameSpy 3: the packets of a reply decode to exactly the server state:
   every variable, every player over all packets (field sections with offsets,
   a player sent again at the start of the next packet), every team. *)
From GD Require Import Base.Prelude Model.Strings Model.StrOps Model.Buffer Model.Net Model.Valve Model.Gamespy.
From GD Require Import Spec.ValveSpec Spec.QuakeSpec Spec.GamespySpec.
From GD Require Import Proofs.BufferLemmas Proofs.ReadSpecs Proofs.Str Proofs.Utf8 Proofs.ValveRoundtrip Proofs.QuakeRoundtrip Proofs.GamesProofs
  Proofs.GamespyProofs Proofs.IdProofs Proofs.GamespyOrder Proofs.Gamespy2Roundtrip Proofs.Jc2mRoundtrip.
From Coq Require Import ZifyBool ZifyNat ZifyN Lia.

(* ---------- the per-index maps ---------- *)
Definition set_at (i : nat) (f : vmap -> vmap) (pd : list vmap) : list vmap := set_nth i f [] (pad_to (S i) [] pd).
Definition get (i : nat) (pd : list vmap) : vmap := nth i pd [].

Lemma pad_to_length' {A} (d : A) n : forall l, length (pad_to n d l) = Nat.max n (length l).
Proof. induction n as [|n IH]; intros l; [reflexivity|]. destruct l as [|x r]; cbn [pad_to length]; rewrite IH; cbn [length]; lia. Qed.
Lemma pad_to_nth' {A} (d : A) n : forall l k, nth k (pad_to n d l) d = nth k l d.
Proof.
  induction n as [|n IH]; intros l k; [reflexivity|]. destruct l as [|x r]; cbn [pad_to].
  - destruct k as [|k]; [reflexivity|]. cbn [nth]. rewrite IH. destruct k; reflexivity.
  - destruct k as [|k]; [reflexivity|]. cbn [nth]. apply IH.
Qed.
Lemma set_nth_length' {A} (f : A -> A) (d : A) i : forall l, (i < length l)%nat -> length (set_nth i f d l) = length l.
Proof.
  induction i as [|i IH]; intros l H; destruct l as [|x r]; cbn [length] in *; try lia; cbn [set_nth length]; [reflexivity|].
  rewrite IH by lia. reflexivity.
Qed.
Lemma set_nth_nth' {A} (f : A -> A) (d : A) i : forall l k, (i < length l)%nat ->
  nth k (set_nth i f d l) d = if Nat.eqb k i then f (nth i l d) else nth k l d.
Proof.
  induction i as [|i IH]; intros l k H; destruct l as [|x r]; cbn [length] in H; try lia.
  - destruct k; reflexivity.
  - destruct k as [|k]; [reflexivity|]. cbn [set_nth nth]. rewrite IH by lia. reflexivity.
Qed.
Lemma set_at_length i f pd : length (set_at i f pd) = Nat.max (S i) (length pd).
Proof. unfold set_at. rewrite set_nth_length' by (rewrite pad_to_length'; lia). apply pad_to_length'. Qed.
Lemma get_set_at i f pd k : get k (set_at i f pd) = if Nat.eqb k i then f (get i pd) else get k pd.
Proof. unfold get, set_at. rewrite set_nth_nth' by (rewrite pad_to_length'; lia). rewrite !pad_to_nth'. reflexivity. Qed.

(* ---------- the items of one field ---------- *)
Definition item_ok (s : bytes) : bool := no_nul s && nonempty s.
Fixpoint put_items (name : bytes) (off : nat) (items : list bytes) (pd : list vmap) : list vmap :=
  match items with [] => pd | x :: r => put_items name (S off) r (set_at off (vm_insert name x) pd) end.

Lemma items_at : forall items fuel name off data pre r, forallb item_ok items = true ->
  (length (flat_map gcstr items) + 1 + length r < fuel)%nat ->
  gs3_items fuel name off data (at_ pre (flat_map gcstr items ++ 0 :: r))
  = (Ok (put_items name off items data), at_ (pre ++ flat_map gcstr items ++ [0]) r).
Proof.
  induction items as [|x items IH]; intros fuel name off data pre r Hok Hf; (destruct fuel as [|f]; [lia|]); cbn [gs3_items].
  - cbn [flat_map app put_items]. rewrite remaining_at. unfold lenN. cbn [length]. rewrite Nat2N.inj_succ.
    destruct (N.succ _) eqn:E; [lia|]. clear E. cbv beta iota.
    erewrite bind_ok by apply cstr_at_nil. reflexivity.
  - cbn [forallb] in Hok. apply andb_prop in Hok. destruct Hok as [Hx Hok]. unfold item_ok in Hx. apply andb_prop in Hx. destruct Hx as [Hn Hne].
    cbn [flat_map put_items]. change (gcstr x) with (x ++ [0]). rewrite <- !app_assoc. cbn [app].
    rewrite remaining_at. unfold lenN. rewrite app_length. cbn [length].
    destruct (N.of_nat _) eqn:E; [lia|]. clear E. cbv beta iota.
    erewrite bind_ok by (apply cstr_at; exact Hn). destruct x as [|x0 x]; [discriminate|].
    change (set_nth off (vm_insert name (x0 :: x)) [] (pad_to (S off) [] data)) with (set_at off (vm_insert name (x0 :: x)) data).
    rewrite IH; [rewrite <- !app_assoc; cbn [app]; rewrite <- ?app_assoc; reflexivity|exact Hok|].
    cbn [flat_map] in Hf. change (gcstr (x0 :: x)) with ((x0 :: x) ++ [0]) in Hf. rewrite !app_length in Hf. cbn [length] in Hf. lia.
Qed.

(* ---------- sections: markers and fields ---------- *)
Inductive tok := TMark (c : N) | TField (w base : bytes) (team : bool) (off : N) (items : list bytes).
Definition enc_tok (t : tok) : bytes :=
  match t with
  | TMark c => [c]
  | TField w _ _ off items => gcstr w ++ [off] ++ flat_map gcstr items ++ [0]
  end.
(* what the client reads off a field name: the part before '_' must be a known field, the part after it says team or player *)
Definition field_ok (w base : bytes) (team : bool) : bool :=
  match split 95 w with
  | [b; sfx] => bytes_eqb b base && (if team then bytes_eqb sfx (str "t") else match sfx with [] => true | _ => false end)
  | _ => false
  end
  && existsb (bytes_eqb base) gs3_fields && no_nul w && match w with c :: _ => 3 <=? c | [] => false end.
Definition tok_ok (t : tok) : bool :=
  match t with
  | TMark c => c <? 3
  | TField w base team off items => field_ok w base team && (off <? 256) && forallb item_ok items
  end.
Definition apply_tok (st : list vmap * list vmap) (t : tok) : list vmap * list vmap :=
  match t with
  | TMark _ => st
  | TField _ base team off items =>
      if team then (fst st, put_items base (N.to_nat off) items (snd st)) else (put_items base (N.to_nat off) items (fst st), snd st)
  end.

Lemma sections_at : forall toks fuel pd td pre, forallb tok_ok toks = true ->
  (length (flat_map enc_tok toks) < fuel)%nat ->
  gs3_sections fuel pd td (at_ pre (flat_map enc_tok toks))
  = (Ok (fold_left apply_tok toks (pd, td)), at_ (pre ++ flat_map enc_tok toks) []).
Proof.
  induction toks as [|t toks IH]; intros fuel pd td pre Hok Hf; (destruct fuel as [|f]; [lia|]); cbn [gs3_sections].
  - cbn [flat_map]. rewrite app_nil_r. reflexivity.
  - cbn [forallb] in Hok. apply andb_prop in Hok. destruct Hok as [Ht Hok]. cbn [flat_map fold_left].
    destruct t as [c|w base team off items]; cbn [tok_ok] in Ht.
    + (* a marker byte *)
      cbn [enc_tok app]. rewrite remaining_at. unfold lenN. cbn [length]. rewrite Nat2N.inj_succ.
      destruct (N.succ _) eqn:E; [lia|]. clear E. cbv beta iota.
      erewrite bind_ok by apply read_u8_lt. rewrite Ht. cbn [apply_tok].
      rewrite IH; [rewrite <- app_assoc; reflexivity|exact Hok|]. cbn [flat_map enc_tok app length] in Hf. lia.
    + (* a field *)
      do 2 (apply andb_prop in Ht; destruct Ht as [Ht ?]). rename H into Hitems, H0 into Hoff.
      unfold field_ok in Ht. do 3 (apply andb_prop in Ht; destruct Ht as [Ht ?]). rename Ht into Hsplit, H into Hc3, H0 into Hnn, H1 into Hknown.
      destruct w as [|c w']; [discriminate|].
      cbn [enc_tok]. change (gcstr (c :: w')) with ((c :: w') ++ [0]). rewrite <- !app_assoc. cbn [app].
      rewrite remaining_at. unfold lenN. cbn [length]. rewrite Nat2N.inj_succ.
      destruct (N.succ _) eqn:E; [lia|]. clear E. cbv beta iota.
      erewrite bind_ok by apply read_u8_lt. replace (c <? 3) with false by lia. cbv beta iota.
      erewrite bind_ok by apply move_back1.
      change (c :: w' ++ ?x) with ((c :: w') ++ x).
      erewrite bind_ok by (apply cstr_at; exact Hnn). cbv beta iota.
      destruct (split 95 (c :: w')) as [|b [|sfx [|x sp]]] eqn:Esp; try discriminate.
      apply andb_prop in Hsplit. destruct Hsplit as [Hb Hsfx]. apply bytes_eqb_eq in Hb. subst b.
      cbn [hd]. rewrite Hknown. cbn [negb].
      assert (Hty : (match sfx with [] => Ok false | _ :: _ => if bytes_eqb sfx (str "t") then Ok true else Err PacketBad end) = Ok team).
      { destruct team; [rewrite Hsfx; destruct sfx; [discriminate|reflexivity]|destruct sfx; [reflexivity|discriminate]]. }
      rewrite Hty.
      erewrite bind_ok by apply read_u8_lt. cbv beta iota. cbn [apply_tok fst snd].
      destruct team.
      * erewrite bind_ok.
        2:{ apply items_at; [exact Hitems|]. cbn [rest at_ length]. rewrite !app_length. cbn [length]. rewrite ?app_length. lia. }
        rewrite IH; [rewrite <- !app_assoc; cbn [app]; rewrite <- ?app_assoc; reflexivity|exact Hok|].
        cbn [flat_map enc_tok] in Hf. unfold gcstr, nul in Hf. rewrite !app_length in Hf. cbn [length] in Hf. rewrite ?app_length in Hf. cbn [length] in Hf. lia.
      * erewrite bind_ok.
        2:{ apply items_at; [exact Hitems|]. cbn [rest at_ length]. rewrite !app_length. cbn [length]. rewrite ?app_length. lia. }
        rewrite IH; [rewrite <- !app_assoc; cbn [app]; rewrite <- ?app_assoc; reflexivity|exact Hok|].
        cbn [flat_map enc_tok] in Hf. unfold gcstr, nul in Hf. rewrite !app_length in Hf. cbn [length] in Hf. rewrite ?app_length in Hf. cbn [length] in Hf. lia.
Qed.

(* ---------- all packets ---------- *)
Lemma all_sections_at : forall (tokss : list (list tok)) pd td,
  forallb (forallb tok_ok) tokss = true ->
  gs3_all_sections (map (flat_map enc_tok) tokss) pd td = Ok (fold_left apply_tok (concat tokss) (pd, td)).
Proof.
  induction tokss as [|toks tokss IH]; intros pd td Hok; cbn [map gs3_all_sections concat]; [reflexivity|].
  cbn [forallb] in Hok. apply andb_prop in Hok. destruct Hok as [H1 H2].
  change (buf_new ?d) with (at_ [] d). rewrite sections_at by (try exact H1; lia). cbn [fst obind].
  rewrite fold_left_app. destruct (fold_left apply_tok toks (pd, td)) as [pd' td']. apply IH. exact H2.
Qed.

(* ---------- reading the per-index maps back ---------- *)
Lemma put_items_length name : forall items off pd,
  length (put_items name off items pd) = match items with [] => length pd | _ => Nat.max (off + length items) (length pd) end.
Proof.
  induction items as [|x items IH]; intros off pd; cbn [put_items]; [reflexivity|].
  rewrite IH, set_at_length. destruct items; cbn [length]; lia.
Qed.
Lemma put_items_get name : forall items off pd k,
  get k (put_items name off items pd)
  = if (off <=? k)%nat && (k <? off + length items)%nat then vm_insert name (nth (k - off) items []) (get k pd) else get k pd.
Proof.
  induction items as [|x items IH]; intros off pd k; cbn [put_items length].
  - replace ((off <=? k)%nat && (k <? off + 0)%nat) with false by lia. reflexivity.
  - rewrite IH, get_set_at.
    destruct (Nat.eqb_spec k off) as [->|Hne].
    + replace ((S off <=? off)%nat && (off <? S off + length items)%nat) with false by lia.
      replace ((off <=? off)%nat && (off <? off + S (length items))%nat) with true by lia. rewrite Nat.sub_diag. reflexivity.
    + destruct ((S off <=? k)%nat && (k <? S off + length items)%nat) eqn:E.
      * replace ((off <=? k)%nat && (k <? off + S (length items))%nat) with true by lia.
        replace (k - off)%nat with (S (k - S off)) by lia. reflexivity.
      * replace ((off <=? k)%nat && (k <? off + S (length items))%nat) with false by lia. reflexivity.
Qed.

(* ---------- one group of players in one packet ---------- *)
Definition pfields (pid : bool) (nm : bytes) (p : gs3_player) : list (bytes * bytes) :=
  [(str "player", nm); (str "score", show_Z (p3_score p)); (str "ping", show_N (p3_ping p)); (str "team", show_N (p3_team p));
   (str "deaths", show_N (p3_deaths p))]
  ++ (if pid then [(str "pid", show_N (p3_ping p + 100))] else []) ++ [(str "skill", show_N (p3_skill p))].
Definition ins_all (l : list (bytes * bytes)) (m : vmap) : vmap := fold_left ins l m.

Definition ptoks (pid : bool) (off : N) (names : list bytes) (items : list gs3_player) : list tok :=
  [TMark 1;
   TField (str "player_") (str "player") false (off mod 256) names;
   TField (str "score_") (str "score") false (off mod 256) (map (fun p => show_Z (p3_score p)) items);
   TField (str "ping_") (str "ping") false (off mod 256) (map (fun p => show_N (p3_ping p)) items);
   TField (str "team_") (str "team") false (off mod 256) (map (fun p => show_N (p3_team p)) items);
   TField (str "deaths_") (str "deaths") false (off mod 256) (map (fun p => show_N (p3_deaths p)) items)]
  ++ (if pid then [TField (str "pid_") (str "pid") false (off mod 256) (map (fun p => show_N (p3_ping p + 100)) items)] else [])
  ++ [TField (str "skill_") (str "skill") false (off mod 256) (map (fun p => show_N (p3_skill p)) items); TMark 0].
Lemma ptoks_enc pid off names items :
  flat_map enc_tok (ptoks pid off names items) = [1] ++ s3_player_fields_n pid off names items ++ nul.
Proof.
  unfold ptoks, s3_player_fields_n, enc_field, nul. destruct pid; cbn [app flat_map enc_tok]; unfold gcstr, nul; rewrite <- ?app_assoc; cbn [app];
    rewrite <- ?app_assoc; reflexivity.
Qed.

Lemma nth_map_in {A B} (f : A -> B) l i d d' : (i < length l)%nat -> nth i (map f l) d' = f (nth i l d).
Proof. revert i. induction l as [|x l IH]; intros [|i] H; cbn in *; try lia; [reflexivity|apply IH; lia]. Qed.

Lemma group_effect pid (off : N) names items pd td d : off < 256 -> length names = length items ->
  let o := N.to_nat off in
  exists pd', fold_left apply_tok (ptoks pid off names items) (pd, td) = (pd', td)
    /\ length pd' = match items with [] => length pd | _ => Nat.max (o + length items) (length pd) end
    /\ forall k, get k pd' = if (o <=? k)%nat && (k <? o + length items)%nat
                             then ins_all (pfields pid (nth (k - o) names []) (nth (k - o) items d)) (get k pd) else get k pd.
Proof.
  intros Hoff Hlen o. subst o. unfold ptoks. rewrite N.mod_small by lia.
  destruct pid; cbn [app fold_left apply_tok fst snd]; eexists; (split; [reflexivity|]); (split;
    [rewrite !put_items_length, ?map_length; destruct items as [|x items]; [destruct names; [reflexivity|discriminate]|];
     destruct names as [|nm names]; [discriminate|]; cbn [map length] in *; lia|]);
    intros k; rewrite !put_items_get, ?map_length, Hlen;
    (destruct ((N.to_nat off <=? k)%nat && (k <? N.to_nat off + length items)%nat) eqn:E; [|reflexivity]);
    rewrite !(nth_map_in _ items (k - N.to_nat off) d) by lia; reflexivity.
Qed.

Ltac ckeys3 :=
  repeat first
    [ rewrite map_insert_cons
    | match goal with
      | |- context [bytes_eqb (str ?a) (str ?b)] =>
          let r := eval vm_compute in (bytes_eqb (str a) (str b)) in change (bytes_eqb (str a) (str b)) with r
      end
    | progress cbv beta iota ].
Lemma ins_all_fresh pid nm p : ins_all (pfields pid nm p) [] = pfields pid nm p.
Proof. unfold ins_all, pfields, ins, vm_insert. destruct pid; cbn [app fold_left fst snd map_insert]; ckeys3; reflexivity. Qed.
Lemma ins_all_again pid nm nm' p : ins_all (pfields pid nm p) (pfields pid nm' p) = pfields pid nm p.
Proof. unfold ins_all, pfields, ins, vm_insert. destruct pid; cbn [app fold_left fst snd]; ckeys3; reflexivity. Qed.

(* ---------- all the player groups of a reply ---------- *)
Fixpoint bodies_toks (pid resend : bool) (offset : N) (prev : option gs3_player) (gs : list (list gs3_player)) : list (list tok) :=
  match gs with
  | [] => []
  | g :: r =>
      let more := match r with [] => false | _ => true end in
      let '(off, items) := match prev with
                           | Some p => if resend then (offset - 1, p :: g) else (offset, g)
                           | None => (offset, g)
                           end in
      let names := if resend && more then cut_last (map p3_name items) else map p3_name items in
      ptoks pid off names items :: bodies_toks pid resend (offset + lenN g) (match rev g with l :: _ => Some l | [] => prev end) r
  end.
Lemma bodies_enc pid resend : forall gs offset prev,
  map (flat_map enc_tok) (bodies_toks pid resend offset prev gs) = s3_bodies_r pid resend offset prev gs.
Proof.
  induction gs as [|g r IH]; intros offset prev; [reflexivity|]. cbn [bodies_toks s3_bodies_r].
  destruct (match prev with Some p => if resend then (offset - 1, p :: g) else (offset, g) | None => (offset, g) end) as [off items].
  cbn [map]. rewrite ptoks_enc, IH. reflexivity.
Qed.

Lemma cut_last_length l : length (cut_last l) = length l.
Proof. unfold cut_last. destruct (rev l) as [|x r] eqn:E; [apply (f_equal (@length _)) in E; rewrite rev_length in E; destruct l; [reflexivity|discriminate]|].
  rewrite rev_length. cbn [length]. apply (f_equal (@length _)) in E. rewrite rev_length in E. cbn [length] in E. symmetry. exact E. Qed.
Lemma cut_last_nth l k : (S k < length l)%nat -> nth k (cut_last l) [] = nth k l [].
Proof.
  intros H. unfold cut_last. destruct (rev l) as [|x r] eqn:E.
  - assert (El : l = []) by (rewrite <- (rev_involutive l), E; reflexivity). subst l. cbn in H. lia.
  - assert (El : l = rev r ++ [x]) by (rewrite <- (rev_involutive l), E; reflexivity). clear E. subst l.
    rewrite app_length, rev_length in H. cbn [length] in H. cbn [rev].
    rewrite !app_nth1 by (rewrite rev_length; unfold bytes in *; lia). reflexivity.
Qed.

Section Groups.
  Variables (pid resend : bool) (d : gs3_player).
  Definition lastp (l : list gs3_player) : option gs3_player := match rev l with x :: _ => Some x | [] => None end.
  (* the maps after the players [done] have been sent; the name of the last one may have been cut *)
  Definition Done (done : list gs3_player) (pd : list vmap) : Prop :=
    length pd = Nat.max 1 (length done)
    /\ (forall k, (length done <= k)%nat -> get k pd = [])
    /\ (forall k, (k < length done)%nat -> exists nm, get k pd = pfields pid nm (nth k done d)
                                                       /\ ((S k < length done)%nat \/ resend = false -> nm = p3_name (nth k done d))).
  Definition Full (done : list gs3_player) (pd : list vmap) : Prop :=
    length pd = Nat.max 1 (length done)
    /\ (forall k, (length done <= k)%nat -> get k pd = [])
    /\ (forall k, (k < length done)%nat -> get k pd = pfields pid (p3_name (nth k done d)) (nth k done d)).

  Lemma lastp_nth done p : lastp done = Some p -> (0 < length done)%nat /\ p = nth (length done - 1) done d.
  Proof.
    unfold lastp. destruct (rev done) as [|x r] eqn:E; [discriminate|]. intros H. inversion H; subst x.
    assert (El : done = rev r ++ [p]) by (rewrite <- (rev_involutive done), E; reflexivity).
    rewrite El, app_length, rev_length. cbn [length]. split; [lia|].
    rewrite app_nth2 by (rewrite rev_length; lia). rewrite rev_length. replace (length r + 1 - 1 - length r)%nat with 0%nat by lia. reflexivity.
  Qed.
  Lemma lastp_app done g : g <> [] -> lastp (done ++ g) = match rev g with l :: _ => Some l | [] => lastp done end.
  Proof. intros Hg. unfold lastp. rewrite rev_app_distr. destruct (rev g) as [|x r] eqn:E; [|reflexivity].
    apply (f_equal (@length _)) in E. rewrite rev_length in E. destruct g; [contradiction|discriminate]. Qed.

  Lemma group_step done g more pd td : g <> [] -> (length done + length g < 256)%nat -> Done done pd ->
    let prev := lastp done in
    let '(off, items) := match prev with
                         | Some p => if resend then (N.of_nat (length done) - 1, p :: g) else (N.of_nat (length done), g)
                         | None => (N.of_nat (length done), g)
                         end in
    let names := if resend && more then cut_last (map p3_name items) else map p3_name items in
    exists pd', fold_left apply_tok (ptoks pid off names items) (pd, td) = (pd', td)
                /\ Done (done ++ g) pd' /\ (resend && more = false -> Full (done ++ g) pd').
  Proof.
    intros Hg Hlen [L [Z P]] prev.
    set (n := length done) in *.
    destruct prev as [p|] eqn:Ep; [destruct resend eqn:Er|].
    - (* the last player of the previous packet is sent again *)
      destruct (lastp_nth done p Ep) as [Hn Hp]. fold n in Hn, Hp.
      set (items := p :: g). set (names := if true && more then cut_last (map p3_name items) else map p3_name items).
      assert (Hnl : length names = length items) by (unfold names; destruct (true && more); rewrite ?cut_last_length, map_length; reflexivity).
      destruct (group_effect pid (N.of_nat n - 1) names items pd td d ltac:(lia) Hnl) as [pd' [E [L' G']]].
      replace (N.to_nat (N.of_nat n - 1)) with (n - 1)%nat in * by lia.
      exists pd'. split; [exact E|].
      assert (Hitems : length items = S (length g)) by reflexivity.
      assert (Hname : forall j, (j < length items)%nat -> (S j < length items)%nat \/ true && more = false -> nth j names [] = p3_name (nth j items d)).
      { intros j Hj Hc. unfold names. destruct (true && more) eqn:Em.
        - destruct Hc as [Hc|Hc]; [|discriminate]. rewrite cut_last_nth by (rewrite map_length; exact Hc). apply (nth_map_in p3_name items j d). exact Hj.
        - apply (nth_map_in p3_name items j d). exact Hj. }
      assert (Hget : forall k, (k < n + length g)%nat -> exists nm, get k pd' = pfields pid nm (nth k (done ++ g) d)
                        /\ ((S k < n + length g)%nat \/ true && more = false -> nm = p3_name (nth k (done ++ g) d))).
      { intros k Hk. rewrite G'. rewrite Hitems.
        destruct ((n - 1 <=? k)%nat && (k <? n - 1 + S (length g))%nat) eqn:Ein.
        - assert (Hit : nth (k - (n - 1)) items d = nth k (done ++ g) d).
          { destruct (Nat.eq_dec k (n - 1)) as [->|Hne].
            - rewrite Nat.sub_diag. cbn [items nth]. rewrite app_nth1 by lia. exact Hp.
            - replace (k - (n - 1))%nat with (S (k - n)) by lia. cbn [items nth]. rewrite app_nth2 by lia. reflexivity. }
          exists (nth (k - (n - 1)) names []). rewrite Hit. split.
          + destruct (Nat.eq_dec k (n - 1)) as [->|Hne].
            * destruct (P (n - 1)%nat ltac:(lia)) as [nm0 [E0 _]]. rewrite E0. rewrite <- Hp.
              replace (nth (n - 1) (done ++ g) d) with p by (rewrite app_nth1 by lia; exact Hp). apply ins_all_again.
            * rewrite (Z k) by lia. apply ins_all_fresh.
          + intros Hc. rewrite <- Hit. apply Hname; [lia|]. destruct Hc as [Hc|Hc]; [left; lia|right; exact Hc].
        - (* before the rewritten range: already complete *)
          destruct (P k ltac:(lia)) as [nm0 [E0 F0]]. exists nm0. rewrite app_nth1 by lia. split; [exact E0|]. intros _. apply F0. left. lia. }
      assert (D' : Done (done ++ g) pd').
      { split; [|split].
        - rewrite L', L, app_length. fold n. cbn [items length]. lia.
        - intros k Hk. rewrite app_length in Hk. fold n in Hk. rewrite G', Hitems.
          replace ((n - 1 <=? k)%nat && (k <? n - 1 + S (length g))%nat) with false by lia. apply Z. lia.
        - intros k Hk. rewrite app_length in Hk. fold n in Hk. destruct (Hget k Hk) as [nm [E1 F1]]. exists nm. split; [exact E1|].
          intros Hc. apply F1. rewrite app_length in Hc. fold n in Hc. destruct Hc as [Hc|Hc]; [left; exact Hc|congruence]. }
      split; [exact D'|]. intros Hm. destruct D' as [D1 [D2 _]]. split; [exact D1|split; [exact D2|]].
      intros k Hk. rewrite app_length in Hk. fold n in Hk. destruct (Hget k Hk) as [nm [E1 F1]]. rewrite E1, F1 by (right; exact Hm). reflexivity.
    - (* no re-sending: the group starts at its own offset *)
      set (items := g). set (names := if false && more then cut_last (map p3_name items) else map p3_name items).
      assert (Hnl : length names = length items) by (unfold names; cbn [andb]; rewrite map_length; reflexivity).
      destruct (group_effect pid (N.of_nat n) names items pd td d ltac:(lia) Hnl) as [pd' [E [L' G']]].
      rewrite Nat2N.id in *. exists pd'. split; [exact E|].
      assert (F : Full (done ++ g) pd').
      { split; [|split].
        - rewrite L', L, app_length. fold n. unfold items. destruct g; [contradiction|]. cbn [length]. lia.
        - intros k Hk. rewrite app_length in Hk. fold n in Hk. rewrite G'. unfold items.
          replace ((n <=? k)%nat && (k <? n + length g)%nat) with false by lia. apply Z. lia.
        - intros k Hk. rewrite app_length in Hk. fold n in Hk. rewrite G'. unfold items.
          destruct ((n <=? k)%nat && (k <? n + length g)%nat) eqn:Ein.
          + rewrite (Z k) by lia. rewrite ins_all_fresh. rewrite app_nth2 by lia. fold n. unfold names. cbn [andb].
            rewrite (nth_map_in p3_name g (k - n) d) by lia. reflexivity.
          + destruct (P k ltac:(lia)) as [nm0 [E0 F0]]. rewrite app_nth1 by lia. rewrite E0, F0 by (right; reflexivity). reflexivity. }
      split; [|intros _; exact F]. destruct F as [F1 [F2 F3]]. split; [exact F1|split; [exact F2|]].
      intros k Hk. exists (p3_name (nth k (done ++ g) d)). split; [apply F3; exact Hk|reflexivity].
    - (* the first group *)
      assert (Hn0 : n = 0%nat). { change (lastp done = None) in Ep. unfold lastp in Ep. destruct (rev done) eqn:E; [|discriminate Ep]. apply (f_equal (@length _)) in E. rewrite rev_length in E. exact E. }
      set (items := g). set (names := if resend && more then cut_last (map p3_name items) else map p3_name items).
      assert (Hnl : length names = length items) by (unfold names; destruct (resend && more); rewrite ?cut_last_length, map_length; reflexivity).
      destruct (group_effect pid (N.of_nat n) names items pd td d ltac:(lia) Hnl) as [pd' [E [L' G']]].
      rewrite Nat2N.id in *. exists pd'. split; [exact E|].
      assert (Hname : forall j, (j < length g)%nat -> (S j < length g)%nat \/ resend && more = false -> nth j names [] = p3_name (nth j g d)).
      { intros j Hj Hc. unfold names, items. destruct (resend && more) eqn:Em.
        - destruct Hc as [Hc|Hc]; [|discriminate]. rewrite cut_last_nth by (rewrite map_length; exact Hc). apply (nth_map_in p3_name g j d). exact Hj.
        - apply (nth_map_in p3_name g j d). exact Hj. }
      assert (Hget : forall k, (k < n + length g)%nat -> get k pd' = pfields pid (nth (k - n) names []) (nth k (done ++ g) d)).
      { intros k Hk. rewrite G'. unfold items. replace ((n <=? k)%nat && (k <? n + length g)%nat) with true by lia.
        rewrite (Z k) by lia. rewrite ins_all_fresh. rewrite app_nth2 by lia. reflexivity. }
      assert (D' : Done (done ++ g) pd').
      { split; [|split].
        - rewrite L', L, app_length. fold n. unfold items. destruct g; [contradiction|]. cbn [length]. lia.
        - intros k Hk. rewrite app_length in Hk. fold n in Hk. rewrite G'. unfold items.
          replace ((n <=? k)%nat && (k <? n + length g)%nat) with false by lia. apply Z. lia.
        - intros k Hk. rewrite app_length in Hk. fold n in Hk. exists (nth (k - n) names []). split; [apply Hget; exact Hk|].
          intros Hc. rewrite app_length in Hc. fold n in Hc. rewrite app_nth2 by lia. fold n. apply Hname; [lia|].
          destruct Hc as [Hc|Hc]; [left; lia|right; rewrite Hc; reflexivity]. }
      split; [exact D'|]. intros Hm. destruct D' as [D1 [D2 _]]. split; [exact D1|split; [exact D2|]].
      intros k Hk. rewrite app_length in Hk. fold n in Hk. rewrite (Hget k Hk). unfold items in *. rewrite !app_nth2 by lia. fold n.
      rewrite Hname; [reflexivity|lia|right; exact Hm].
  Qed.
End Groups.

(* all the groups: every player gets exactly its fields, names complete *)
Lemma groups_effect pid resend d : forall gs done pd td,
  Forall (fun g => g <> []) gs -> (length done + length (concat gs) < 256)%nat -> Done pid resend d done pd ->
  exists pd', fold_left apply_tok (concat (bodies_toks pid resend (N.of_nat (length done)) (lastp done) gs)) (pd, td) = (pd', td)
              /\ (gs <> [] -> Full pid d (done ++ concat gs) pd') /\ (gs = [] -> pd' = pd).
Proof.
  induction gs as [|g r IH]; intros done pd td Hne Hlen HD.
  - exists pd. split; [reflexivity|split; [intros X; contradiction|reflexivity]].
  - inversion Hne as [|? ? Hg Hr]; subst. cbn [concat] in Hlen. rewrite app_length in Hlen.
    pose proof (group_step pid resend d done g (match r with [] => false | _ => true end) pd td Hg ltac:(lia) HD) as S.
    cbn [bodies_toks]. cbv zeta in S.
    destruct (match lastp done with
              | Some p => if resend then (N.of_nat (length done) - 1, p :: g) else (N.of_nat (length done), g)
              | None => (N.of_nat (length done), g)
              end) as [off items].
    destruct S as [pd1 [E1 [D1 F1]]].
    cbn [concat]. rewrite fold_left_app, E1.
    replace (N.of_nat (length done) + lenN g) with (N.of_nat (length (done ++ g))) by (rewrite app_length; unfold lenN; lia).
    rewrite <- (lastp_app done g Hg).
    destruct (IH (done ++ g) pd1 td Hr ltac:(rewrite app_length; lia) D1) as [pd2 [E2 [F2 Z2]]].
    exists pd2. split; [exact E2|]. split; [|intros X; discriminate].
    intros _. cbn [concat]. rewrite app_assoc. destruct r as [|g2 r].
    + rewrite (Z2 eq_refl). cbn [concat]. rewrite app_nil_r. apply F1. rewrite andb_false_r. reflexivity.
    + apply F2. discriminate.
Qed.

(* ---------- from the maps back to players and teams ---------- *)
Definition p3_ok (p : gs3_player) : bool :=
  item_ok (p3_name p) && (- 2147483648 <=? p3_score p)%Z && (p3_score p <? 2147483648)%Z && (p3_ping p <? 65536) && (p3_team p <? 256)
  && (p3_deaths p <? 4294967296) && (p3_skill p <? 4294967296).
Definition t3_ok (t : gs3_team) : bool := item_ok (t3_name t) && (- 2147483648 <=? t3_score t)%Z && (t3_score t <? 2147483648)%Z.

Ltac vkeys :=
  repeat first
    [ rewrite vm_get_cons
    | match goal with
      | |- context [bytes_eqb (str ?a) (str ?b)] =>
          let r := eval vm_compute in (bytes_eqb (str a) (str b)) in change (bytes_eqb (str a) (str b)) with r
      end
    | progress cbv beta iota ].
Lemma parse_signed32_show z : (- 2147483648 <= z < 2147483648)%Z -> parse_signed 32 (show_Z z) = Some z.
Proof.
  intros H. pose proof (parse_i32_show z H) as P. unfold Quake.parse_i32 in P. destruct (parse_signed 32 (show_Z z)); [inversion P; reflexivity|discriminate].
Qed.
Lemma make_player_ok pid p : p3_ok p = true -> gs3_make_player (pfields pid (p3_name p) p) = Ok p.
Proof.
  intros H. unfold p3_ok in H. do 6 (apply andb_prop in H; destruct H as [H ?]).
  unfold gs3_make_player, pfields. destruct pid; cbn [app]; vkeys; cbn [need obind];
    rewrite parse_signed32_show by lia; cbn [need obind];
    rewrite !parse_unsigned_show by (unfold u16_max', u8_max, u32_max; lia); cbn [need obind]; destruct p; reflexivity.
Qed.
Definition tfields (t : gs3_team) : list (bytes * bytes) := [(str "team", t3_name t); (str "score", show_Z (t3_score t))].
Lemma make_team_ok t : t3_ok t = true -> gs3_make_team (tfields t) = Ok t.
Proof.
  intros H. unfold t3_ok in H. do 2 (apply andb_prop in H; destruct H as [H ?]).
  unfold gs3_make_team, tfields. vkeys. cbn [need obind]. rewrite parse_signed32_show by lia. cbn [need obind]. destruct t; reflexivity.
Qed.
Lemma omap_list_map {A B} (f : A -> outcome B) (g : B -> A) (l : list B) :
  (forall x, In x l -> f (g x) = Ok x) -> omap_list f (map g l) = Ok l.
Proof.
  induction l as [|x l IH]; intros H; [reflexivity|]. cbn [map omap_list]. rewrite (H x (or_introl eq_refl)). cbn [obind].
  rewrite IH by (intros y Hy; apply H; right; exact Hy). reflexivity.
Qed.
Lemma nonempty_map_keep {A} (g : A -> vmap) (l : list A) : (forall x, g x <> []) -> nonempty_maps (map g l) = map g l.
Proof.
  intros H. unfold nonempty_maps. induction l as [|x l IH]; [reflexivity|]. cbn [map filter].
  destruct (g x) eqn:E; [exfalso; exact (H x E)|]. rewrite IH. reflexivity.
Qed.

Lemma full_list pid d done pd : Full pid d done pd -> done <> [] -> pd = map (fun p => pfields pid (p3_name p) p) done.
Proof.
  intros [L [_ F]] Hne. apply (nth_ext _ _ [] []).
  - rewrite map_length. etransitivity; [exact L|]. destruct done; [contradiction|cbn [length]; lia].
  - intros k Hk. assert (Hk2 : (k < Nat.max 1 (length done))%nat) by (rewrite <- L; exact Hk). clear Hk. rename Hk2 into Hk. assert (Hk' : (k < length done)%nat) by (destruct done; [contradiction|cbn [length] in *; lia]).
    change (nth k pd []) with (get k pd). rewrite (F k Hk').
    rewrite (nth_map_in (fun p => pfields pid (p3_name p) p) done k d) by exact Hk'. reflexivity.
Qed.

(* ---------- teams: one section at the end of the last packet ---------- *)
Definition ttoks (ts : list gs3_team) : list tok :=
  [TMark 2; TField (str "team_t") (str "team") true 0 (map t3_name ts);
   TField (str "score_t") (str "score") true 0 (map (fun t => show_Z (t3_score t)) ts); TMark 0].
Lemma ttoks_enc ts : flat_map enc_tok (ttoks ts) = [2] ++ s3_team_fields ts ++ nul.
Proof. unfold ttoks, s3_team_fields, enc_field, nul. cbn [app flat_map enc_tok]. unfold gcstr, nul. rewrite <- ?app_assoc. cbn [app]. rewrite <- ?app_assoc. reflexivity. Qed.
Lemma teams_effect ts pd (dt : gs3_team) : exists td',
  fold_left apply_tok (ttoks ts) (pd, [[]]) = (pd, td') /\ td' = match ts with [] => [[]] | _ => map tfields ts end.
Proof.
  unfold ttoks. cbn [fold_left apply_tok fst snd]. eexists. split; [reflexivity|].
  change (N.to_nat 0) with 0%nat. destruct ts as [|t0 ts0]; [reflexivity|]. set (ts := t0 :: ts0).
  apply (nth_ext _ _ [] []).
  - rewrite !put_items_length, !map_length. cbn [length ts map]. lia.
  - intros k Hk. rewrite !put_items_length, !map_length in Hk. cbn [length ts map] in Hk.
    change (nth k ?l []) with (get k l). rewrite !put_items_get, !map_length.
    assert (Hk' : (k < length ts)%nat) by (cbn [length ts]; lia).
    replace ((0 <=? k)%nat && (k <? 0 + length ts)%nat) with true by lia.
    rewrite Nat.sub_0_r. rewrite !(nth_map_in _ ts k dt) by exact Hk'.
    assert (G0 : get k [[]] = []) by (unfold get; destruct k as [|[|k']]; reflexivity).
    rewrite G0. unfold get. rewrite (nth_map_in tfields ts k dt) by exact Hk'. reflexivity.
Qed.
