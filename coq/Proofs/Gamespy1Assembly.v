(* C04, GameSpy 1: the parts of a reply ('\key\value' pairs, each part labelled '\queryid\<id>.<n>', the last one
   carrying '\final\'), received in the order sent, are assembled into exactly the variables the server sent. *)
From GD Require Import Base.Prelude Model.Strings Model.StrOps Model.Buffer Model.Net Model.Valve Model.Gamespy.
From GD Require Import Spec.ValveSpec Spec.QuakeSpec Spec.GamespySpec.
From GD Require Import Proofs.BufferLemmas Proofs.ReadSpecs Proofs.Str Proofs.Utf8 Proofs.ValveRoundtrip Proofs.QuakeRoundtrip Proofs.GamesProofs
  Proofs.GamespyProofs Proofs.IdProofs Proofs.ValveGamesRoundtrip Proofs.Gamespy2Roundtrip Proofs.Gamespy3Roundtrip Proofs.Gamespy3Reply Proofs.Gamespy3Query.
From Coq Require Import ZifyBool ZifyNat ZifyN Lia.

Definition fin : bytes := str "final".
Definition qidk : bytes := str "queryid".
Definition pair_ok (kv : bytes * bytes) : Prop :=
  no_nul (fst kv) = true /\ no_nul (snd kv) = true /\ ~ In 92 (fst kv) /\ ~ In 92 (snd kv) /\ fst kv <> fin /\ fst kv <> qidk.

(* ---------- maps ---------- *)
Definition nokey (k : bytes) (m : vmap) : Prop := existsb (fun x => bytes_eqb (fst x) k) m = false.
Lemma nokey_insert k k' v m : nokey k m -> k' <> k -> nokey k (map_insert k' v m).
Proof.
  unfold nokey. intros H Hne. induction m as [|[a b] m IH]; cbn [map_insert existsb fst] in *.
  - rewrite (proj2 (bytes_eqb_neq k' k) Hne). reflexivity.
  - apply orb_false_elim in H. destruct H as [H1 H2]. destruct (bytes_eqb k' a) eqn:E; cbn [existsb fst].
    + rewrite (proj2 (bytes_eqb_neq k' k) Hne), H2. reflexivity.
    + rewrite H1, (IH H2). reflexivity.
Qed.
Lemma nokey_fold k l : forall m, nokey k m -> Forall (fun kv => fst kv <> k) l -> nokey k (fold_left ins l m).
Proof.
  induction l as [|kv l IH]; intros m H Hl; [exact H|]. inversion Hl; subst. cbn [fold_left]. apply IH; [|assumption].
  unfold ins, vm_insert. apply nokey_insert; assumption.
Qed.
Lemma nokey_get k m : nokey k m -> vm_get k m = None.
Proof.
  unfold nokey. induction m as [|[a b] m IH]; intros H; [reflexivity|]. cbn [existsb fst vm_get] in *. apply orb_false_elim in H. destruct H as [H1 H2].
  assert (E : bytes_eqb k a = false) by (apply bytes_eqb_neq; intros ->; rewrite bytes_eqb_refl in H1; discriminate).
  rewrite E. apply IH. exact H2.
Qed.
Lemma nokey_app k m x : nokey k m -> fst x <> k -> nokey k (m ++ [x]).
Proof. unfold nokey. intros H Hx. rewrite existsb_app, H. cbn [existsb]. rewrite (proj2 (bytes_eqb_neq _ _) Hx). reflexivity. Qed.
Lemma get_app_last k v m : nokey k m -> vm_get k (m ++ [(k, v)]) = Some v.
Proof.
  intros H. induction m as [|[a b] m IH]; cbn [app vm_get]; [rewrite bytes_eqb_refl; reflexivity|].
  unfold nokey in H. cbn [existsb fst] in H. apply orb_false_elim in H. destruct H as [H1 H2].
  assert (E : bytes_eqb k a = false) by (apply bytes_eqb_neq; intros ->; rewrite bytes_eqb_refl in H1; discriminate).
  rewrite E. apply IH. exact H2.
Qed.
Lemma get_app_other k k' v m : k <> k' -> vm_get k (m ++ [(k', v)]) = vm_get k m.
Proof.
  intros Hne. induction m as [|[a b] m IH]; cbn [app vm_get]; [rewrite (proj2 (bytes_eqb_neq _ _) Hne); reflexivity|].
  destruct (bytes_eqb k a); [reflexivity|exact IH].
Qed.
Lemma remove_app_last k v m : nokey k m -> map_remove k (m ++ [(k, v)]) = m.
Proof.
  intros H. unfold map_remove. rewrite filter_app. cbn [filter fst]. rewrite bytes_eqb_refl. cbn [negb]. rewrite app_nil_r.
  change (filter _ m) with (map_remove k m). apply remove_none. apply nokey_get. exact H.
Qed.
Lemma remove_app_other k k' v m : k <> k' -> map_remove k (m ++ [(k', v)]) = map_remove k m ++ [(k', v)].
Proof. intros Hne. unfold map_remove. rewrite filter_app. cbn [filter fst]. rewrite (proj2 (bytes_eqb_neq _ _) Hne). reflexivity. Qed.
Lemma insert_fresh k v m : nokey k m -> map_insert k v m = m ++ [(k, v)].
Proof. intros H. apply map_insert_fresh. exact H. Qed.

(* ---------- texts ---------- *)
Lemma clean_app a b : no_nul a = true -> no_nul b = true -> no_nul (a ++ b) = true.
Proof.
  unfold no_nul. intros Ha Hb. do 2 (apply andb_prop in Ha; destruct Ha as [Ha ?]). do 2 (apply andb_prop in Hb; destruct Hb as [Hb ?]).
  unfold bytesb in *. rewrite utf8_valid_app, !forallb_app by assumption. rewrite H, H0, H1, H2. reflexivity.
Qed.
Lemma clean_chunk kv : no_nul (fst kv) = true -> no_nul (snd kv) = true -> no_nul (chunk 92 kv) = true.
Proof. intros H1 H2. unfold chunk. repeat apply clean_app; try assumption; reflexivity. Qed.
Lemma clean_chunks l : Forall (fun kv => no_nul (fst kv) = true /\ no_nul (snd kv) = true) l -> no_nul (concat (map (chunk 92) l)) = true.
Proof. induction 1 as [|kv l [H1 H2] _ IH]; [reflexivity|]. cbn [map concat]. apply clean_app; [apply clean_chunk; assumption|exact IH]. Qed.

Definition qid_text (qid i : N) : bytes := show_N qid ++ [46] ++ show_N i.
Definition labels (qid i : N) (last ff : bool) : list (bytes * bytes) :=
  if last then (if ff then [(fin, []); (qidk, qid_text qid i)] else [(qidk, qid_text qid i); (fin, [])]) else [(qidk, qid_text qid i)].
Definition part_text (g : list (bytes * bytes)) (qid i : N) (last ff : bool) : bytes :=
  concat (map (chunk 92) (g ++ labels qid i last ff)).

Lemma show_N_no k n : k < 48 \/ 57 < k -> ~ In k (show_N n).
Proof. intros Hk Hin. apply show_N_digits in Hin. lia. Qed.
Lemma qid_text_clean qid i : no_nul (qid_text qid i) = true /\ ~ In 92 (qid_text qid i).
Proof.
  unfold qid_text. split.
  - repeat apply clean_app; try apply no_nul_show_N; reflexivity.
  - intros H. apply in_app_or in H. destruct H as [H|H]; [exact (show_N_no 92 qid ltac:(lia) H)|].
    cbn [app] in H. destruct H as [H|H]; [discriminate|exact (show_N_no 92 i ltac:(lia) H)].
Qed.
Lemma labels_ok qid i last ff : Forall (fun kv => (no_nul (fst kv) = true /\ no_nul (snd kv) = true) /\ no_delim 92 (fst kv) /\ no_delim 92 (snd kv)) (labels qid i last ff).
Proof.
  destruct (qid_text_clean qid i) as [Q1 Q2].
  assert (F : (no_nul fin = true /\ no_nul (@nil N) = true) /\ no_delim 92 fin /\ no_delim 92 (@nil N)).
  { split; [split; reflexivity|]. split; [|intros []]. unfold no_delim, fin. vm_compute. intuition discriminate. }
  assert (K : (no_nul qidk = true /\ no_nul (qid_text qid i) = true) /\ no_delim 92 qidk /\ no_delim 92 (qid_text qid i)).
  { split; [split; [reflexivity|exact Q1]|]. split; [|exact Q2]. unfold no_delim, qidk. vm_compute. intuition discriminate. }
  unfold labels. destruct last; [destruct ff|]; repeat constructor; cbn [fst snd]; try (apply F); try (apply K).
Qed.

(* the id text is read back *)
Lemma qid_text_split qid i : split 46 (qid_text qid i) = [show_N qid; show_N i].
Proof.
  unfold qid_text, split. change (show_N qid ++ [46] ++ show_N i) with (show_N qid ++ 46 :: show_N i).
  rewrite split_on_app by (apply show_N_no; lia). cbn [app rev].
  rewrite split_on_field by (apply show_N_no; lia). reflexivity.
Qed.

(* ---------- what the labels of a part leave in the map ---------- *)
Lemma fin_neq_qidk : fin <> qidk. Proof. intros H. discriminate H. Qed.
Lemma labels_effect M qid i last ff : nokey fin M -> nokey qidk M ->
  let M' := fold_left ins (labels qid i last ff) M in
  vm_get fin M' = (if last then Some [] else None) /\ map_remove fin M' = M ++ [(qidk, qid_text qid i)].
Proof.
  intros Hf Hq. pose proof fin_neq_qidk as Hne. assert (Hne' : qidk <> fin) by (intros E; apply Hne; symmetry; exact E).
  unfold labels. destruct last; [destruct ff|]; cbn [fold_left]; unfold ins, vm_insert; cbn [fst snd].
  - rewrite (insert_fresh fin [] M Hf). rewrite (insert_fresh qidk _ (M ++ [(fin, [])])) by (apply nokey_app; [exact Hq|exact Hne]).
    split.
    + rewrite get_app_other by exact Hne. apply get_app_last. exact Hf.
    + rewrite remove_app_other by exact Hne. rewrite remove_app_last by exact Hf. reflexivity.
  - rewrite (insert_fresh qidk _ M Hq). rewrite (insert_fresh fin [] (M ++ [(qidk, qid_text qid i)])) by (apply nokey_app; [exact Hf|exact Hne']).
    split.
    + apply get_app_last. apply nokey_app; [exact Hf|exact Hne'].
    + apply remove_app_last. apply nokey_app; [exact Hf|exact Hne'].
  - rewrite (insert_fresh qidk _ M Hq). split.
    + rewrite get_app_other by exact Hne. apply nokey_get. exact Hf.
    + rewrite remove_app_other by exact Hne. rewrite remove_none by (apply nokey_get; exact Hf). reflexivity.
Qed.

(* ---------- the parts of a reply ---------- *)
Fixpoint texts_from (qid : N) (ff : bool) (j : nat) (groups : list (list (bytes * bytes))) : list bytes :=
  match groups with
  | [] => []
  | [g] => [part_text g qid (N.of_nat (S j)) true ff]
  | g :: r => part_text g qid (N.of_nat (S j)) false ff :: texts_from qid ff (S j) r
  end.
Definition part_numbers (j : nat) : list N := map (fun x => N.of_nat (S x)) (seq 0 j).
Lemma part_numbers_S j : part_numbers (S j) = part_numbers j ++ [N.of_nat (S j)].
Proof. unfold part_numbers. rewrite seq_S, map_app. reflexivity. Qed.
Lemma part_numbers_fresh j : existsb (N.eqb (N.of_nat (S j))) (part_numbers j) = false.
Proof.
  unfold part_numbers. destruct (existsb _ _) eqn:E; [|reflexivity]. apply existsb_exists in E. destruct E as [x [Hx Ex]].
  apply in_map_iff in Hx. destruct Hx as [y [<- Hy]]. apply in_seq in Hy. lia.
Qed.

Lemma pair_ok_parts g : Forall pair_ok g ->
  Forall (fun kv => no_nul (fst kv) = true /\ no_nul (snd kv) = true) g /\ Forall (fun kv => no_delim 92 (fst kv) /\ no_delim 92 (snd kv)) g
  /\ Forall (fun kv => fst kv <> fin) g /\ Forall (fun kv => fst kv <> qidk) g.
Proof.
  induction 1 as [|kv g [H1 [H2 [H3 [H4 [H5 H6]]]]] _ [I1 [I2 [I3 I4]]]]; [repeat split; constructor|].
  repeat split; constructor; auto.
Qed.

Lemma match_nonempty {A} (s : bytes) (a f : A) : s <> [] -> (match s with [] => a | _ :: _ => f end) = f.
Proof. destruct s; [contradiction|reflexivity]. Qed.

Theorem gs1_parts_assemble : forall (groups : list (list (bytes * bytes))) qid ff j vals fuel t f sn cur tr,
  groups <> [] -> Forall (fun g => g <> [] /\ Forall pair_ok g) groups ->
  Forall (fun d => (length d <= 1024)%nat) (texts_from qid ff j groups) ->
  qid <= usize_max' -> N.of_nat (j + length groups) < 4294967296 ->
  nokey fin vals -> nokey qidk vals -> (length groups <= fuel)%nat ->
  exists tr',
    gs1_loop fuel (match j with O => None | S _ => Some qid end) (part_numbers j) None vals
             (mknet (map Datagram (texts_from qid ff j groups)) t f sn cur tr)
    = (Ok (fold_left ins (concat groups) vals), mknet [] t f sn cur tr').
Proof.
  induction groups as [|g rest IH]; intros qid ff j vals fuel t f sn cur tr Hne Hok Hsz Hq Hj Hf Hk Hfu; [contradiction|].
  destruct fuel as [|fu]; [cbn in Hfu; lia|].
  inversion Hok as [|? ? [Hgne Hg] Hok']; subst.
  destruct (pair_ok_parts g Hg) as [Gc [Gd [Gf Gq]]].
  set (last := match rest with [] => true | _ => false end).
  set (i := N.of_nat (S j)).
  assert (Htexts : texts_from qid ff j (g :: rest) = part_text g qid i last ff :: (match rest with [] => [] | _ => texts_from qid ff (S j) rest end))
    by (destruct rest; reflexivity).
  rewrite Htexts in *. inversion Hsz as [|? ? Hs1 Hsz']; subst. clear Htexts.
  set (text := part_text g qid i last ff) in *.
  assert (Hclean : no_nul text = true).
  { unfold text, part_text. apply clean_chunks. apply Forall_app. split; [exact Gc|].
    eapply Forall_impl; [|apply labels_ok]. intros kv [H _]. exact H. }
  destruct g as [|[k v] l]; [contradiction|].
  assert (Htxt : text = 92 :: k ++ [92] ++ v ++ concat (map (chunk 92) (l ++ labels qid i last ff))).
  { unfold text, part_text. cbn [app map concat]. unfold chunk at 1. cbn [fst snd app]. rewrite <- !app_assoc. reflexivity. }
  cbn [map gs1_loop]. unfold mbind at 1. unfold udp_recv. cbn [n_udp n_tcp n_fail n_sends n_cur n_trace].
  rewrite firstn_all2 by (change (N.to_nat default_packet_size) with 1024%nat; exact Hs1).
  assert (Hread : run_r Gamespy.read_cstr text = Ok text).
  { unfold run_r, Gamespy.read_cstr. change (buf_new text) with (at_ [] text). apply no_nul_spec in Hclean. destruct Hclean as [Hn Hv].
    rewrite dec_utf8_unterminated by assumption. reflexivity. }
  rewrite Hread. rewrite (match_nonempty text) by (rewrite Htxt; discriminate).
  (* the pairs *)
  assert (Hins : insert_pairs (split 92 (remove_first_char text)) vals = fold_left ins (labels qid i last ff) (fold_left ins ((k, v) :: l) vals)).
  { unfold text, part_text. cbn [app]. rewrite gs1_part_decodes.
    - change ((k, v) :: l ++ labels qid i last ff) with (((k, v) :: l) ++ labels qid i last ff). rewrite fold_left_app. reflexivity.
    - change ((k, v) :: l ++ labels qid i last ff) with (((k, v) :: l) ++ labels qid i last ff). apply Forall_app. split; [exact Gd|].
      eapply Forall_impl; [|apply labels_ok]. intros kv [_ H]. exact H. }
  rewrite Hins. set (M := fold_left ins ((k, v) :: l) vals).
  assert (HMf : nokey fin M) by (apply nokey_fold; assumption).
  assert (HMq : nokey qidk M) by (apply nokey_fold; assumption).
  destruct (labels_effect M qid i last ff HMf HMq) as [Lg Lr].
  unfold vm_remove. change (str "final") with fin. rewrite Lg, Lr.
  change (str "queryid") with qidk. rewrite (get_app_last qidk _ M HMq). rewrite (remove_app_last qidk _ M HMq).
  rewrite qid_text_split. cbn [hd]. rewrite (parse_unsigned_show usize_max' qid Hq). cbn [need obind].
  rewrite (parse_unsigned_show usize_max' i) by (unfold i, usize_max'; lia). cbn [need obind].
  pose proof (part_numbers_fresh j) as Hfresh. fold i in Hfresh. rewrite Hfresh.
  assert (Hlen : lenN (part_numbers j ++ [i]) = i) by (unfold lenN, part_numbers, i; rewrite app_length, map_length, seq_length; cbn [length]; lia).
  assert (Hwrong : match (match j with O => None | S _ => Some qid end) with Some r0 => negb (qid =? r0) | None => false end = false)
    by (destruct j; [reflexivity|rewrite N.eqb_refl; reflexivity]).
  rewrite Hwrong.
  destruct rest as [|g2 rest].
  - (* the last part *)
    subst last. cbv iota. cbn [andb]. replace (0 <? i) with true by (unfold i; lia). rewrite Hlen, N.leb_refl.
    cbn [concat]. rewrite app_nil_r. eexists. reflexivity.
  - subst last. cbv iota.
    destruct (IH qid ff (S j) M fu t f sn cur (RecvEv None :: tr) ltac:(discriminate) Hok' Hsz' Hq ltac:(cbn [length] in *; lia) HMf HMq ltac:(cbn [length] in *; lia)) as [tr' E].
    rewrite <- part_numbers_S. exists tr'. rewrite E. cbn [concat]. rewrite !fold_left_app. reflexivity.
Qed.

(* ---------- the server's side: how the variables are cut into parts ---------- *)
Definition part_of (g : list (bytes * bytes)) : bytes := concat (map kvb g).
Lemma part_of_app a b : part_of (a ++ b) = part_of a ++ part_of b.
Proof. unfold part_of. rewrite map_app, concat_app. reflexivity. Qed.
Lemma part_of_nil g : part_of g = [] -> g = [].
Proof. destruct g as [|kv g]; [reflexivity|]. unfold part_of, kvb. cbn [map concat app]. discriminate. Qed.

Lemma chunk_pairs_groups limit : forall pairs cur_pairs, cur_pairs ++ pairs <> [] ->
  exists groups, chunk_pairs limit (part_of cur_pairs) pairs = map part_of groups
                 /\ concat groups = cur_pairs ++ pairs /\ Forall (fun g => g <> []) groups.
Proof.
  induction pairs as [|kv r IH]; intros cur_pairs Hne.
  - rewrite app_nil_r in *. exists [cur_pairs]. cbn [chunk_pairs map concat]. rewrite app_nil_r. repeat split. constructor; [exact Hne|constructor].
  - cbn [chunk_pairs]. destruct ((limit <? lenN (part_of cur_pairs) + lenN (kvb kv)) && negb (match part_of cur_pairs with [] => true | _ => false end)) eqn:E.
    + apply andb_prop in E. destruct E as [_ E].
      assert (Hc : cur_pairs <> []) by (intros ->; discriminate E).
      destruct (IH [kv] ltac:(discriminate)) as [groups [G1 [G2 G3]]].
      exists (cur_pairs :: groups). cbn [map concat].
      replace (kvb kv) with (part_of [kv]) by (unfold part_of; cbn [map concat]; apply app_nil_r).
      rewrite G1, G2. repeat split. constructor; assumption.
    + destruct (IH (cur_pairs ++ [kv]) ltac:(destruct cur_pairs; discriminate)) as [groups [G1 [G2 G3]]].
      exists groups. rewrite part_of_app in G1. replace (part_of [kv]) with (kvb kv) in G1 by (unfold part_of; cbn [map concat]; symmetry; apply app_nil_r).
      rewrite G1, G2, <- app_assoc. repeat split. exact G3.
Qed.

Lemma part_text_split g qid i last ff : part_text g qid i last ff = part_of g ++ concat (map (chunk 92) (labels qid i last ff)).
Proof. unfold part_text, part_of. rewrite map_app, concat_app. reflexivity. Qed.
Lemma labels_text (a b : bytes) :
  concat (map (chunk 92) [(fin, []); (qidk, a ++ [46] ++ b)]) = str "\final\" ++ str "\queryid\" ++ a ++ str "." ++ b
  /\ concat (map (chunk 92) [(qidk, a ++ [46] ++ b); (fin, [])]) = str "\queryid\" ++ a ++ str "." ++ b ++ str "\final\"
  /\ concat (map (chunk 92) [(qidk, a ++ [46] ++ b)]) = str "\queryid\" ++ a ++ str "." ++ b.
Proof.
  unfold chunk, fin, qidk. cbn [map concat fst snd].
  repeat split; simpl; rewrite ?app_nil_r; rewrite <- ?app_assoc; simpl; rewrite <- ?app_assoc; reflexivity.
Qed.
Lemma s1_label_cons2 qid ff i p q r :
  s1_label qid ff i (p :: q :: r) = (p ++ str "\queryid\" ++ show_N qid ++ str "." ++ show_N i) :: s1_label qid ff (i + 1) (q :: r).
Proof. reflexivity. Qed.
Lemma s1_label_texts qid ff : forall groups j, s1_label qid ff (N.of_nat (S j)) (map part_of groups) = texts_from qid ff j groups.
Proof.
  induction groups as [|g rest IH]; intros j; [reflexivity|].
  destruct rest as [|g2 rest].
  - change (map part_of [g]) with [part_of g]. cbn [s1_label texts_from]. rewrite part_text_split. unfold labels, qid_text.
    destruct (labels_text (show_N qid) (show_N (N.of_nat (S j)))) as [L1 [L2 _]].
    destruct ff; cbv iota; do 2 f_equal; symmetry; [exact L1|exact L2].
  - change (map part_of (g :: g2 :: rest)) with (part_of g :: part_of g2 :: map part_of rest).
    change (texts_from qid ff j (g :: g2 :: rest)) with (part_text g qid (N.of_nat (S j)) false ff :: texts_from qid ff (S j) (g2 :: rest)).
    rewrite s1_label_cons2. change (part_of g2 :: map part_of rest) with (map part_of (g2 :: rest)).
    replace (N.of_nat (S j) + 1) with (N.of_nat (S (S j))) by lia. rewrite IH. f_equal.
    rewrite part_text_split. unfold labels, qid_text.
    destruct (labels_text (show_N qid) (show_N (N.of_nat (S j)))) as [_ [_ L3]]. f_equal. symmetry. exact L3.
Qed.

(* ---------- the whole exchange ---------- *)
Theorem gs1_vars_roundtrip : forall port s,
  Forall pair_ok (s1_vars s) -> s1_qid s <= usize_max' ->
  Forall (fun d => (length d <= 1024)%nat) (s1_script s) -> N.of_nat (length (s1_script s)) < 4294967296 ->
  fst (gs1_query_vars port None (script_net (s1_script s))) = Ok (fold_left ins (s1_vars s) []).
Proof.
  intros port s Hok Hq Hsz Hn. unfold s1_script in *.
  assert (Hne : [] ++ s1_vars s <> []) by (unfold s1_vars; discriminate).
  destruct (chunk_pairs_groups (s1_limit s) (s1_vars s) [] Hne) as [groups [G1 [G2 G3]]].
  change (part_of []) with (@nil N) in G1. cbn [app] in G2. rewrite G1 in *.
  change 1 with (N.of_nat 1) in *. rewrite (s1_label_texts (s1_qid s) (s1_final_first s) groups 0) in *.
  assert (Hg : groups <> []) by (intros ->; cbn [concat] in G2; apply Hne; cbn [app]; symmetry; exact G2).
  assert (Hgok : Forall (fun g => g <> [] /\ Forall pair_ok g) groups).
  { rewrite <- G2 in Hok. clear - Hok G3. induction groups as [|g r IH]; [constructor|]. inversion G3; subst. cbn [concat] in Hok.
    apply Forall_app in Hok. destruct Hok as [Ha Hb]. constructor; [split; assumption|apply IH; assumption]. }
  assert (Hlen : length (texts_from (s1_qid s) (s1_final_first s) 0 groups) = length groups).
  { clear. generalize 0%nat. induction groups as [|g r IH]; intros j; [reflexivity|]. destruct r; [reflexivity|].
    change (texts_from (s1_qid s) (s1_final_first s) j (g :: l :: r)) with (part_text g (s1_qid s) (N.of_nat (S j)) false (s1_final_first s) :: texts_from (s1_qid s) (s1_final_first s) (S j) (l :: r)).
    cbn [length]. rewrite IH. reflexivity. }
  unfold gs1_query_vars, script_net, net_init.
  assert (Hnew : forall u t f sn cur tr, udp_new port None (mknet u t f sn cur tr)
                 = (Ok tt, mknet u t f sn cur (ApplyTimeout (Some (4, 0)) (Some (4, 0)) :: NewUdp port :: tr))) by reflexivity.
  erewrite mbind_ok by apply Hnew.
  unfold retry_on_timeout. cbn [ts_retries_or_default N.to_nat retry_loop]. unfold gs1_values_impl.
  erewrite mbind_ok by apply send_ok. cbn [n_udp].
  destruct (gs1_parts_assemble groups (s1_qid s) (s1_final_first s) 0 [] (S (length (map Datagram (texts_from (s1_qid s) (s1_final_first s) 0 groups))))
              [] [] (0 + 1) None (SendEv port gs1_request :: [ApplyTimeout (Some (4, 0)) (Some (4, 0)); NewUdp port]) Hg Hgok Hsz Hq)
    as [tr' E]; try reflexivity.
  - rewrite Hlen in Hn. cbn [Nat.add]. exact Hn.
  - rewrite map_length, Hlen. lia.
  - cbn [part_numbers seq map] in E. rewrite E. cbn [fst]. rewrite G2. reflexivity.
Qed.
