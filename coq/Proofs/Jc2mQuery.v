(* C07, Just Cause 2: Multiplayer: the whole query - handshake with the challenge, data request,
   the data packet behind its 11 skipped header bytes - returns exactly the server state. *)
From GD Require Import Base.Prelude Model.Strings Model.StrOps Model.Buffer Model.Net Model.Valve Model.Gamespy Model.Games.
From GD Require Import Spec.ValveSpec Spec.QuakeSpec Spec.GamespySpec Spec.GamesSpec.
From GD Require Import Proofs.BufferLemmas Proofs.ReadSpecs Proofs.Str Proofs.Utf8 Proofs.ValveRoundtrip Proofs.QuakeRoundtrip Proofs.GamesProofs
  Proofs.GamespyProofs Proofs.IdProofs Proofs.GamespyOrder Proofs.Gamespy2Roundtrip Proofs.Jc2mRoundtrip Proofs.Gamespy3Roundtrip Proofs.Gamespy3Reply Proofs.Gamespy3Query.
From Coq Require Import ZifyBool ZifyNat ZifyN Lia.

(* the GameSpy 3 handshake for any challenge *)
Lemma handshake_ok port (c : Z) rest t sn cur tr :
  (- 2147483648 <= c < 2147483648)%Z -> (length (show_Z c) <= 10)%nat ->
  gs3_handshake port (mknet (Datagram ([9; 0; 0; 0; 1] ++ cstr (show_Z c)) :: rest) t [] sn cur tr)
  = (Ok (if (c =? 0)%Z then None else Some c),
     mknet rest t [] (sn + 1) cur (RecvEv (Some 16) :: SendEv port [254; 253; 9; 0; 0; 0; 1] :: tr)).
Proof.
  intros Hc Hcl. unfold gs3_handshake.
  erewrite mbind_ok by apply send_ok.
  erewrite mbind_ok by (apply (gs3_receive_ok (Some 16) 9); unfold cstr, nul; rewrite app_length; cbn [length]; lia).
  assert (Hrd : run_r Gamespy.read_cstr (cstr (show_Z c)) = Ok (show_Z c)).
  { unfold run_r. change (buf_new ?d) with (at_ [] d). unfold cstr, nul.
    pose proof (item_ok_show_Z c) as Hi. unfold item_ok in Hi. apply andb_prop in Hi. destruct Hi as [Hi _].
    rewrite (cstr_at _ [] [] Hi). reflexivity. }
  erewrite mbind_ok by (unfold mlift; rewrite Hrd; reflexivity).
  erewrite mbind_ok by (unfold mlift; rewrite (parse_signed32_show _ Hc); reflexivity).
  reflexivity.
Qed.

Lemma jc_script_data s : jc_script s =
  [[9; 0; 0; 0; 1] ++ cstr (show_Z (js_challenge s)); [0; 0; 0; 0; 1] ++ js_skip s ++ jc_data s].
Proof.
  unfold jc_script, jc_data, enc_kv, enc_jp, gcstr, cstr, nul. repeat f_equal.
Qed.

Theorem jc2m_query_roundtrip : forall port s, wf_jc s = true ->
  length (js_skip s) = 11%nat ->
  (- 2147483648 <= js_challenge s < 2147483648)%Z -> (length (show_Z (js_challenge s)) <= 10)%nat ->
  (length (jc_data s) + 16 <= 2048)%nat ->
  fst (jc2m_query port None (script_net (jc_script s))) = Ok (jc_expected s).
Proof.
  intros port s Hwf Hskip Hc Hcl Hlen. rewrite jc_script_data. unfold jc2m_query, script_net, net_init. cbn [map].
  assert (Hnew : forall u t f sn cur tr, udp_new port None (mknet u t f sn cur tr)
                 = (Ok tt, mknet u t f sn cur (ApplyTimeout (Some (4, 0)) (Some (4, 0)) :: NewUdp port :: tr))) by reflexivity.
  erewrite mbind_ok by apply Hnew.
  assert (Hatt : exists n', jc2m_packets_impl port
            (mknet [Datagram ([9; 0; 0; 0; 1] ++ cstr (show_Z (js_challenge s))); Datagram ([0; 0; 0; 0; 1] ++ js_skip s ++ jc_data s)] [] [] 0 None
                   [ApplyTimeout (Some (4, 0)) (Some (4, 0)); NewUdp port]) = (Ok (jc_data s), n')).
  { unfold jc2m_packets_impl.
    erewrite mbind_ok by (apply handshake_ok; assumption).
    unfold gs3_data_request. erewrite mbind_ok by apply send_ok.
    erewrite mbind_ok by (apply (gs3_receive_ok None 0); rewrite app_length; lia).
    unfold mlift, run_r. change (buf_new ?d) with (at_ [] d).
    replace 11%Z with (Z.of_nat (length (js_skip s))) by (rewrite Hskip; reflexivity).
    erewrite bind_ok by apply move_at. eexists. reflexivity. }
  destruct Hatt as [n' E].
  erewrite mbind_ok by (unfold retry_on_timeout; cbn [ts_retries_or_default N.to_nat retry_loop]; rewrite E; reflexivity).
  unfold mlift. cbn [fst]. apply jc2m_roundtrip. exact Hwf.
Qed.
