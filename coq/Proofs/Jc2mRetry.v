(* C10, Just Cause 2: Multiplayer: lost replies at either position of the exchange, up to the retry count, then a valid
   exchange: the query returns what it returns without faults. *)
From GD Require Import Base.Prelude Model.Strings Model.StrOps Model.Buffer Model.Net Model.Valve Model.Gamespy Model.Games.
From GD Require Import Spec.ValveSpec Spec.QuakeSpec Spec.GamespySpec Spec.GamesSpec.
From GD Require Import Proofs.BufferLemmas Proofs.ReadSpecs Proofs.Str Proofs.Utf8 Proofs.ValveRoundtrip Proofs.QuakeRoundtrip Proofs.GamesProofs
  Proofs.GamespyProofs Proofs.IdProofs Proofs.GamespyOrder Proofs.Gamespy2Roundtrip Proofs.Jc2mRoundtrip Proofs.Gamespy3Roundtrip Proofs.Gamespy3Reply Proofs.Gamespy3Query
  Proofs.Jc2mQuery Proofs.Msafe Proofs.Retry Proofs.RetryProtocols Proofs.Gamespy3Retry.
From Coq Require Import ZifyBool ZifyNat ZifyN Lia.

Definition jc_handshake_dg (s : jc_state) : bytes := [9; 0; 0; 0; 1] ++ cstr (show_Z (js_challenge s)).
Definition jc_fault_events (s : jc_state) (f : gs3_fault) : list udp_event :=
  match f with LostHandshake => [Timeout] | LostData => [Datagram (jc_handshake_dg s); Timeout] end.

Section Faults.
  Variable port : N.
  Variable s : jc_state.
  Hypothesis Hc : (- 2147483648 <= js_challenge s < 2147483648)%Z.
  Hypothesis Hcl : (length (show_Z (js_challenge s)) <= 10)%nat.
  Hypothesis Hskip : length (js_skip s) = 11%nat.
  Hypothesis Hlen : (length (jc_data s) + 16 <= 2048)%nat.

  Lemma jc_attempt_ok (u : list udp_event) t sn cur tr : exists n',
    jc2m_packets_impl port (mknet (map Datagram (jc_script s) ++ u) t [] sn cur tr) = (Ok (jc_data s), n').
  Proof.
    rewrite jc_script_data. cbn [map app]. unfold jc2m_packets_impl.
    erewrite mbind_ok by (apply handshake_ok; assumption).
    unfold gs3_data_request. erewrite mbind_ok by apply send_ok.
    erewrite mbind_ok by (apply (gs3_receive_ok None 0); rewrite app_length; lia).
    unfold mlift, run_r. change (buf_new ?d) with (at_ [] d).
    replace 11%Z with (Z.of_nat (length (js_skip s))) by (rewrite Hskip; reflexivity).
    erewrite bind_ok by apply move_at. eexists. reflexivity.
  Qed.
  Lemma jc_attempt_fault f (u : list udp_event) t sn cur tr : exists sn' tr',
    jc2m_packets_impl port (mknet (jc_fault_events s f ++ u) t [] sn cur tr) = (Err PacketReceive, mknet u t [] sn' cur tr').
  Proof.
    destruct f; cbn [jc_fault_events app].
    - do 2 eexists. reflexivity.
    - unfold jc2m_packets_impl, jc_handshake_dg. erewrite mbind_ok by (apply handshake_ok; assumption).
      unfold gs3_data_request. erewrite mbind_ok by apply send_ok. do 2 eexists. reflexivity.
  Qed.
  Lemma jc_faults_are_timeouts : forall v (u : list udp_event) t sn cur tr, exists sn' tr',
    timeouts_then (jc2m_packets_impl port) (length v) (mknet (flat_map (jc_fault_events s) v ++ u) t [] sn cur tr) (mknet u t [] sn' cur tr').
  Proof.
    induction v as [|f v IH]; intros u t sn cur tr; [do 2 eexists; constructor|].
    cbn [flat_map length]. rewrite <- app_assoc.
    destruct (jc_attempt_fault f (flat_map (jc_fault_events s) v ++ u) t sn cur tr) as [sn1 [tr1 E1]].
    destruct (IH u t sn1 cur tr1) as [sn2 [tr2 T]].
    exists sn2, tr2. eapply tt_step; [exact E1|reflexivity|exact T].
  Qed.

  Theorem jc2m_lost_replies_retried : forall t v,
    settings_ok t -> (length v <= N.to_nat (ts_retries_or_default t))%nat -> wf_jc s = true ->
    fst (jc2m_query port t (net_init (flat_map (jc_fault_events s) v ++ map Datagram (jc_script s)) [] [])) = Ok (jc_expected s).
  Proof.
    intros t v Hs Hv Hwf. unfold jc2m_query, net_init.
    destruct (udp_new_same_script port t (mknet (flat_map (jc_fault_events s) v ++ map Datagram (jc_script s)) [] [] 0 None []) Hs) as [n1 [E1 [U1 [F1 S1]]]].
    destruct n1 as [u1 t1 f1 sn1 cur1 tr1]. cbn [n_udp n_fail n_sends] in U1, F1, S1. subst u1 f1.
    unfold mbind at 1. rewrite E1.
    destruct (jc_faults_are_timeouts v (map Datagram (jc_script s)) t1 sn1 cur1 tr1) as [sn2 [tr2 T]].
    destruct (jc_attempt_ok [] t1 sn2 cur1 tr2) as [n' E]. rewrite app_nil_r in E.
    unfold mbind. rewrite (retry_first_reply_wins _ _ _ _ _ _ Hv T) by (unfold is_timeout; rewrite E; reflexivity).
    rewrite E. unfold mlift. cbn [fst]. apply jc2m_roundtrip. exact Hwf.
  Qed.
End Faults.
