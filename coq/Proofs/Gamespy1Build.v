(* C04, GameSpy 1: one player's map -> the typed player; the variables -> the typed response *)
From GD Require Import Base.Prelude Model.Strings Model.StrOps Model.Buffer Model.Net Model.Valve Model.Gamespy.
From GD Require Import Spec.ValveSpec Spec.QuakeSpec Spec.GamespySpec.
From GD Require Import Proofs.BufferLemmas Proofs.ReadSpecs Proofs.Str Proofs.Utf8 Proofs.ValveRoundtrip Proofs.QuakeRoundtrip Proofs.GamesProofs
  Proofs.GamespyProofs Proofs.IdProofs Proofs.ValveGamesRoundtrip Proofs.Gamespy2Roundtrip Proofs.Jc2mRoundtrip Proofs.Gamespy3Roundtrip Proofs.Gamespy3Reply Proofs.Gamespy1Assembly Proofs.Gamespy1Players.
From Coq Require Import ZifyBool ZifyNat ZifyN Lia.

(* ---------- one player ---------- *)
Lemma drop_ws_digits s : (forall c, In c s -> is_ws c = false) -> s <> [] -> drop_ws s = s.
Proof. destruct s as [|c s]; intros H Hne; [contradiction|]. cbn [drop_ws]. rewrite (H c (or_introl eq_refl)). reflexivity. Qed.
Lemma trim_pad sp s : (forall c, In c s -> is_ws c = false) -> s <> [] -> trim_ws (pad_num sp s) = s.
Proof.
  intros H Hne. unfold trim_ws, pad_num. destruct sp.
  - cbn [app drop_ws]. change (is_ws 32) with true. cbv iota.
    assert (E : drop_ws (s ++ [32]) = s ++ [32]) by (destruct s as [|c s]; [contradiction|]; cbn [app drop_ws]; rewrite (H c (or_introl eq_refl)); reflexivity).
    rewrite E, rev_app_distr. cbn [rev app drop_ws]. change (is_ws 32) with true. cbv iota.
    rewrite drop_ws_digits; [apply rev_involutive| |].
    + intros c Hc. apply in_rev in Hc. apply H. exact Hc.
    + intros E2. apply (f_equal (@rev N)) in E2. rewrite rev_involutive in E2. cbn in E2. contradiction.
  - rewrite (drop_ws_digits s H Hne). rewrite drop_ws_digits; [apply rev_involutive| |].
    + intros c Hc. apply in_rev in Hc. apply H. exact Hc.
    + intros E2. apply (f_equal (@rev N)) in E2. rewrite rev_involutive in E2. cbn in E2. contradiction.
Qed.
Lemma digits_not_ws n c : In c (show_N n) -> is_ws c = false.
Proof. intros H. apply show_N_digits in H. unfold is_ws. lia. Qed.
Lemma trim_pad_N sp n : trim_ws (pad_num sp (show_N n)) = show_N n.
Proof. apply trim_pad; [intros c; apply digits_not_ws|apply show_N_nonempty]. Qed.
Lemma trim_N n : trim_ws (show_N n) = show_N n.
Proof. exact (trim_pad_N false n). Qed.
Lemma trim_pad_Z sp z : trim_ws (pad_num sp (show_Z z)) = show_Z z.
Proof.
  apply trim_pad.
  - intros c Hc. destruct z as [|p|p]; cbn [show_Z] in Hc.
    + destruct Hc as [<-|[]]. reflexivity.
    + apply (digits_not_ws _ _ Hc).
    + destruct Hc as [<-|Hc]; [reflexivity|apply (digits_not_ws _ _ Hc)].
  - destruct z as [|p|p]; cbn [show_Z]; try discriminate. apply show_N_nonempty.
Qed.

(* the (kind, value) pairs of a player, as the server sends them *)
Definition pfields1 (p : s1_player) : list (bytes * bytes) :=
  [((if sp_playername_key p then str "playername" else str "player"), sp_nm p)]
  ++ opt_list (sp_team p) (fun t => [(str "team", pad_num (sp_spaces p) (show_N t))])
  ++ [(str "frags", pad_num (sp_spaces p) (show_Z (sp_frags p))); (str "ping", pad_num (sp_spaces p) (show_N (sp_ping1 p)))]
  ++ opt_list (sp_face p) (fun v => [(str "face", v)])
  ++ opt_list (sp_skin p) (fun v => [(str "skin", v)])
  ++ opt_list (sp_mesh p) (fun v => [(str "mesh", v)])
  ++ opt_list (sp_deaths1 p) (fun v => [(str "deaths", show_N v)])
  ++ opt_list (sp_health p) (fun v => [(str "health", show_N v)])
  ++ opt_list (sp_secret p) (fun v => [(str "ngsecret", snd v)]).
Definition expected_player1 (p : s1_player) : gs1_player :=
  mk_gs1p (sp_nm p) (sp_team p) (sp_ping1 p) (sp_face p) (sp_skin p) (sp_mesh p) (sp_frags p)
          (sp_deaths1 p) (sp_health p) (match sp_secret p with Some v => Some (fst v) | None => None end).
Definition p1_ok (p : s1_player) : bool :=
  optb (fun t => t <? 256) (sp_team p) && (sp_ping1 p <? 65536) && (- 2147483648 <=? sp_frags p)%Z && (sp_frags p <? 2147483648)%Z
  && optb (fun v => v <? 4294967296) (sp_deaths1 p) && optb (fun v => v <? 4294967296) (sp_health p)
  && optb (fun v => match parse_bool (lower_ascii (snd v)) with Some b => Bool.eqb b (fst v) | None => false end) (sp_secret p).

Lemma make_player1 p : p1_ok p = true -> gs1_make_player (pfields1 p) = Ok (expected_player1 p).
Proof.
  intros H. unfold p1_ok in H. do 6 (apply andb_prop in H; destruct H as [H ?]).
  rename H into Hteam, H0 into Hsec, H1 into Hhealth, H2 into Hdeaths, H3 into Hf2, H4 into Hf1, H5 into Hping.
  unfold gs1_make_player, pfields1, expected_player1.
  destruct (sp_playername_key p); segs; cbn [need obind opt_parse];
    rewrite ?trim_pad_N, ?trim_pad_Z;
    rewrite (parse_unsigned_show u16_max' (sp_ping1 p)) by (unfold u16_max'; lia);
    rewrite (parse_signed32_show (sp_frags p)) by lia; cbn [need obind];
    destruct (sp_team p) as [t|]; cbn [option_map opt_parse optb] in *;
    rewrite ?trim_pad_N, ?(parse_unsigned_show u8_max) by (unfold u8_max; lia); cbn [need obind];
    destruct (sp_deaths1 p) as [dd|]; cbn [option_map opt_parse optb] in *;
    rewrite ?trim_pad_N, ?trim_N; rewrite ?(parse_unsigned_show u32_max) by (unfold u32_max; lia); cbn [need obind];
    destruct (sp_health p) as [hh|]; cbn [option_map opt_parse optb] in *;
    rewrite ?trim_pad_N, ?trim_N; rewrite ?(parse_unsigned_show u32_max) by (unfold u32_max; lia); cbn [need obind];
    destruct (sp_secret p) as [[sb st]|]; cbn [option_map opt_parse optb fst snd] in *;
    try (destruct (parse_bool (lower_ascii st)) as [b|]; [|discriminate]; apply Bool.eqb_prop in Hsec; subst b; cbn [need obind]);
    destruct (sp_face p), (sp_skin p), (sp_mesh p); cbn [option_map]; reflexivity.
Qed.

(* the variables of a player are his (kind, value) pairs under the names kind_i *)
Lemma player_vars_named i p : s1_player_vars i p = named i (pfields1 p).
Proof.
  unfold s1_player_vars, named, pfields1.
  destruct (sp_playername_key p), (sp_team p), (sp_face p), (sp_skin p), (sp_mesh p), (sp_deaths1 p), (sp_health p), (sp_secret p); reflexivity.
Qed.
Definition kinds_okb (fields : list (bytes * bytes)) : bool :=
  forallb (fun kv => existsb (bytes_eqb (fst kv)) gs1_player_kinds && negb (existsb (N.eqb 95) (fst kv))) fields.
Lemma kinds_okb_ok fields : kinds_okb fields = true -> kinds_ok fields.
Proof.
  unfold kinds_okb, kinds_ok. intros H. apply Forall_forall. intros kv Hin. rewrite forallb_forall in H. specialize (H kv Hin).
  apply andb_prop in H. destruct H as [H1 H2]. split; [exact H1|]. intros Hc. apply negb_true_iff in H2.
  assert (X : existsb (N.eqb 95) (fst kv) = true) by (apply existsb_exists; exists 95; split; [exact Hc|reflexivity]). rewrite X in H2. discriminate.
Qed.
Lemma pfields1_kinds p : kinds_ok (pfields1 p) /\ pfields1 p <> [] /\ nodupb (map fst (pfields1 p)) = true.
Proof.
  split; [apply kinds_okb_ok|split; [unfold pfields1; discriminate|]]; unfold pfields1;
    destruct (sp_playername_key p), (sp_team p), (sp_face p), (sp_skin p), (sp_mesh p), (sp_deaths1 p), (sp_health p), (sp_secret p); vm_compute; reflexivity.
Qed.
Lemma pmap_fields p : pmap (pfields1 p) = pfields1 p.
Proof.
  unfold pmap. change (fold_left (fun a kv => vm_insert (fst kv) (snd kv) a) (pfields1 p) []) with (fold_left ins (pfields1 p) []).
  rewrite fold_ins_fresh; [reflexivity| |apply pfields1_kinds]. apply forallb_forall. intros; reflexivity.
Qed.
