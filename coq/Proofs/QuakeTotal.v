(* Quake query for every script: no panic, requests are the protocol's. *)
From GD Require Import Base.Prelude Model.Strings Model.StrOps Model.Buffer Model.Net Model.Valve Model.Quake.
From GD Require Import Proofs.BufferLemmas Proofs.BufInv Proofs.Msafe.
From Coq Require Import ZifyBool ZifyNat ZifyN.

Definition quake_request (v : qver) (d : bytes) : Prop := d = [255; 255; 255; 255] ++ send_header v ++ [0].
Definition Qq (port : N) (v : qver) (e : tev) : Prop :=
  match e with
  | SendEv p d => p = port /\ quake_request v d
  | Reserve _ => False
  | NewTcp _ _ => False
  | _ => True
  end.

Lemma need_safe : forall A (o : option A), safe (need o).
Proof. intros A [a|]; exact I. Qed.
Lemma parse_u_safe : forall b s, safe (parse_u b s).
Proof. intros. unfold parse_u. destruct (parse_unsigned b s); exact I. Qed.
Lemma parse_i32_safe : forall s, safe (parse_i32 s).
Proof. intros. unfold parse_i32. destruct (parse_signed 32 s); exact I. Qed.
Lemma obind_safe : forall A B (o : outcome A) (f : A -> outcome B), safe o -> (forall a, safe (f a)) -> safe (obind o f).
Proof. intros A B [a| | | |] f H Hf; cbn in *; try contradiction; [apply Hf|exact I]. Qed.

Lemma parse_player_safe : forall v f, safe (parse_player v f).
Proof.
  intros v f. destruct v; unfold parse_player, parse_q1_player, parse_q2_player, nth_field;
    repeat first [apply obind_safe; [first [apply need_safe|apply parse_u_safe|apply parse_i32_safe]|intro]|exact I].
Qed.

(* a successful string read on a non-empty rest consumes at least one byte *)
Lemma take_n_rest_length : forall n (l a r : bytes), take_n n l = Some (a, r) -> length r = (length l - n)%nat.
Proof. intros n l a r H. apply take_n_spec in H. destruct H as [-> H]. rewrite app_length. lia. Qed.
Lemma advance_rest_length : forall n b, (n <= length (rest b))%nat -> length (rest (advance n b)) = (length (rest b) - n)%nat.
Proof.
  intros n b H. unfold advance. rewrite take_n_some by exact H. cbn [rest]. rewrite skipn_length. reflexivity.
Qed.
Lemma dec_utf8_consumes : forall d b s b', buf_inv b -> rest b <> [] -> dec_utf8 d b = (Ok s, b') ->
  buf_inv b' /\ (length (rest b') < length (rest b))%nat.
Proof.
  intros d b s b' Hi Hne H. unfold dec_utf8, with_slice in H. rewrite Hi in H. cbn in H.
  destruct (span_until (N.eqb d) (rest b)) as [pre aft] eqn:E. destruct (utf8_valid pre); [|discriminate].
  inversion H; subst. split.
  - apply advance_inv; [exact Hi|apply Nat.le_min_r].
  - rewrite advance_rest_length by apply Nat.le_min_r. destruct (rest b); [contradiction|]. cbn [length]. lia.
Qed.

Lemma get_players_safe : forall fuel v acc b, buf_inv b -> (length (rest b) < fuel)%nat ->
  safe (fst (get_players fuel v acc b)).
Proof.
  induction fuel as [|f IH]; intros v acc b Hb Hf; [lia|]. cbn [get_players].
  unfold remaining_bytes. rewrite Hb. cbn [N.eqb].
  destruct (rest b) as [|x r] eqn:Er; [exact I|].
  destruct x as [|px]; [destruct r; [exact I|]|];
    (unfold bind at 1;
     destruct (dec_utf8 10 b) as [[line| | | |] b1] eqn:E;
     [ | exact I | | | ];
     try (pose proof (proj1 (Rsafe_dec_utf8 10 b Hb)) as Hs; rewrite E in Hs; cbn in Hs; contradiction);
     destruct (dec_utf8_consumes 10 b line b1 Hb ltac:(rewrite Er; discriminate) E) as [Hb1 Hl];
     unfold bind at 1, lift;
     pose proof (parse_player_safe v (split_player_line line)) as Hp;
     destruct (parse_player v (split_player_line line)) as [p| | | |]; cbn in Hp; try contradiction; [|exact I];
     apply IH; [exact Hb1|rewrite Er in Hl; cbn [length] in *; lia]).
Qed.

Section WithPort.
  Variable port : N.
  Variable v : qver.
  Notation Mokq := (Mok (Qq port v)).

  Lemma Mok_get_data_impl : Mokq (get_data_impl port v).
  Proof.
    unfold get_data_impl.
    apply Mok_bind; [apply Mok_send; split; reflexivity|intros _].
    apply Mok_bind; [apply Mok_udp_recv; exact I|intro data].
    apply Mok_lift, Rsafe_run.
    apply Rsafe_bind; [apply Rsafe_read_uint|intro h]. apply Rsafe_if; [apply Rsafe_fail|].
    apply Rsafe_bind; [apply Rsafe_remaining|intro rest0]. apply Rsafe_if; [apply Rsafe_fail|].
    apply Rsafe_bind; [apply Rsafe_move_cursor|intros _]. apply Rsafe_remaining.
  Qed.

  Lemma parse_response_safe : forall data,
    safe (fst ((let* vars := get_server_values in
               let* players := get_players (S (length data)) v [] in
               let '(name, vars) := take_var (str "hostname") (str "sv_hostname") vars in
               let* name := lift (need name) in
               let '(map, vars) := take_var (str "mapname") (str "map") vars in
               let* map := lift (need map) in
               let '(maxc, vars) := take_var (str "maxclients") (str "sv_maxclients") vars in
               let* maxc := lift (need maxc) in
               let* maxn := lift (parse_u 255 maxc) in
               let '(version, vars) := take_var (str "version") (str "*version") vars in
               ret (mk_qresp name map players (lenN players mod 256) maxn version vars)) (buf_new data))).
  Proof.
    intro data. unfold bind at 1.
    assert (Hv : Rsafe get_server_values).
    { unfold get_server_values. apply Rsafe_bind; [apply Rsafe_dec_utf8|intro d; apply Rsafe_ret]. }
    destruct (Hv (buf_new data) eq_refl) as [H1 H2].
    assert (Hlen : (length (rest (snd (get_server_values (buf_new data)))) <= length data)%nat).
    { pose proof (preserves_dec_utf8 10 data (buf_new data) (conj eq_refl eq_refl)) as [_ Hd].
      unfold get_server_values, bind in *. destruct (dec_utf8 10 (buf_new data)) as [[d| | | |] b1]; cbn [snd ret] in *;
        (unfold buf_data in Hd; rewrite rev_append_rev in Hd; rewrite <- Hd, app_length; lia). }
    destruct (get_server_values (buf_new data)) as [[vars| | | |] b1]; cbn [fst snd] in *; try contradiction; [|exact I].
    unfold bind at 1.
    pose proof (get_players_safe (S (length data)) v [] b1 H2 ltac:(lia)) as Hp.
    destruct (get_players (S (length data)) v [] b1) as [[players| | | |] b2]; cbn [fst] in Hp; try contradiction; [|exact I].
    destruct (take_var (str "hostname") (str "sv_hostname") vars) as [name vars1].
    unfold bind at 1, lift. destruct (need name) as [nm| | | |] eqn:En; try exact I; try (pose proof (need_safe _ name) as X; rewrite En in X; contradiction).
    destruct (take_var (str "mapname") (str "map") vars1) as [mp vars2].
    unfold bind at 1. destruct (need mp) as [mm| | | |] eqn:Em; try exact I; try (pose proof (need_safe _ mp) as X; rewrite Em in X; contradiction).
    destruct (take_var (str "maxclients") (str "sv_maxclients") vars2) as [mx vars3].
    unfold bind at 1. destruct (need mx) as [mxx| | | |] eqn:Ex; try exact I; try (pose proof (need_safe _ mx) as X; rewrite Ex in X; contradiction).
    unfold bind at 1. destruct (parse_u 255 mxx) as [n| | | |] eqn:Eu; try exact I; try (pose proof (parse_u_safe 255 mxx) as X; rewrite Eu in X; contradiction).
    destruct (take_var (str "version") (str "*version") vars3) as [ver vars4]. exact I.
  Qed.

  Theorem quake_query_ok : forall t, settings_ok t -> Mokq (client_query port v t).
  Proof.
    intros t Hs. unfold client_query.
    apply Mok_bind; [apply Mok_udp_new; [exact Hs|exact I|intros; exact I]|intros _].
    apply Mok_bind; [apply Mok_retry, Mok_get_data_impl|intro data].
    apply Mok_lift. apply parse_response_safe.
  Qed.
End WithPort.

(* C01 row *)
Theorem quake_total : forall port v t u tc sf, settings_ok t ->
  safe (fst (client_query port v t (net_init u tc sf))).
Proof. intros. exact (proj1 (quake_query_ok port v t H (net_init u tc sf))). Qed.
(* C09 row *)
Theorem quake_sends_are_requests : forall port v t u tc sf, settings_ok t ->
  forall p d, In (SendEv p d) (n_trace (snd (client_query port v t (net_init u tc sf)))) ->
  p = port /\ d = [255; 255; 255; 255] ++ send_header v ++ [0].
Proof.
  intros port v t u tc sf Hs p d Hin.
  destruct (quake_query_ok port v t Hs (net_init u tc sf)) as [_ [_ [evs [H1 H2]]]].
  rewrite H1 in Hin. cbn [net_init n_trace] in Hin. rewrite app_nil_r in Hin.
  rewrite Forall_forall in H2. exact (H2 _ Hin).
Qed.
(* C13 row: no field-driven reservation at all *)
Theorem quake_no_reserve : forall port v t u tc sf, settings_ok t ->
  reserves (snd (client_query port v t (net_init u tc sf))) = [].
Proof.
  intros port v t u tc sf Hs.
  destruct (quake_query_ok port v t Hs (net_init u tc sf)) as [_ [_ [evs [H1 H2]]]].
  unfold reserves. rewrite H1. cbn [net_init n_trace]. rewrite app_nil_r. clear H1.
  induction H2 as [|e evs He Hevs IH]; [reflexivity|]. cbn [flat_map]. rewrite IH. destruct e; cbn in He |- *; first [reflexivity|contradiction].
Qed.
