(* C10: retry_on_timeout against its abstract description. *)
From GD Require Import Base.Prelude Model.Net.
From Coq Require Import ZifyBool ZifyNat ZifyN.

(* is this attempt result a timeout-class failure? *)
Definition is_timeout {A} (r : outcome A * net) : bool :=
  match fst r with Err e => timeout_class e | _ => false end.

(* the attempts made by k tries, in order, each with the state it left *)
Fixpoint retry_outcomes {A} (k : nat) (att : M A) (n : net) : list (outcome A * net) :=
  match k with
  | O => []
  | S k' => let r := att n in
            r :: (if is_timeout r then retry_outcomes k' att (snd r) else [])
  end.

Lemma last_indep : forall A (l : list A) d d', l <> [] -> last l d = last l d'.
Proof.
  induction l as [|x l IH]; intros d d' H; [contradiction|].
  destruct l as [|y l]; [reflexivity|]. change (last (x :: y :: l) d) with (last (y :: l) d).
  change (last (x :: y :: l) d') with (last (y :: l) d'). apply IH. discriminate.
Qed.

Lemma retry_outcomes_length : forall A k (att : M A) n, (length (retry_outcomes k att n) <= k)%nat.
Proof.
  induction k as [|k IH]; intros att n; cbn [retry_outcomes length]; [lia|].
  destruct (is_timeout (att n)); cbn [length]; [specialize (IH att (snd (att n))); lia|lia].
Qed.

Lemma retry_outcomes_nonempty : forall A k (att : M A) n, retry_outcomes (S k) att n <> [].
Proof. intros. cbn [retry_outcomes]. discriminate. Qed.

(* every attempt except the last one ended in a timeout-class error: a request
   is never re-attempted after a reply (valid or malformed) *)
Lemma retry_outcomes_only_after_timeout : forall A k (att : M A) n pre r post,
  retry_outcomes k att n = pre ++ r :: post -> post <> [] -> is_timeout r = true.
Proof.
  induction k as [|k IH]; intros att n pre r post H Hp; cbn [retry_outcomes] in H.
  - destruct pre; discriminate.
  - destruct pre as [|p pre]; cbn [app] in H.
    + inversion H as [[H1 H2]]. destruct (is_timeout (att n)) eqn:E; [reflexivity|]. subst post. contradiction.
    + inversion H as [[H1 H2]]. destruct (is_timeout (att n)) eqn:E.
      * exact (IH att (snd (att n)) pre r post H2 Hp).
      * destruct pre; discriminate.
Qed.

(* fewer than k attempts were made only because the last one was not a timeout *)
Lemma retry_outcomes_stop : forall A k (att : M A) n,
  (length (retry_outcomes k att n) < k)%nat ->
  is_timeout (last (retry_outcomes k att n) (att n)) = false.
Proof.
  induction k as [|k IH]; intros att n H; cbn [retry_outcomes length] in *; [lia|].
  destruct (is_timeout (att n)) eqn:E; cbn [length] in H.
  - assert (Hl : (length (retry_outcomes k att (snd (att n))) < k)%nat) by lia.
    specialize (IH att (snd (att n)) Hl).
    destruct (retry_outcomes k att (snd (att n))) as [|x l] eqn:El; [cbn in Hl; destruct k; [lia|cbn in El; discriminate]|].
    change (last (att n :: x :: l) (att n)) with (last (x :: l) (att n)).
    rewrite (last_indep _ (x :: l) (att n) (att (snd (att n)))); [exact IH|discriminate].
  - cbn [last]. exact E.
Qed.

(* the result of the loop is the last attempt's result; when that is a
   timeout-class error all k attempts were used *)
Lemma retry_loop_result : forall A k (att : M A) n last_e,
  retry_loop (S k) last_e att n = last (retry_outcomes (S k) att n) (att n).
Proof.
  induction k as [|k IH]; intros att n last_e.
  - cbn [retry_loop retry_outcomes]. destruct (att n) as [[a|e| | |] n'] eqn:E; unfold is_timeout; cbn [fst snd last];
      try reflexivity. destruct (timeout_class e); reflexivity.
  - change (retry_loop (S (S k)) last_e att n) with
      (match att n with
       | (Err e, n') => if timeout_class e then retry_loop (S k) e att n' else (Err e, n')
       | r => r end).
    change (retry_outcomes (S (S k)) att n) with
      (att n :: (if is_timeout (att n) then retry_outcomes (S k) att (snd (att n)) else [])).
    destruct (att n) as [[a|e| | |] n'] eqn:E; unfold is_timeout at 1; cbn [fst snd]; try reflexivity.
    destruct (timeout_class e) eqn:Et; [|reflexivity].
    rewrite (IH att n' e).
    pose proof (retry_outcomes_nonempty A k att n') as Hne.
    destruct (retry_outcomes (S k) att n') as [|x l] eqn:El; [contradiction|].
    change (last ((Err e, n') :: x :: l) (Err e, n')) with (last (x :: l) (Err e, n')).
    apply last_indep. discriminate.
Qed.

Theorem retry_spec : forall A (att : M A) r n,
  let l := retry_outcomes (S (N.to_nat r)) att n in
  (* at most r+1 attempts, at least one *)
  (1 <= length l <= N.to_nat r + 1)%nat
  (* the result is the last attempt's *)
  /\ retry_on_timeout r att n = last l (att n)
  (* re-attempts happen only after timeout-class failures *)
  /\ (forall pre x post, l = pre ++ x :: post -> post <> [] -> is_timeout x = true)
  (* and it stops early only on a success or a non-timeout failure *)
  /\ ((length l < N.to_nat r + 1)%nat -> is_timeout (last l (att n)) = false).
Proof.
  intros A att r n l. subst l. repeat split.
  - cbn [retry_outcomes length]. lia.
  - pose proof (retry_outcomes_length A (S (N.to_nat r)) att n). lia.
  - unfold retry_on_timeout. apply retry_loop_result.
  - intros pre x post H Hp. exact (retry_outcomes_only_after_timeout A _ att n pre x post H Hp).
  - intro H. apply retry_outcomes_stop. lia.
Qed.

(* if every attempt times out, the query fails with a receive/send-class error *)
Theorem retry_all_timeout : forall A (att : M A) r n,
  (forall m, is_timeout (att m) = true) ->
  exists e n', retry_on_timeout r att n = (Err e, n') /\ timeout_class e = true.
Proof.
  intros A att r n Hall. unfold retry_on_timeout.
  generalize (N.to_nat r) as k. intro k. generalize PacketReceive as last_e. revert n.
  induction k as [|k IH]; intros n last_e.
  - cbn [retry_loop]. pose proof (Hall n) as H. unfold is_timeout in H.
    destruct (att n) as [[a|e| | |] n']; cbn [fst] in H; try discriminate. rewrite H. eauto.
  - change (retry_loop (S (S k)) last_e att n) with
      (match att n with
       | (Err e, n') => if timeout_class e then retry_loop (S k) e att n' else (Err e, n')
       | r => r end).
    pose proof (Hall n) as H. unfold is_timeout in H.
    destruct (att n) as [[a|e| | |] n']; cbn [fst] in H; try discriminate. rewrite H. apply IH.
Qed.

(* the first attempt that gets a reply determines the result: j timeouts (j <= r)
   followed by an attempt that does not time out *)
Inductive timeouts_then {A} (att : M A) : nat -> net -> net -> Prop :=
| tt_zero : forall n, timeouts_then att O n n
| tt_step : forall j n e n' m, att n = (Err e, n') -> timeout_class e = true ->
            timeouts_then att j n' m -> timeouts_then att (S j) n m.

Theorem retry_first_reply_wins : forall A (att : M A) r j n m,
  (j <= N.to_nat r)%nat -> timeouts_then att j n m -> is_timeout (att m) = false ->
  retry_on_timeout r att n = att m.
Proof.
  intros A att r j n m Hj Ht Hm. unfold retry_on_timeout.
  revert Hj. generalize (N.to_nat r) as k. generalize PacketReceive as last_e.
  induction Ht as [n|j n e n' m Hatt Hcls Ht IH]; intros last_e k Hj.
  - cbn [retry_loop]. unfold is_timeout in Hm. destruct (att n) as [[a|e| | |] n']; cbn [fst] in Hm; try reflexivity.
    rewrite Hm. reflexivity.
  - destruct k as [|k]; [lia|].
    change (retry_loop (S (S k)) last_e att n) with
      (match att n with
       | (Err e, n') => if timeout_class e then retry_loop (S k) e att n' else (Err e, n')
       | r => r end).
    rewrite Hatt, Hcls. apply IH; [exact Hm|lia].
Qed.

