(* C02: transports. Whatever way a conforming server packs a reply (single
   datagram, Source split, GoldSrc split, bzip2-compressed split), [receive]
   hands the reply's kind and body to the parser and consumes exactly those
   datagrams. *)
From GD Require Import Base.Prelude Model.Strings Model.Buffer Model.Net Model.Valve Spec.ValveSpec.
From GD Require Import Proofs.BufferLemmas Proofs.ReadSpecs Proofs.Varint Proofs.ValveRoundtrip.
From Coq Require Import ZifyBool ZifyNat ZifyN.
Ltac Zify.zify_post_hook ::= Z.div_mod_to_equations.

(* [m] run on a script starting with the datagrams [dgs] returns [a] and leaves
   the rest of the script; sends cannot fail (no scripted send failures) *)
Definition consumes {A} (m : M A) (dgs : list bytes) (a : A) : Prop :=
  forall n u, n_udp n = map Datagram dgs ++ u -> n_fail n = [] ->
  exists n', m n = (Ok a, n') /\ n_udp n' = u /\ n_fail n' = [].

Lemma consumes_bind : forall A B (m : M A) (f : A -> M B) d1 d2 a b,
  consumes m d1 a -> consumes (f a) d2 b -> consumes (mbind m f) (d1 ++ d2) b.
Proof.
  intros A B m f d1 d2 a b H1 H2 n u Hu Hf. rewrite map_app, <- app_assoc in Hu.
  destruct (H1 n _ Hu Hf) as [n1 [E1 [U1 F1]]]. destruct (H2 n1 u U1 F1) as [n2 [E2 [U2 F2]]].
  exists n2. unfold mbind. rewrite E1. auto.
Qed.
Lemma consumes_ret : forall A (a : A), consumes (mret a) [] a.
Proof. intros A a n u Hu Hf. exists n. auto. Qed.
Lemma consumes_lift : forall A (a : A), consumes (mlift (Ok a)) [] a.
Proof. intros A a n u Hu Hf. exists n. auto. Qed.
Lemma consumes_send : forall port d, consumes (send port d) [] tt.
Proof.
  intros port d n u Hu Hf. unfold send. rewrite Hf. cbn [existsb]. eexists. split; [reflexivity|]. cbn. auto.
Qed.
Lemma consumes_recv : forall d, lenN d <= packet_size ->
  consumes (udp_recv (Some packet_size)) [d] d.
Proof.
  intros d Hd n u Hu Hf. unfold udp_recv. rewrite Hu. cbn [map app].
  rewrite firstn_all2 by (unfold lenN in Hd; lia).
  eexists. split; [reflexivity|]. cbn. auto.
Qed.
Lemma consumes_log : forall e, consumes (log e) [] tt.
Proof. intros e n u Hu Hf. eexists. split; [reflexivity|]. cbn. auto. Qed.

(* the reply packet after the simple header: kind byte and body *)
Lemma packet_from_simple : forall kind body, packet_from (simple_header ++ kind :: body) = Ok (kind, body).
Proof.
  intros kind body. unfold packet_from, simple_header, read_u32, rest_bytes.
  change (buf_new ([255; 255; 255; 255] ++ kind :: body)) with (at_ [] (le_bytes 4 4294967295 ++ kind :: body)).
  erewrite bind_ok by (apply (read_le_at 4); cbn; lia).
  erewrite bind_ok by apply read_u8_at'. reflexivity.
Qed.

Section WithBz.
  Variable bz : bytes -> N -> outcome bytes.

  (* ---- single datagram ---- *)
  Lemma receive_single : forall e protocol kind body,
    lenN (simple_header ++ kind :: body) <= packet_size ->
    consumes (receive bz e protocol) [simple_header ++ kind :: body] (kind, body).
  Proof.
    intros e protocol kind body Hlen. unfold receive.
    change [simple_header ++ kind :: body] with ([simple_header ++ kind :: body] ++ []).
    apply (consumes_bind _ _ _ _ _ _ (simple_header ++ kind :: body)); [apply consumes_recv; exact Hlen|].
    unfold simple_header. cbn [app]. change (255 =? 254) with false. cbv iota.
    change (255 :: 255 :: 255 :: 255 :: kind :: body) with (simple_header ++ kind :: body).
    rewrite packet_from_simple. apply consumes_lift.
  Qed.
End WithBz.

Section Compose.
  Variable bz : bytes -> N -> outcome bytes.
  Variable port : N.

  Lemma consumes_app_nil : forall A (m : M A) d a, consumes m (d ++ []) a -> consumes m d a.
  Proof. intros A m d a H. rewrite app_nil_r in H. exact H. Qed.

  (* a reply delivered by the transport, as [receive] sees it *)
  Definition delivered (e : engine) (protocol : N) (dgs : list bytes) (kind : N) (body : bytes) : Prop :=
    dgs <> [] /\ consumes (receive bz e protocol) dgs (kind, body).

  Definition challenge_ok (c : bytes) : Prop := lenN (challenge_packet c) <= packet_size.

  Lemma receive_challenge : forall e protocol c, challenge_ok c ->
    consumes (receive bz e protocol) [challenge_packet c] (65, c).
  Proof. intros e protocol c Hc. apply (receive_single bz e protocol 65 c). exact Hc. Qed.

  (* the challenge loop answers every challenge and returns the reply's body *)
  Lemma challenge_loop_consumes : forall e protocol reqkind dgs k body, k <> 65 ->
    delivered e protocol dgs k body ->
    forall chs, Forall challenge_ok chs -> forall c0 fuel, (length chs + 2 <= fuel)%nat ->
    consumes (challenge_loop bz fuel port e protocol reqkind (65, c0)) (map challenge_packet chs ++ dgs) body.
  Proof.
    intros e protocol reqkind dgs k body Hk [Hne Hd] chs. induction chs as [|c1 chs IH]; intros Hall c0 fuel Hf.
    - destruct fuel as [|[|f]]; [cbn in Hf; lia|cbn in Hf; lia|].
      cbn [challenge_loop map app]. change (65 =? 65) with true. cbv iota.
      change dgs with ([] ++ dgs). apply (consumes_bind _ _ _ _ _ _ tt); [apply consumes_send|].
      apply consumes_app_nil. apply (consumes_bind _ _ _ _ _ _ (k, body)); [exact Hd|].
      cbn [challenge_loop]. destruct (k =? 65) eqn:E; [lia|]. apply consumes_ret.
    - inversion Hall as [|c1' chs' Hc1 Hrest]; subst.
      destruct fuel as [|f]; [cbn in Hf; lia|].
      cbn [challenge_loop map app]. change (65 =? 65) with true. cbv iota.
      change (challenge_packet c1 :: map challenge_packet chs ++ dgs)
        with ([] ++ ([challenge_packet c1] ++ (map challenge_packet chs ++ dgs))).
      apply (consumes_bind _ _ _ _ _ _ tt); [apply consumes_send|].
      apply (consumes_bind _ _ _ _ _ _ (65, c1)); [apply receive_challenge; exact Hc1|].
      apply IH; [exact Hrest|cbn [length] in Hf; lia].
  Qed.

  (* one request unit: request, challenge rounds, reply *)
  Lemma unit_consumes : forall e protocol reqkind payload chs dgs k body, k <> 65 ->
    Forall challenge_ok chs -> delivered e protocol dgs k body ->
    consumes (get_request_data_impl bz port e protocol reqkind payload) (map challenge_packet chs ++ dgs) body.
  Proof.
    intros e protocol reqkind payload chs dgs k body Hk Hall Hd n u Hu Hf.
    unfold get_request_data_impl.
    destruct (consumes_send port (to_bytes reqkind payload) n (map Datagram (map challenge_packet chs ++ dgs) ++ u) Hu Hf)
      as [n1 [E1 [U1 F1]]].
    unfold mbind at 1. rewrite E1.
    destruct chs as [|c0 chs].
    - cbn [map app] in U1. destruct Hd as [Hne Hd]. destruct (Hd n1 u U1 F1) as [n2 [E2 [U2 F2]]].
      unfold mbind. rewrite E2. cbn [challenge_loop]. destruct (k =? 65) eqn:E; [lia|]. exists n2. auto.
    - inversion Hall as [|c0' chs' Hc0 Hrest]; subst.
      cbn [map app] in U1.
      destruct (receive_challenge e protocol c0 Hc0 n1 (map Datagram (map challenge_packet chs ++ dgs) ++ u)) as [n2 [E2 [U2 F2]]];
        [exact U1|exact F1|].
      unfold mbind. rewrite E2.
      apply (challenge_loop_consumes e protocol reqkind dgs k body Hk Hd chs Hrest c0 (S (length (n_udp n2)))); [|exact U2|exact F2].
      rewrite U2. repeat (rewrite app_length || rewrite map_length). destruct Hd as [Hne _]. destruct dgs; [contradiction|]. cbn [length]. lia.
  Qed.

  Lemma retry_consumes : forall A (att : M A) r dgs a, consumes att dgs a ->
    consumes (retry_on_timeout r att) dgs a.
  Proof.
    intros A att r dgs a H n u Hu Hf. destruct (H n u Hu Hf) as [n' [E [U F]]].
    exists n'. unfold retry_on_timeout. cbn [retry_loop]. rewrite E. auto.
  Qed.
End Compose.

From GD Require Import Proofs.Msafe Proofs.Gather.

Section Query.
  Variable bz : bytes -> N -> outcome bytes.
  Variable port : N.

  (* a reply (payload = kind byte :: body) reaches [receive] intact, after its challenge rounds *)
  Definition reply_ok (e : engine) (protocol : N) (o : reply_opts) (payload : bytes) : Prop :=
    Forall challenge_ok (ro_challenges o) /\
    exists kind body, payload = kind :: body /\ kind <> 65 /\
      delivered bz e protocol (transport_packets (ro_transport o) payload) kind body.

  Lemma udp_new_consumes : forall t, settings_ok t -> consumes (udp_new port t) [] tt.
  Proof.
    intros t Hs. unfold udp_new. change (@nil bytes) with (@nil bytes ++ []).
    apply (consumes_bind _ _ _ _ _ _ tt); [apply consumes_log|].
    unfold apply_timeout, settings_ok in *. destruct (ts_rw_or_default t) as [r w]. destruct Hs as [Hr Hw].
    change (@nil bytes) with (@nil bytes ++ []). apply (consumes_bind _ _ _ _ _ _ tt); [apply consumes_log|].
    assert (Z1 : match r with Some d => dur_zero d | None => false end = false) by (destruct r; [apply Hr; reflexivity|reflexivity]).
    assert (Z2 : match w with Some d => dur_zero d | None => false end = false) by (destruct w; [apply Hw; reflexivity|reflexivity]).
    rewrite Z1, Z2. apply consumes_ret.
  Qed.

  Lemma request_consumes : forall e protocol reqkind retries o payload kind body,
    Forall challenge_ok (ro_challenges o) -> kind <> 65 ->
    delivered bz e protocol (transport_packets (ro_transport o) payload) kind body ->
    consumes (get_request_data bz port retries e protocol reqkind) (reply_packets o payload) body.
  Proof.
    intros e protocol reqkind retries o payload kind body Hch Hk Hd. unfold get_request_data, reply_packets.
    apply (retry_consumes _ _ retries _ body).
    exact (unit_consumes bz port e protocol reqkind _ (ro_challenges o) _ kind body Hk Hch Hd).
  Qed.

  Lemma gather_consumes : forall A (m : M A) t dgs a, t <> Skip -> consumes m dgs a -> consumes (maybe_gather t m) dgs (Some a).
  Proof.
    intros A m t dgs a Ht H n u Hu Hf. destruct (H n u Hu Hf) as [n' [E [U F]]]. exists n'.
    destruct t.
    - exfalso. apply Ht. reflexivity.
    - unfold maybe_gather. rewrite E. auto.
    - unfold maybe_gather, mbind, mret. rewrite E. auto.
  Qed.

  (* the info phase decodes the server's info *)
  Lemma info_consumes : forall e t st o, wf_info e (vs_info st) = true -> settings_ok t -> retries_ok t ->
    reply_ok e 0 (vo_info o) (enc_info (vs_info st)) ->
    consumes (info_phase bz port e t) (reply_packets (vo_info o) (enc_info (vs_info st))) (expected_info (vs_info st)).
  Proof.
    intros e t st o Hwf Hs Hr [Hch [kind [body [Hp [Hk Hd]]]]]. unfold info_phase.
    change (reply_packets (vo_info o) (enc_info (vs_info st))) with ([] ++ reply_packets (vo_info o) (enc_info (vs_info st))).
    apply (consumes_bind _ _ _ _ _ _ tt); [apply udp_new_consumes; exact Hs|].
    unfold get_server_info. apply consumes_app_nil.
    apply (consumes_bind _ _ _ _ _ _ body); [apply (request_consumes e 0 84 _ (vo_info o) _ kind body); assumption|].
    assert (Hbody : body = tl (enc_info (vs_info st))) by (rewrite Hp; reflexivity).
    destruct (vs_info st) as [s|g] eqn:Ei.
    - assert (He : match e with GoldSrc true => False | _ => True end).
      { unfold wf_info in Hwf. destruct e as [ids|[|]]; [exact I|discriminate|exact I]. }
      pose proof (src_info_roundtrip e s Hwf) as RT. cbn [enc_info] in Hbody. rewrite <- Hbody in RT.
      destruct e as [ids|[|]]; try contradiction; rewrite RT; apply consumes_lift.
    - assert (He : e = GoldSrc true).
      { unfold wf_info in Hwf. destruct e as [ids|[|]]; [discriminate|reflexivity|discriminate]. }
      subst e. pose proof (gold_info_roundtrip g Hwf) as RT. cbn [enc_info] in Hbody. rewrite <- Hbody in RT.
      rewrite RT. apply consumes_lift.
  Qed.

  Lemma players_consumes : forall e retries protocol l o, forallb (wf_player e) l = true -> lenN l < 256 ->
    reply_ok e protocol o (enc_players l) ->
    consumes (get_server_players bz port retries e protocol) (reply_packets o (enc_players l)) (map expected_player l).
  Proof.
    intros e retries protocol l o Hwf Hlen [Hch [kind [body [Hp [Hk Hd]]]]]. unfold get_server_players.
    apply consumes_app_nil.
    apply (consumes_bind _ _ _ _ _ _ body); [apply (request_consumes e protocol 85 _ o _ kind body); assumption|].
    assert (Hbody : body = tl (enc_players l)) by (rewrite Hp; reflexivity).
    pose proof (players_roundtrip e l Hwf Hlen) as RT. unfold players_parser in RT. rewrite <- Hbody in RT.
    rewrite RT. apply consumes_lift.
  Qed.

  Lemma rules_consumes : forall e retries protocol l o,
    forallb (fun kv => no_nul (fst kv) && no_nul (snd kv)) l = true -> lenN l < 65536 ->
    reply_ok e protocol o (enc_rules l) ->
    consumes (get_server_rules bz port retries e protocol) (reply_packets o (enc_rules l)) (expected_rules e l).
  Proof.
    intros e retries protocol l o Hwf Hlen [Hch [kind [body [Hp [Hk Hd]]]]]. unfold get_server_rules.
    apply consumes_app_nil.
    apply (consumes_bind _ _ _ _ _ _ body); [apply (request_consumes e protocol 86 _ o _ kind body); assumption|].
    assert (Hbody : body = tl (enc_rules l)) by (rewrite Hp; reflexivity).
    pose proof (rules_roundtrip l Hwf Hlen) as RT. rewrite <- Hbody in RT.
    apply consumes_app_nil. apply (consumes_bind _ _ _ _ _ _ (fold_left (fun m kv => map_insert (fst kv) (snd kv) m) l [])).
    - rewrite RT. apply consumes_lift.
    - unfold expected_rules. apply consumes_ret.
  Qed.

  Definition info_protocol_of (i : info_state) : N :=
    match i with SrcInfo s => i_protocol s | GoldInfo g => gi_protocol g end.
  Lemma expected_protocol : forall i, si_protocol_version (expected_info i) = info_protocol_of i.
  Proof. intros [s|g]; reflexivity. Qed.

  (* C02: for every server state of the specification's domain, every engine,
     gather setting and accepted timeout setting, and every transport that
     delivers the replies, the query returns exactly the expected response *)
  Theorem valve_roundtrip : forall e g t st o,
    wf_state e st = true -> settings_ok t -> retries_ok t ->
    reply_ok e 0 (vo_info o) (enc_info (vs_info st)) ->
    reply_ok e (info_protocol_of (vs_info st)) (vo_players o) (enc_players (vs_players st)) ->
    reply_ok e (info_protocol_of (vs_info st)) (vo_rules o) (enc_rules (vs_rules st)) ->
    fst (Valve.query bz port e (Some g) t (net_init (map Datagram (valve_script st o g)) [] []))
    = valve_expected_outcome st e g.
  Proof.
    intros e g t st o Hwf Hs Hr R1 R2 R3.
    unfold wf_state in Hwf.
    apply andb_prop in Hwf; destruct Hwf as [Hwf Hrl]. apply andb_prop in Hwf; destruct Hwf as [Hwf Hrw].
    apply andb_prop in Hwf; destruct Hwf as [Hwf Hpl]. apply andb_prop in Hwf; destruct Hwf as [Hwi Hpw].
    assert (Hpl' : lenN (vs_players st) < 256) by lia. assert (Hrl' : lenN (vs_rules st) < 65536) by lia.
    rewrite (query_structure bz port e g t).
    unfold valve_script.
    destruct (info_consumes e t st o Hwi Hs Hr R1 (net_init (map Datagram (valve_script st o g)) [] [])
                (map Datagram ((match g_players g with Skip => [] | _ => reply_packets (vo_players o) (enc_players (vs_players st)) end)
                               ++ (match g_rules g with Skip => [] | _ => reply_packets (vo_rules o) (enc_rules (vs_rules st)) end))))
      as [n1 [E1 [U1 F1]]].
    { unfold valve_script, net_init. cbn [n_udp]. rewrite map_app. reflexivity. }
    { reflexivity. }
    unfold valve_script in E1. rewrite E1. unfold valve_expected_outcome.
    destruct (appid_ok e g (si_appid (expected_info (vs_info st)))); [|reflexivity].
    unfold sections. rewrite expected_protocol.
    (* players *)
    assert (P : exists n2, maybe_gather (g_players g) (get_server_players bz port (ts_retries_or_default t) e (info_protocol_of (vs_info st))) n1
                = (Ok (match g_players g with Skip => None | _ => Some (map expected_player (vs_players st)) end), n2)
                /\ n_udp n2 = map Datagram (match g_rules g with Skip => [] | _ => reply_packets (vo_rules o) (enc_rules (vs_rules st)) end)
                /\ n_fail n2 = []).
    { destruct (g_players g) eqn:Eg.
      - exists n1. cbn [maybe_gather]. rewrite U1. cbn [app]. auto.
      - destruct (gather_consumes _ (get_server_players bz port (ts_retries_or_default t) e (info_protocol_of (vs_info st))) Try _ _
                    ltac:(discriminate) (players_consumes e _ _ _ (vo_players o) Hpw Hpl' R2) n1 _
                    ltac:(rewrite U1, map_app; reflexivity) F1) as [n2 [E2 [U2 F2]]]. exists n2. auto.
      - destruct (gather_consumes _ (get_server_players bz port (ts_retries_or_default t) e (info_protocol_of (vs_info st))) Enforce _ _
                    ltac:(discriminate) (players_consumes e _ _ _ (vo_players o) Hpw Hpl' R2) n1 _
                    ltac:(rewrite U1, map_app; reflexivity) F1) as [n2 [E2 [U2 F2]]]. exists n2. auto. }
    destruct P as [n2 [E2 [U2 F2]]]. unfold mbind at 1. rewrite E2.
    (* rules *)
    assert (Q : exists n3, maybe_gather (g_rules g) (get_server_rules bz port (ts_retries_or_default t) e (info_protocol_of (vs_info st))) n2
                = (Ok (match g_rules g with Skip => None | _ => Some (expected_rules e (vs_rules st)) end), n3)).
    { destruct (g_rules g) eqn:Eg.
      - exists n2. reflexivity.
      - destruct (gather_consumes _ (get_server_rules bz port (ts_retries_or_default t) e (info_protocol_of (vs_info st))) Try _ _
                    ltac:(discriminate) (rules_consumes e _ _ _ (vo_rules o) Hrw Hrl' R3) n2 []
                    ltac:(rewrite U2, app_nil_r; reflexivity) F2) as [n3 [E3 _]]. exists n3. exact E3.
      - destruct (gather_consumes _ (get_server_rules bz port (ts_retries_or_default t) e (info_protocol_of (vs_info st))) Enforce _ _
                    ltac:(discriminate) (rules_consumes e _ _ _ (vo_rules o) Hrw Hrl' R3) n2 []
                    ltac:(rewrite U2, app_nil_r; reflexivity) F2) as [n3 [E3 _]]. exists n3. exact E3. }
    destruct Q as [n3 E3]. unfold mbind. rewrite E3. reflexivity.
  Qed.

  (* single-datagram replies are delivered whenever they fit the receive buffer *)
  Lemma reply_ok_single : forall e protocol chs payload kind body,
    payload = kind :: body -> kind <> 65 -> Forall challenge_ok chs ->
    lenN (simple_header ++ payload) <= packet_size ->
    reply_ok e protocol (mk_ropts chs Single) payload.
  Proof.
    intros e protocol chs payload kind body Hp Hk Hch Hlen. split; [exact Hch|].
    exists kind, body. split; [exact Hp|split; [exact Hk|]]. cbn [ro_transport transport_packets]. subst payload.
    split; [discriminate|apply receive_single; exact Hlen].
  Qed.
End Query.

(* ---- split transports ---- *)
Section Split.
  Variable bz : bytes -> N -> outcome bytes.

  Lemma concat_cut : forall cuts l, concat (cut cuts l) = l.
  Proof.
    induction cuts as [|c cuts IH]; intro l; cbn [cut concat]; [apply app_nil_r|].
    rewrite IH. apply firstn_skipn.
  Qed.
  Lemma cut_length : forall cuts l, length (cut cuts l) = S (length cuts).
  Proof. induction cuts as [|c cuts IH]; intro l; cbn [cut length]; [reflexivity|rewrite IH; reflexivity]. Qed.

  (* packets numbered i, i+1, ... in order are already sorted *)
  Fixpoint numbered_list (i : N) (l : list split_packet) : Prop :=
    match l with [] => True | p :: r => sp_number p = i /\ numbered_list (i + 1) r end.
  Lemma numbered_lower : forall l i p, numbered_list i l -> In p l -> i <= sp_number p.
  Proof.
    induction l as [|q l IH]; intros i p H Hin; [destruct Hin|]. destruct H as [H1 H2].
    destruct Hin as [<-|Hin]; [lia|]. specialize (IH (i + 1) p H2 Hin). lia.
  Qed.
  Lemma sort_numbered : forall l i, numbered_list i l -> sort_splits l = l.
  Proof.
    induction l as [|p l IH]; intros i H; [reflexivity|]. destruct H as [H1 H2].
    cbn [sort_splits fold_right]. change (fold_right insert_split [] l) with (sort_splits l). rewrite (IH (i + 1) H2).
    destruct l as [|q l']; [reflexivity|]. cbn [insert_split].
    destruct H2 as [H3 _]. destruct (sp_number p <? sp_number q) eqn:E; [reflexivity|lia].
  Qed.
  Lemma numbered_from_list : forall l i, numbered_list i l -> numbered_from i l = true.
  Proof.
    induction l as [|p l IH]; intros i H; [reflexivity|]. destruct H as [H1 H2]. cbn [numbered_from].
    rewrite (IH _ H2), H1, N.eqb_refl. reflexivity.
  Qed.

  (* collecting the remaining datagrams of a split response *)
  Definition frag_ok (e : engine) (protocol : N) (first : split_packet) (dp : bytes * split_packet) : Prop :=
    lenN (fst dp) <= packet_size /\ fst (split_new e protocol (buf_new (fst dp))) = Ok (snd dp)
    /\ sp_header (snd dp) = sp_header first /\ sp_id (snd dp) = sp_id first.
  Lemma recv_chunks_consumes : forall e protocol first (frags : list (bytes * split_packet)) acc,
    Forall (frag_ok e protocol first) frags ->
    consumes (recv_chunks (length frags) e protocol first acc) (map fst frags) (rev acc ++ map snd frags).
  Proof.
    intros e protocol first frags. induction frags as [|[d p] frags IH]; intros acc Hall.
    - cbn. rewrite app_nil_r. apply consumes_ret.
    - inversion Hall as [|x l [Hlen [Hparse [Hh Hi]]] Hrest]; subst. cbn [fst snd] in *.
      cbn [length recv_chunks map fst snd].
      change (d :: map fst frags) with ([d] ++ map fst frags).
      apply (consumes_bind _ _ _ _ _ _ d); [apply consumes_recv; exact Hlen|].
      change (map fst frags) with ([] ++ map fst frags).
      apply (consumes_bind _ _ _ _ _ _ p); [rewrite Hparse; apply consumes_lift|].
      rewrite Hh, Hi, !N.eqb_refl. cbn [negb orb].
      specialize (IH (p :: acc) Hrest). cbn [rev] in IH. rewrite <- app_assoc in IH. exact IH.
  Qed.

  (* a split response whose datagrams parse to in-order packets p0 p1 ... *)
  Lemma receive_split : forall e protocol d0 p0 (frags : list (bytes * split_packet)) kind body,
    (exists tl0, d0 = 254 :: tl0) -> lenN d0 <= packet_size ->
    fst (split_new e protocol (buf_new d0)) = Ok p0 ->
    Forall (frag_ok e protocol p0) frags ->
    N.to_nat (sp_total p0) = S (length frags) ->
    numbered_list 0 (p0 :: map snd frags) ->
    consumes (get_payload bz p0 (sp_payload p0 ++ flat_map sp_payload (map snd frags))) [] (simple_header ++ kind :: body) ->
    consumes (receive bz e protocol) (d0 :: map fst frags) (kind, body).
  Proof.
    intros e protocol d0 p0 frags kind body [tl0 Hd0] Hlen Hp0 Hall Htot Hnum Hpay. unfold receive.
    change (d0 :: map fst frags) with ([d0] ++ map fst frags).
    apply (consumes_bind _ _ _ _ _ _ d0); [apply consumes_recv; exact Hlen|].
    rewrite Hd0. change (254 =? 254) with true. cbv iota. rewrite <- Hd0.
    change (map fst frags) with ([] ++ map fst frags).
    apply (consumes_bind _ _ _ _ _ _ p0); [rewrite Hp0; apply consumes_lift|].
    apply consumes_app_nil.
    apply (consumes_bind _ _ _ _ _ _ (map snd frags)).
    - rewrite Htot. replace (S (length frags) - 1)%nat with (length frags) by lia.
      exact (recv_chunks_consumes e protocol p0 frags [] Hall).
    - unfold reassemble. rewrite (sort_numbered _ 0 Hnum), (numbered_from_list _ 0 Hnum). cbn [negb].
      change (@nil bytes) with (@nil bytes ++ []).
      apply (consumes_bind _ _ _ _ _ _ (simple_header ++ kind :: body)); [exact Hpay|].
      rewrite packet_from_simple. apply consumes_lift.
  Qed.
End Split.

Section SplitSource.
  Variable bz : bytes -> N -> outcome bytes.

  Lemma testbit31_low : forall id, id < 2147483648 -> N.testbit id 31 = false.
  Proof. intros id H. rewrite N.testbit_eqb. change (2 ^ 31) with 2147483648. rewrite N.div_small by exact H. reflexivity. Qed.
  Lemma testbit31_high : forall id, id < 2147483648 -> N.testbit (id + 2147483648) 31 = true.
  Proof.
    intros id H. rewrite N.testbit_eqb. change (2 ^ 31) with 2147483648.
    replace ((id + 2147483648) / 2147483648) with 1; [reflexivity|].
    apply N.div_unique with (r := id); lia.
  Qed.

  Definition src_frag (id total i : N) (nosize : bool) (extra piece : bytes) : bytes :=
    split_header ++ le32 id ++ [total; i] ++ (if nosize then [] else le16 1248) ++ extra ++ piece.

  (* parsing one Source split datagram (uncompressed, or a compressed one that is not number 0) *)
  Lemma split_new_src_plain : forall ids protocol id total i piece,
    id < 4294967296 -> total < 256 -> i < 256 -> (N.testbit id 31 && (i =? 0)) = false ->
    fst (split_new (Source ids) protocol
           (buf_new (src_frag id total i ((protocol =? 7) && engine_is (Source ids) 240) [] piece)))
    = Ok (mk_split 4294967294 id total i 1248 None piece).
  Proof.
    intros ids protocol id total i piece Hid Ht Hi Hc. unfold src_frag, split_new, read_u32, read_u16, rest_bytes.
    change (buf_new ?x) with (at_ [] x). change split_header with (le_bytes 4 4294967294). unfold le32.
    erewrite bind_ok by (apply (read_le_at 4); cbn; lia).
    erewrite bind_ok by (apply (read_le_at 4); cbn; lia).
    cbn [app]. erewrite bind_ok by apply read_u8_at'. erewrite bind_ok by apply read_u8_at'.
    destruct ((protocol =? 7) && engine_is (Source ids) 240).
    - erewrite bind_ok by reflexivity. rewrite Hc. erewrite bind_ok by reflexivity. reflexivity.
    - unfold le16. erewrite bind_ok by (apply (read_le_at 2); cbn; lia). rewrite Hc.
      erewrite bind_ok by reflexivity. reflexivity.
  Qed.

  (* packet number 0 of a compressed response: size and checksum follow the size field *)
  Lemma split_new_src_bz0 : forall ids protocol id total dsize crc piece,
    id < 2147483648 -> total < 256 -> dsize < 4294967296 -> crc < 4294967296 ->
    fst (split_new (Source ids) protocol
           (buf_new (src_frag (id + 2147483648) total 0 ((protocol =? 7) && engine_is (Source ids) 240) (le32 dsize ++ le32 crc) piece)))
    = Ok (mk_split 4294967294 (id + 2147483648) total 0 1248 (Some (dsize, crc)) piece).
  Proof.
    intros ids protocol id total dsize crc piece Hid Ht Hd Hc. unfold src_frag, split_new, read_u32, read_u16, rest_bytes.
    change (buf_new ?x) with (at_ [] x). change split_header with (le_bytes 4 4294967294). unfold le32.
    erewrite bind_ok by (apply (read_le_at 4); cbn; lia).
    erewrite bind_ok by (apply (read_le_at 4); cbn; lia).
    cbn [app]. erewrite bind_ok by apply read_u8_at'. erewrite bind_ok by apply read_u8_at'.
    rewrite (testbit31_high id Hid). change (0 =? 0) with true. cbn [andb].
    destruct ((protocol =? 7) && engine_is (Source ids) 240).
    - erewrite bind_ok by reflexivity. repeat rewrite <- app_assoc.
      erewrite bind_ok by (erewrite bind_ok by (apply (read_le_at 4); cbn; lia);
                           erewrite bind_ok by (apply (read_le_at 4); cbn; lia); reflexivity).
      reflexivity.
    - unfold le16. erewrite bind_ok by (apply (read_le_at 2); cbn; lia). repeat rewrite <- app_assoc.
      erewrite bind_ok by (erewrite bind_ok by (apply (read_le_at 4); cbn; lia);
                           erewrite bind_ok by (apply (read_le_at 4); cbn; lia); reflexivity).
      reflexivity.
  Qed.
End SplitSource.

Section SplitSourceReply.
  Variable bz : bytes -> N -> outcome bytes.
  Variable ids : option (N * option N).
  Variable protocol : N.
  Notation e := (Source ids).
  Notation nosize := ((protocol =? 7) && engine_is (Source ids) 240).

  Definition frag_of (id total : N) (ip : N * bytes) : bytes := src_frag id total (fst ip) nosize [] (snd ip).
  Definition pkt_of (id total : N) (ip : N * bytes) : split_packet := mk_split 4294967294 id total (fst ip) 1248 None (snd ip).

  Lemma frags_props : forall id total, id < 4294967296 -> total < 256 ->
    forall l i, i + lenN l <= 256 -> (forall j, i <= j -> (N.testbit id 31 && (j =? 0)) = false) ->
    Forall (fun d => lenN d <= packet_size) (map (frag_of id total) (number_from i l)) ->
    forall first, sp_header first = 4294967294 -> sp_id first = id ->
    let frags := map (fun ip => (frag_of id total ip, pkt_of id total ip)) (number_from i l) in
    Forall (frag_ok e protocol first) frags
    /\ numbered_list i (map snd frags)
    /\ flat_map sp_payload (map snd frags) = concat l
    /\ map fst frags = map (frag_of id total) (number_from i l)
    /\ length frags = length l.
  Proof.
    intros id total Hid Ht l. induction l as [|piece l IH]; intros i Hi Hc Hsz first Hfh Hfi; cbn zeta.
    - cbn. repeat split; constructor.
    - cbn [number_from map] in *. inversion Hsz as [|x xs Hs1 Hs2]; subst x xs.
      assert (Hl : lenN (piece :: l) = lenN l + 1) by (unfold lenN; cbn [length]; lia).
      destruct (IH (i + 1) ltac:(lia) ltac:(intros j Hj; apply Hc; lia) Hs2 first Hfh Hfi) as [F1 [F2 [F3 [F4 F5]]]].
      cbn zeta in *. repeat split.
      + constructor; [|exact F1]. unfold frag_ok. cbn [fst snd]. split; [exact Hs1|]. split; [|split; [rewrite Hfh; reflexivity|rewrite Hfi; reflexivity]].
        unfold frag_of, pkt_of. cbn [fst snd]. apply (split_new_src_plain bz); try assumption; [lia|apply Hc; lia].
      + exact F2.
      + cbn [flat_map concat pkt_of sp_payload snd]. rewrite F3. reflexivity.
      + cbn [fst]. rewrite F4. reflexivity.
      + cbn [length]. rewrite F5. reflexivity.
  Qed.

  Lemma lenN_cut : forall cuts l, lenN (cut cuts l) = lenN cuts + 1.
  Proof. intros. unfold lenN. rewrite cut_length. lia. Qed.

  Theorem reply_ok_split_src : forall chs cuts id payload kind body,
    payload = kind :: body -> kind <> 65 -> Forall challenge_ok chs ->
    id < 2147483648 -> lenN cuts < 255 ->
    Forall (fun d => lenN d <= packet_size) (transport_packets (SplitSrc cuts id nosize) payload) ->
    reply_ok bz e protocol (mk_ropts chs (SplitSrc cuts id nosize)) payload.
  Proof.
    intros chs cuts id payload kind body Hp Hk Hch Hid Hcuts Hsz. split; [exact Hch|].
    exists kind, body. split; [exact Hp|split; [exact Hk|]].
    cbn [ro_transport transport_packets] in *.
    set (pkt := simple_header ++ payload) in *. set (total := lenN (cut cuts pkt)) in *.
    assert (Htot : total = lenN cuts + 1) by (subst total; apply lenN_cut).
    destruct (cut cuts pkt) as [|p0 rest] eqn:Ecut; [pose proof (cut_length cuts pkt) as Hc; rewrite Ecut in Hc; discriminate|].
    assert (Hcat : p0 ++ concat rest = pkt) by (rewrite <- (concat_cut cuts pkt), Ecut; reflexivity).
    cbn [number_from map] in *.
    change (fun ip : N * bytes => split_header ++ le32 id ++ [total; fst ip] ++ (if nosize then [] else le16 1248) ++ snd ip)
      with (frag_of id total) in *.
    inversion Hsz as [|x xs Hs0 Hs1]; subst x xs.
    assert (Hrest : lenN rest + 1 = total) by (subst total; unfold lenN; cbn [length]; lia).
    destruct (frags_props id total ltac:(lia) ltac:(lia) rest (0 + 1) ltac:(lia)
                ltac:(intros j Hj; rewrite (testbit31_low id Hid); reflexivity) Hs1 (pkt_of id total (0, p0)) eq_refl eq_refl) as [F1 [F2 [F3 [F4 F5]]]].
    cbn zeta in *. split; [discriminate|].
    change (consumes (receive bz e protocol)
              (frag_of id total (0, p0) :: map (frag_of id total) (number_from (0 + 1) rest)) (kind, body)).
    rewrite <- F4.
    apply (receive_split bz e protocol (frag_of id total (0, p0)) (pkt_of id total (0, p0)) _ kind body).
    - eexists. unfold frag_of, src_frag, split_header. cbn [app]. reflexivity.
    - exact Hs0.
    - unfold frag_of, pkt_of. cbn [fst snd]. apply (split_new_src_plain bz); [lia|lia|lia|rewrite (testbit31_low id Hid); reflexivity].
    - exact F1.
    - cbn [pkt_of sp_total]. rewrite F5. unfold lenN in Hrest. lia.
    - split; [reflexivity|exact F2].
    - unfold get_payload. cbn [pkt_of sp_decompressed sp_payload snd]. rewrite F3, Hcat. subst pkt. rewrite Hp. apply consumes_ret.
  Qed.
End SplitSourceReply.

Section SplitBzReply.
  Variable bz : bytes -> N -> outcome bytes.
  Variable ids : option (N * option N).
  Variable protocol : N.
  Notation e := (Source ids).
  Notation nosize := ((protocol =? 7) && engine_is (Source ids) 240).

  (* compressed split: size and checksum in packet 0, payload = the bzip2
     stream cut in pieces; [bz] is the decompressor's answer for that stream *)
  Theorem reply_ok_split_bz : forall chs cuts id comp payload kind body,
    payload = kind :: body -> kind <> 65 -> Forall challenge_ok chs ->
    id < 2147483648 -> lenN cuts < 255 ->
    lenN (simple_header ++ payload) <= max_decompressed_size -> crc32 (simple_header ++ payload) < 4294967296 ->
    bz comp (lenN (simple_header ++ payload)) = Ok (simple_header ++ payload) ->
    Forall (fun d => lenN d <= packet_size) (transport_packets (SplitBz cuts id nosize comp) payload) ->
    reply_ok bz e protocol (mk_ropts chs (SplitBz cuts id nosize comp)) payload.
  Proof.
    intros chs cuts id comp payload kind body Hp Hk Hch Hid Hcuts Hmax Hcrc Hbz Hsz. split; [exact Hch|].
    exists kind, body. split; [exact Hp|split; [exact Hk|]].
    cbn [ro_transport transport_packets] in *.
    set (pkt := simple_header ++ payload) in *. set (total := lenN (cut cuts comp)) in *.
    assert (Htot : total = lenN cuts + 1) by (subst total; unfold lenN; rewrite cut_length; lia).
    destruct (cut cuts comp) as [|p0 rest] eqn:Ecut; [pose proof (cut_length cuts comp) as Hc; rewrite Ecut in Hc; discriminate|].
    assert (Hcat : p0 ++ concat rest = comp) by (rewrite <- (concat_cut cuts comp), Ecut; reflexivity).
    set (id' := id + 2147483648) in *.
    inversion Hsz as [|x xs Hs0 Hs1]; subst x xs.
    assert (Hrest : lenN rest + 1 = total) by (subst total; unfold lenN; cbn [length]; lia).
    change (map (fun ip : N * bytes => (split_header ++ le32 id' ++ [total; fst ip] ++ (if nosize then [] else le16 1248)) ++ [] ++ snd ip)
                (number_from 1 rest))
      with (map (frag_of ids protocol id' total) (number_from 1 rest)) in *.
    destruct (frags_props bz ids protocol id' total ltac:(subst id'; lia) ltac:(lia) rest 1 ltac:(lia)
                ltac:(intros j Hj; destruct (j =? 0) eqn:Ej; [lia|apply andb_false_r]) Hs1
                (mk_split 4294967294 id' total 0 1248 (Some (lenN pkt, crc32 pkt)) p0) eq_refl eq_refl) as [F1 [F2 [F3 [F4 F5]]]].
    cbn zeta in *. split; [discriminate|].
    change (consumes (receive bz e protocol)
              (src_frag id' total 0 nosize (le32 (lenN pkt) ++ le32 (crc32 pkt)) p0
               :: map (frag_of ids protocol id' total) (number_from 1 rest)) (kind, body)).
    rewrite <- F4.
    apply (receive_split bz e protocol _ (mk_split 4294967294 id' total 0 1248 (Some (lenN pkt, crc32 pkt)) p0) _ kind body).
    - eexists. unfold src_frag, split_header. cbn [app]. reflexivity.
    - exact Hs0.
    - apply (split_new_src_bz0 bz); [exact Hid|lia|unfold max_decompressed_size in Hmax; lia|exact Hcrc].
    - exact F1.
    - cbn [sp_total]. rewrite F5. unfold lenN in Hrest. lia.
    - split; [reflexivity|exact F2].
    - unfold get_payload. cbn [sp_decompressed sp_payload]. rewrite F3, Hcat.
      destruct (max_decompressed_size <? lenN pkt) eqn:E; [lia|].
      change (@nil bytes) with (@nil bytes ++ []). apply (consumes_bind _ _ _ _ _ _ tt); [apply consumes_log|].
      change (@nil bytes) with (@nil bytes ++ []). apply (consumes_bind _ _ _ _ _ _ pkt); [rewrite Hbz; apply consumes_lift|].
      rewrite !N.eqb_refl. cbn [andb]. subst pkt. rewrite Hp. apply consumes_ret.
  Qed.
End SplitBzReply.

Section SplitGoldReply.
  Variable bz : bytes -> N -> outcome bytes.
  Variable force : bool.
  Variable protocol : N.
  Notation e := (GoldSrc force).

  Lemma nibbles : forall i t, i < 16 -> t < 16 -> u8_lower_upper (i * 16 + t) = (t, i).
  Proof.
    intros i t Hi Ht. unfold u8_lower_upper. change 15 with (N.ones 4).
    rewrite N.land_ones, N.shiftr_div_pow2. change (2 ^ 4) with 16. f_equal; lia.
  Qed.

  Definition gfrag (id total : N) (ip : N * bytes) : bytes := split_header ++ le32 id ++ [fst ip * 16 + total] ++ snd ip.
  Definition gpkt (id total : N) (ip : N * bytes) : split_packet := mk_split 4294967294 id total (fst ip) 0 None (snd ip).

  Lemma split_new_gold : forall id total i piece, id < 4294967296 -> total < 16 -> i < 16 ->
    fst (split_new e protocol (buf_new (gfrag id total (i, piece)))) = Ok (gpkt id total (i, piece)).
  Proof.
    intros id total i piece Hid Ht Hi. unfold gfrag, gpkt, split_new, read_u32, rest_bytes. cbn [fst snd].
    change (buf_new ?x) with (at_ [] x). change split_header with (le_bytes 4 4294967294). unfold le32.
    erewrite bind_ok by (apply (read_le_at 4); cbn; lia).
    erewrite bind_ok by (apply (read_le_at 4); cbn; lia).
    cbn [app]. erewrite bind_ok by apply read_u8_at'. rewrite nibbles by assumption.
    erewrite bind_ok by reflexivity. reflexivity.
  Qed.

  Lemma gfrags_props : forall id total, id < 4294967296 -> total < 16 ->
    forall l i, i + lenN l <= 16 ->
    Forall (fun d => lenN d <= packet_size) (map (gfrag id total) (number_from i l)) ->
    forall first, sp_header first = 4294967294 -> sp_id first = id ->
    let frags := map (fun ip => (gfrag id total ip, gpkt id total ip)) (number_from i l) in
    Forall (frag_ok e protocol first) frags
    /\ numbered_list i (map snd frags)
    /\ flat_map sp_payload (map snd frags) = concat l
    /\ map fst frags = map (gfrag id total) (number_from i l)
    /\ length frags = length l.
  Proof.
    intros id total Hid Ht l. induction l as [|piece l IH]; intros i Hi Hsz first Hfh Hfi; cbn zeta.
    - cbn. repeat split; constructor.
    - cbn [number_from map] in *. inversion Hsz as [|x xs Hs1 Hs2]; subst x xs.
      assert (Hl : lenN (piece :: l) = lenN l + 1) by (unfold lenN; cbn [length]; lia).
      destruct (IH (i + 1) ltac:(lia) Hs2 first Hfh Hfi) as [F1 [F2 [F3 [F4 F5]]]].
      cbn zeta in *. repeat split.
      + constructor; [|exact F1]. unfold frag_ok. cbn [fst snd]. split; [exact Hs1|].
        split; [apply split_new_gold; lia|split; [rewrite Hfh; reflexivity|rewrite Hfi; reflexivity]].
      + exact F2.
      + cbn [flat_map concat gpkt sp_payload snd]. rewrite F3. reflexivity.
      + cbn [fst]. rewrite F4. reflexivity.
      + cbn [length]. rewrite F5. reflexivity.
  Qed.

  Theorem reply_ok_split_gold : forall chs cuts id payload kind body,
    payload = kind :: body -> kind <> 65 -> Forall challenge_ok chs ->
    id < 4294967296 -> lenN cuts < 15 ->
    Forall (fun d => lenN d <= packet_size) (transport_packets (SplitGold cuts id) payload) ->
    reply_ok bz e protocol (mk_ropts chs (SplitGold cuts id)) payload.
  Proof.
    intros chs cuts id payload kind body Hp Hk Hch Hid Hcuts Hsz. split; [exact Hch|].
    exists kind, body. split; [exact Hp|split; [exact Hk|]].
    cbn [ro_transport transport_packets] in *.
    set (pkt := simple_header ++ payload) in *. set (total := lenN (cut cuts pkt)) in *.
    assert (Htot : total = lenN cuts + 1) by (subst total; unfold lenN; rewrite cut_length; lia).
    destruct (cut cuts pkt) as [|p0 rest] eqn:Ecut; [pose proof (cut_length cuts pkt) as Hc; rewrite Ecut in Hc; discriminate|].
    assert (Hcat : p0 ++ concat rest = pkt) by (rewrite <- (concat_cut cuts pkt), Ecut; reflexivity).
    cbn [number_from map] in *.
    inversion Hsz as [|x xs Hs0 Hs1]; subst x xs.
    assert (Hrest : lenN rest + 1 = total) by (subst total; unfold lenN; cbn [length]; lia).
    change (map (fun ip : N * bytes => split_header ++ le32 id ++ [fst ip * 16 + total] ++ snd ip) (number_from (0 + 1) rest))
      with (map (gfrag id total) (number_from (0 + 1) rest)) in Hs1.
    destruct (gfrags_props id total Hid ltac:(lia) rest (0 + 1) ltac:(lia) Hs1 (gpkt id total (0, p0)) eq_refl eq_refl) as [F1 [F2 [F3 [F4 F5]]]].
    cbn zeta in *. split; [discriminate|].
    change (consumes (receive bz e protocol) (gfrag id total (0, p0) :: map (gfrag id total) (number_from (0 + 1) rest)) (kind, body)).
    rewrite <- F4.
    apply (receive_split bz e protocol (gfrag id total (0, p0)) (gpkt id total (0, p0)) _ kind body).
    - eexists. unfold gfrag, split_header. cbn [app]. reflexivity.
    - exact Hs0.
    - apply split_new_gold; lia.
    - exact F1.
    - cbn [gpkt sp_total]. rewrite F5. unfold lenN in Hrest. lia.
    - split; [reflexivity|exact F2].
    - unfold get_payload. cbn [gpkt sp_decompressed sp_payload snd]. rewrite F3, Hcat. subst pkt. rewrite Hp. apply consumes_ret.
  Qed.
End SplitGoldReply.
