(* C14: two engines that [engines_agree] lead to the same run of the Valve query, for every script:
   the app ids of a Source engine matter only through the app-id check and the three ids the
   parser special-cases (The Ship 2400, Counter-Strike: Source 240, Risk of Rain 2 632360). *)
From GD Require Import Base.Prelude Model.Strings Model.Buffer Model.Net Model.Valve Model.Quake Model.Unreal2 Model.Dispatch.
From Coq Require Import ZifyBool ZifyNat ZifyN Lia.

Lemma mbind_ext {A B} (m1 m2 : M A) (f1 f2 : A -> M B) :
  (forall n, m1 n = m2 n) -> (forall a n, f1 a n = f2 a n) -> forall n, mbind m1 f1 n = mbind m2 f2 n.
Proof. intros H1 H2 n. unfold mbind. rewrite H1. destruct (m2 n) as [[a|e|s|s|] n']; auto. Qed.
Lemma retry_loop_ext {A} (a1 a2 : M A) : (forall n, a1 n = a2 n) -> forall k last n, retry_loop k last a1 n = retry_loop k last a2 n.
Proof.
  intros H. induction k as [|k IH]; intros last n; [reflexivity|]. cbn [retry_loop]. rewrite H.
  destruct (a2 n) as [[a|e|s|s|] n']; try reflexivity. destruct (timeout_class e); [apply IH|reflexivity].
Qed.
Lemma maybe_gather_ext {A} t (m1 m2 : M A) : (forall n, m1 n = m2 n) -> forall n, maybe_gather t m1 n = maybe_gather t m2 n.
Proof.
  intros H n. unfold maybe_gather. destruct t; [reflexivity|rewrite H; reflexivity|]. apply mbind_ext; [exact H|reflexivity].
Qed.

(* an engine the parser does not special-case *)
Definition plain (e : engine) : Prop :=
  (exists ids, e = Source ids) /\ engine_is e 2400 = false /\ engine_is e 240 = false /\ engine_is e 632360 = false.

Lemma plain_of_agree a b : match a, b with
                           | Source (Some _), Source (Some _) => negb (special_engine a) && negb (special_engine b)
                           | _, _ => false
                           end = true -> plain a /\ plain b.
Proof.
  destruct a as [[[a1 da]|]|fa]; try discriminate. destruct b as [[[b1 db]|]|fb]; try discriminate.
  intros H. apply andb_prop in H. destruct H as [Ha Hb]. unfold special_engine in *. cbn [existsb] in *.
  split; (split; [eexists; reflexivity|]).
  - destruct da; cbn [engine_is]; repeat split; try reflexivity; lia.
  - destruct db; cbn [engine_is]; repeat split; try reflexivity; lia.
Qed.

Section Same.
  Variable bz : bytes -> N -> outcome bytes.
  Variables e1 e2 : engine.
  Hypothesis P1 : plain e1.
  Hypothesis P2 : plain e2.

  Lemma split_same protocol b : split_new e1 protocol b = split_new e2 protocol b.
  Proof.
    destruct P1 as [[i1 ->] [_ [H1 _]]]. destruct P2 as [[i2 ->] [_ [H2 _]]].
    unfold split_new. rewrite H1, H2. reflexivity.
  Qed.
  Lemma recv_chunks_same protocol first : forall k acc n, recv_chunks k e1 protocol first acc n = recv_chunks k e2 protocol first acc n.
  Proof.
    induction k as [|k IH]; intros acc n; [reflexivity|]. cbn [recv_chunks].
    apply mbind_ext; [reflexivity|]. intros d n1. apply mbind_ext; [intros n2; rewrite split_same; reflexivity|].
    intros c n2. destruct (negb _ || negb _); [reflexivity|apply IH].
  Qed.
  Lemma receive_same protocol n : receive bz e1 protocol n = receive bz e2 protocol n.
  Proof.
    unfold receive. apply mbind_ext; [reflexivity|]. intros data n1. destruct data as [|h r]; [reflexivity|].
    destruct (h =? 254); [|reflexivity]. apply mbind_ext; [intros n2; rewrite split_same; reflexivity|].
    intros first n2. apply mbind_ext; [apply recv_chunks_same|reflexivity].
  Qed.
  Lemma challenge_loop_same port protocol kind : forall fuel pk n,
    challenge_loop bz fuel port e1 protocol kind pk n = challenge_loop bz fuel port e2 protocol kind pk n.
  Proof.
    induction fuel as [|f IH]; intros pk n; [reflexivity|]. cbn [challenge_loop]. destruct pk as [k payload].
    destruct (k =? 65); [|reflexivity]. apply mbind_ext; [reflexivity|]. intros _ n1.
    apply mbind_ext; [apply receive_same|]. intros pk' n2. apply IH.
  Qed.
  Lemma request_data_same port retries protocol kind n :
    get_request_data bz port retries e1 protocol kind n = get_request_data bz port retries e2 protocol kind n.
  Proof.
    unfold get_request_data, retry_on_timeout. apply retry_loop_ext. intros n0. unfold get_request_data_impl.
    apply mbind_ext; [reflexivity|]. intros _ n1. apply mbind_ext; [apply receive_same|]. intros pk n2. apply challenge_loop_same.
  Qed.
  Lemma parse_info_same b : parse_source_info e1 b = parse_source_info e2 b.
  Proof. destruct P1 as [_ [H1 _]]. destruct P2 as [_ [H2 _]]. unfold parse_source_info. rewrite H1, H2. reflexivity. Qed.
  Lemma info_same port retries n : get_server_info bz port retries e1 n = get_server_info bz port retries e2 n.
  Proof.
    unfold get_server_info. apply mbind_ext; [apply request_data_same|]. intros data n1.
    destruct P1 as [[i1 E1] _]. destruct P2 as [[i2 E2] _]. pose proof (parse_info_same (buf_new data)) as H. subst e1 e2. rewrite H. reflexivity.
  Qed.
  Lemma players_same port retries protocol n : get_server_players bz port retries e1 protocol n = get_server_players bz port retries e2 protocol n.
  Proof.
    unfold get_server_players. apply mbind_ext; [apply request_data_same|]. intros data n1.
    destruct P1 as [_ [H1 _]]. destruct P2 as [_ [H2 _]]. rewrite H1, H2. reflexivity.
  Qed.
  Lemma rules_same port retries protocol n : get_server_rules bz port retries e1 protocol n = get_server_rules bz port retries e2 protocol n.
  Proof.
    unfold get_server_rules. apply mbind_ext; [apply request_data_same|]. intros data n1.
    destruct P1 as [_ [_ [_ H1]]]. destruct P2 as [_ [_ [_ H2]]]. rewrite H1, H2. reflexivity.
  Qed.

  (* with the app-id check off the two queries are the same function of the script *)
  Lemma query_same port g t n : g_check_app_id g = false ->
    Valve.query bz port e1 (Some g) t n = Valve.query bz port e2 (Some g) t n.
  Proof.
    intros Hc. unfold Valve.query. apply mbind_ext; [reflexivity|]. intros _ n1.
    apply mbind_ext; [apply info_same|]. intros info n2. rewrite Hc.
    assert (B1 : match e1 with Source (Some (a, d)) => negb ((a =? si_appid info) || match d with Some d' => d' =? si_appid info | None => false end) && false | _ => false end = false)
      by (destruct e1 as [[[a d]|]|]; try reflexivity; apply andb_false_r).
    assert (B2 : match e2 with Source (Some (a, d)) => negb ((a =? si_appid info) || match d with Some d' => d' =? si_appid info | None => false end) && false | _ => false end = false)
      by (destruct e2 as [[[a d]|]|]; try reflexivity; apply andb_false_r).
    rewrite B1, B2.
    apply mbind_ext; [apply maybe_gather_ext; apply players_same|]. intros players n3.
    apply mbind_ext; [apply maybe_gather_ext; apply rules_same|reflexivity].
  Qed.
End Same.

Lemma engine_eqb_eq a b : engine_eqb a b = true -> a = b.
Proof.
  destruct a as [[[a1 da]|]|fa], b as [[[b1 db]|]|fb]; cbn [engine_eqb]; try discriminate; intros H; try reflexivity.
  - apply andb_prop in H. destruct H as [H1 H2]. apply N.eqb_eq in H1. subst b1.
    destruct da, db; cbn [optN_eqb] in H2; try discriminate; [apply N.eqb_eq in H2; subst; reflexivity|reflexivity].
  - apply Bool.eqb_prop in H. subst. reflexivity.
Qed.

Theorem engines_agree_same_run : forall bz port g t e e', engines_agree (g_check_app_id g) e e' = true ->
  forall n, Valve.query bz port e (Some g) t n = Valve.query bz port e' (Some g) t n.
Proof.
  intros bz port g t e e' H n. unfold engines_agree in H. apply orb_prop in H. destruct H as [H|H].
  - apply engine_eqb_eq in H. subst. reflexivity.
  - apply andb_prop in H. destruct H as [Hc H]. apply negb_true_iff in Hc.
    destruct (plain_of_agree e e' H) as [P1 P2]. apply query_same; assumption.
Qed.

(* equivalent calls behave the same: either they are the same call, or both are Valve queries
   that return the same result and leave the same trace on every script *)
Definition valve_run (bz : bytes -> N -> outcome bytes) (c : call) (n : net) : option (outcome response * net) :=
  match c with CValve p e g t => Some (Valve.query bz p e g t n) | _ => None end.
Theorem call_equiv_same_run : forall bz a b, call_equiv a b ->
  a = b \/ (forall n, valve_run bz a n = valve_run bz b n /\ valve_run bz a n <> None).
Proof.
  intros bz a b H. destruct a as [p e [g|] t| | | |]; try (left; exact H).
  destruct b as [p' e' [g'|] t'| | | |]; try (left; exact H).
  cbn [call_equiv] in H. destruct H as [-> [-> [-> H]]]. right. intros n. cbn [valve_run].
  rewrite (engines_agree_same_run bz p' g' t' e e' H n). split; [reflexivity|discriminate].
Qed.
