(* C17: the two helpers of utils.rs the packet readers use, against their arithmetic meaning. *)
From GD Require Import Base.Prelude Model.Strings Model.Buffer.
From Coq Require Import ZifyBool ZifyNat ZifyN Lia.

(* expected = announced by the packet, size = what is there: equal is fine, more bytes than announced is an overflow,
   fewer an underflow - never the other way round *)
Theorem expected_size_spec : forall e s,
  (error_by_expected_size e s = Ok tt <-> e = s)
  /\ (error_by_expected_size e s = Err PacketOverflow <-> e < s)
  /\ (error_by_expected_size e s = Err PacketUnderflow <-> s < e).
Proof.
  intros e s. unfold error_by_expected_size.
  destruct (e <? s) eqn:E1; [|destruct (s <? e) eqn:E2]; repeat split; intros H; try discriminate; try reflexivity; try lia.
Qed.

(* the two nibbles of a byte *)
Theorem u8_lower_upper_spec : forall n,
  u8_lower_upper n = (n mod 16, n / 16) /\ (n < 256 -> snd (u8_lower_upper n) * 16 + fst (u8_lower_upper n) = n /\ snd (u8_lower_upper n) < 16).
Proof.
  intros n. unfold u8_lower_upper. change 15 with (N.ones 4). rewrite N.land_ones, N.shiftr_div_pow2. change (2 ^ 4) with 16.
  split; [reflexivity|]. intros Hn. cbn [fst snd]. split.
  - pose proof (N.div_mod n 16 ltac:(lia)). lia.
  - apply N.div_lt_upper_bound; lia.
Qed.
