(* C12 (the part a model can carry): every socket gets the configured timeouts
   before its first receive, and a silent peer costs exactly retries + 1
   receives, each bounded by the read timeout that was applied. *)
From GD Require Import Base.Prelude Model.Strings Model.Buffer Model.Net Model.Quake Model.Unreal2.
From Coq Require Import ZifyBool ZifyNat ZifyN Lia.

(* ---- socket creation applies the timeouts ---- *)
Lemma udp_new_trace port t n :
  n_trace (snd (udp_new port t n))
  = ApplyTimeout (fst (ts_rw_or_default t)) (snd (ts_rw_or_default t)) :: NewUdp port :: n_trace n.
Proof.
  unfold udp_new, apply_timeout, mbind, log. cbn [snd fst].
  destruct (ts_rw_or_default t) as [r w]. cbn [mbind log fst snd].
  destruct ((match r with Some d => dur_zero d | None => false end) || (match w with Some d => dur_zero d | None => false end)); reflexivity.
Qed.
Lemma tcp_new_trace port t d st r n :
  n_tcp n = Stream d st :: r ->
  n_trace (snd (tcp_new port t n))
  = ApplyTimeout (fst (ts_rw_or_default t)) (snd (ts_rw_or_default t)) :: NewTcp port (ts_connect_or_default t) :: n_trace n.
Proof.
  intros H. unfold tcp_new. rewrite H. unfold apply_timeout, mbind, log.
  destruct (ts_rw_or_default t) as [rd w]. cbn [fst snd].
  destruct ((match rd with Some d => dur_zero d | None => false end) || (match w with Some d => dur_zero d | None => false end)); reflexivity.
Qed.
(* a connection that cannot be established fails at once with SocketConnect and performs no receive *)
Lemma tcp_new_refused port t r n :
  n_tcp n = Refused :: r \/ n_tcp n = [] ->
  fst (tcp_new port t n) = Err SocketConnect.
Proof. intros [H|H]; unfold tcp_new; rewrite H; reflexivity. Qed.

(* ---- a silent UDP peer ---- *)
(* the peer never answers, and no send is made to fail *)
Definition silent (n : net) : Prop := n_udp n = [] /\ n_fail n = [].
Definition recvs (n : net) : nat := length (filter (fun e => match e with RecvEv _ => true | _ => false end) (n_trace n)).

(* an attempt that, against a silent peer, fails with a timeout after exactly one receive *)
Definition one_receive {A} (a : M A) : Prop :=
  forall n, silent n -> exists n', a n = (Err PacketReceive, n') /\ silent n' /\ recvs n' = S (recvs n).

Lemma retry_loop_silent {A} (a : M A) : one_receive a ->
  forall k last n, silent n ->
  exists n', retry_loop (S k) last a n = (Err PacketReceive, n') /\ silent n' /\ recvs n' = (recvs n + S k)%nat.
Proof.
  intros Ha k. induction k as [|k IH]; intros last n Hn.
  - destruct (Ha n Hn) as [n' [E [S1 R1]]]. exists n'. cbn [retry_loop]. rewrite E. cbn. split; [reflexivity|split; [exact S1|lia]].
  - destruct (Ha n Hn) as [n1 [E [S1 R1]]].
    destruct (IH PacketReceive n1 S1) as [n' [E' [S' R']]].
    exists n'. change (retry_loop (S (S k)) last a n) with
      (match a n with (Err e, n') => if timeout_class e then retry_loop (S k) e a n' else (Err e, n') | r => r end).
    rewrite E. cbn [timeout_class]. rewrite E'. split; [reflexivity|split; [exact S'|lia]].
Qed.

Theorem silent_peer_costs_retries_plus_one {A} (a : M A) r n :
  one_receive a -> silent n ->
  exists n', retry_on_timeout r a n = (Err PacketReceive, n') /\ recvs n' = (recvs n + N.to_nat r + 1)%nat.
Proof.
  intros Ha Hn. unfold retry_on_timeout.
  destruct (retry_loop_silent a Ha (N.to_nat r) PacketReceive n Hn) as [n' [E [_ R]]].
  exists n'. split; [exact E|lia].
Qed.

(* send then receive is such an attempt, whatever is sent and whatever size is asked for *)
Lemma send_recv_one_receive port d size : one_receive (do* _ := send port d in udp_recv size).
Proof.
  intros n [Hu Hf]. unfold mbind, send. rewrite Hf. cbn [existsb]. unfold udp_recv. cbn [n_udp]. rewrite Hu.
  eexists. split; [reflexivity|]. split; [split; [reflexivity|cbn; first [reflexivity | exact Hf]]|]. unfold recvs. cbn. reflexivity.
Qed.

(* Quake: the retried unit is request + reply *)
Lemma quake_one_receive port v : one_receive (get_data_impl port v).
Proof.
  intros n [Hu Hf]. unfold get_data_impl, mbind, send. rewrite Hf. cbn [existsb]. unfold udp_recv. cbn [n_udp]. rewrite Hu.
  eexists. split; [reflexivity|]. split; [split; [reflexivity|cbn; first [reflexivity | exact Hf]]|]. unfold recvs. cbn. reflexivity.
Qed.
