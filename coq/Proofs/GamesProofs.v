(* C07: single-game protocols. Round trips of the parsers on the wire
   encodings of Spec/GamesSpec.v, for every state. *)
From GD Require Import Base.Prelude Model.Strings Model.StrOps Model.Buffer Model.Net Model.Valve Model.Gamespy Model.Games.
From GD Require Import Spec.ValveSpec Spec.GamespySpec Spec.GamesSpec.
From GD Require Import Proofs.BufferLemmas Proofs.ReadSpecs Proofs.Varint Proofs.ValveRoundtrip.
From Coq Require Import ZifyBool ZifyNat ZifyN Lia.

Lemma move_at : forall (x pre r : bytes),
  move_cursor (Z.of_nat (length x)) (at_ pre (x ++ r)) = (Ok tt, at_ (pre ++ x) r).
Proof.
  intros x pre r. unfold move_cursor, at_, cursor, data_length. cbn [pre_rev rest over].
  assert (H : ((Z.of_N (lenN (rev pre) + 0) + Z.of_nat (length x) <? 0)%Z
               || (Z.of_N (lenN (rev pre) + lenN (x ++ r)) <? Z.of_N (lenN (rev pre) + 0) + Z.of_nat (length x))%Z) = false).
  { unfold lenN. rewrite app_length. lia. }
  rewrite H. replace (Z.of_nat (length x) + Z.of_N 0)%Z with (Z.of_nat (length x)) by lia.
  replace (0 <=? Z.of_nat (length x))%Z with true by lia. cbv iota.
  rewrite Nat2Z.id, take_n_app, rev_append_at. reflexivity.
Qed.

Lemma read_u8_lt c pre r : read_u8 (at_ pre (c :: r)) = (Ok c, at_ (pre ++ [c]) r).
Proof. apply read_u8_at'. Qed.

Ltac step_cstr H := erewrite bind_ok by (rewrite <- ?app_assoc; apply read_cstr_at; exact H).
Ltac step_u8 := erewrite bind_ok by (rewrite <- ?app_assoc; cbn [app]; apply read_u8_lt).

(* ---- Savage 2 ---- *)
Definition wf_savage2 (s : sv2_state) : bool :=
  let r := ss_resp s in
  Nat.eqb (length (ss_header s)) 12 && no_nul (sv_name r) && no_nul (sv_time r) && no_nul (sv_map r) && no_nul (sv_next_map r)
  && no_nul (sv_location r) && no_nul (sv_game_mode r) && no_nul (sv_protocol_version r).

Theorem savage2_roundtrip : forall s, wf_savage2 s = true ->
  run_r savage2_parse (savage2_reply s) = Ok (ss_resp s).
Proof.
  intros s H. unfold wf_savage2 in H.
  repeat (apply andb_prop in H; destruct H as [H ?]).
  apply Nat.eqb_eq in H.
  destruct s as [[name on mx mn time mapn nx loc mode pv lv] hd]. cbn [ss_resp ss_header sv_name sv_players_online
    sv_players_maximum sv_players_minimum sv_time sv_map sv_next_map sv_location sv_game_mode sv_protocol_version sv_level_minimum] in *.
  unfold run_r, savage2_parse, savage2_reply. cbn [ss_resp ss_header sv_name sv_players_online
    sv_players_maximum sv_players_minimum sv_time sv_map sv_next_map sv_location sv_game_mode sv_protocol_version sv_level_minimum].
  change (buf_new ?d) with (at_ [] d).
  change 12%Z with (Z.of_nat 12). rewrite <- H.
  erewrite bind_ok by apply move_at.
  step_cstr H6. step_u8. step_u8.
  step_cstr H5. step_cstr H4. step_cstr H3. step_cstr H2. step_u8. step_cstr H1. step_cstr H0. step_u8.
  reflexivity.
Qed.

(* ---- Mindustry ---- *)
Definition lp_ok (s : bytes) : bool := no_nul s && (lenN s <? 256).
Definition i32_ok (z : Z) : bool := (- 2147483648 <=? z)%Z && (z <? 2147483648)%Z.
Definition gm_code (m : mgamemode) : N := match m with MSurvival => 0 | MSandbox => 1 | MAttack => 2 | MPVP => 3 | MEditor => 4 end.
Definition wf_mindustry (r : mindustry_data) : bool :=
  lp_ok (mi_host r) && lp_ok (mi_map r) && i32_ok (mi_players r) && i32_ok (mi_wave r) && i32_ok (mi_version r)
  && lp_ok (mi_version_type r) && i32_ok (mi_player_limit r) && lp_ok (mi_description r)
  && match mi_mode_name r with Some m => lp_ok m | None => true end.

Lemma read_lp_at s pre r : lp_ok s = true -> read_lp (at_ pre (lp s ++ r)) = (Ok s, at_ (pre ++ lp s) r).
Proof.
  intros H. unfold lp_ok in H. apply andb_prop in H. destruct H as [H1 H2]. apply no_nul_spec in H1. destruct H1 as [Hn Hv].
  unfold read_lp, lp. rewrite N.mod_small by lia. cbn [app].
  apply dec_utf8_lp_spec; [exact Hn|exact Hv|lia].
Qed.
Lemma read_i32be_at z pre r : i32_ok z = true ->
  read_i32be (at_ pre (be32z z ++ r)) = (Ok z, at_ (pre ++ be32z z) r).
Proof.
  intros H. unfold i32_ok in H. unfold read_i32be, read_int, bind, be32z.
  pose proof (read_raw_at (be_bytes 4 (of_signed 32 z)) pre r) as E.
  assert (L : length (be_bytes 4 (of_signed 32 z)) = 4%nat) by (unfold be_bytes; rewrite rev_length; apply le_bytes_length).
  rewrite L in E. rewrite E. unfold ret. f_equal. f_equal. change (8 * N.of_nat 4) with 32.
  rewrite val_of_be by (pose proof (of_signed32_lt z); cbn in *; lia).
  apply signed32_rt. lia.
Qed.
Lemma read_lp_end pre : fst (read_lp (at_ pre [])) = Err PacketBad.
Proof. reflexivity. Qed.

Theorem mindustry_roundtrip : forall r, wf_mindustry r = true ->
  run_r mindustry_parse (mindustry_reply r (gm_code (mi_gamemode r))) = Ok r.
Proof.
  intros r H. unfold wf_mindustry in H.
  do 8 (apply andb_prop in H; destruct H as [H ?]).
  destruct r as [host mapn pl wv vs vt gm lim desc mn].
  cbn [mi_host mi_map mi_players mi_wave mi_version mi_version_type mi_gamemode mi_player_limit mi_description mi_mode_name] in *.
  unfold run_r, mindustry_parse, mindustry_reply.
  cbn [mi_host mi_map mi_players mi_wave mi_version mi_version_type mi_gamemode mi_player_limit mi_description mi_mode_name].
  change (buf_new ?d) with (at_ [] d).
  erewrite bind_ok by (rewrite <- ?app_assoc; apply read_lp_at; assumption).
  erewrite bind_ok by (rewrite <- ?app_assoc; apply read_lp_at; assumption).
  erewrite bind_ok by (rewrite <- ?app_assoc; apply read_i32be_at; assumption).
  erewrite bind_ok by (rewrite <- ?app_assoc; apply read_i32be_at; assumption).
  erewrite bind_ok by (rewrite <- ?app_assoc; apply read_i32be_at; assumption).
  erewrite bind_ok by (rewrite <- ?app_assoc; apply read_lp_at; assumption).
  step_u8.
  erewrite bind_ok with (a := gm) by (destruct gm; reflexivity).
  erewrite bind_ok by (rewrite <- ?app_assoc; apply read_i32be_at; assumption).
  erewrite bind_ok by (rewrite <- ?app_assoc; apply read_lp_at; assumption).
  destruct mn as [m|].
  - rewrite <- (app_nil_r (lp m)). rewrite read_lp_at by assumption. reflexivity.
  - reflexivity.
Qed.

(* ---- Frontlines: Fuel of War (the payload after the packet header) ---- *)
Definition ffow_payload (s : ffow_state) : bytes := skipn 5 (ffow_reply s).
Theorem ffow_roundtrip : forall s,
  let r := fs_resp s in
  no_nul (ff_name r) = true -> no_nul (ff_map r) = true -> no_nul (ff_active_mod r) = true ->
  no_nul (ff_game_mode r) = true -> no_nul (ff_description r) = true -> no_nul (ff_game_version r) = true ->
  length (fs_skip s) = 2%nat -> ff_time_left r < 65536 ->
  server_type_from (fs_st s) = Ok (ff_server_type r) -> environment_from (fs_env s) = Ok (ff_environment_type r) ->
  ff_has_password r = (fs_pw s =? 1) -> ff_vac_secured r = (fs_vac s =? 1) ->
  run_r ffow_parse (ffow_payload s) = Ok r.
Proof.
  intros [[pv name amod mode ver desc mapn on mx stype env pw vac rd rm tl] st en pwb vacb skip fps].
  cbn [fs_resp fs_st fs_env fs_pw fs_vac fs_skip fs_fps ff_protocol_version ff_name ff_active_mod ff_game_mode ff_game_version
       ff_description ff_map ff_players_online ff_players_maximum ff_server_type ff_environment_type ff_has_password
       ff_vac_secured ff_round ff_rounds_maximum ff_time_left].
  intros H1 H2 H3 H4 H5 H6 Hs Htl Hst Hen Hpw Hvac.
  unfold run_r, ffow_parse, ffow_payload, ffow_reply.
  cbn [fs_resp fs_st fs_env fs_pw fs_vac fs_skip fs_fps ff_protocol_version ff_name ff_active_mod ff_game_mode ff_game_version
       ff_description ff_map ff_players_online ff_players_maximum ff_server_type ff_environment_type ff_has_password
       ff_vac_secured ff_round ff_rounds_maximum ff_time_left].
  cbn [app skipn].
  change (buf_new ?d) with (at_ [] d).
  step_u8.
  step_cstr H1. step_cstr H2. step_cstr H3. step_cstr H4. step_cstr H5. step_cstr H6.
  change 2%Z with (Z.of_nat 2). rewrite <- Hs.
  erewrite bind_ok by (rewrite <- ?app_assoc; apply move_at).
  step_u8. step_u8. step_u8.
  erewrite bind_ok by (rewrite Hst; apply lift_ok).
  step_u8.
  erewrite bind_ok by (rewrite Hen; apply lift_ok).
  step_u8. step_u8.
  erewrite bind_ok by (cbn [app]; apply move1_at).
  step_u8. step_u8.
  erewrite bind_ok by (cbn [app]; unfold read_u16le, le16; rewrite <- (app_nil_r (le_bytes 2 tl)); apply read_le_at; cbn; lia).
  unfold ret. cbn [fst]. rewrite Hpw, Hvac. reflexivity.
Qed.
