(* C12 (the part a model can carry): a Valve server that answers every request with a challenge and the challenged
   request with nothing.  One attempt = request, challenge, challenged request, silence: two receives, the second of
   which waits for the read timeout.  With r retries the unit performs exactly r + 1 such attempts - 2 (r + 1) receives,
   r + 1 of them timed out - fails with a timeout-class error and leaves the rest of the script alone. *)
From GD Require Import Base.Prelude Model.Strings Model.Buffer Model.Net Model.Valve Proofs.Retry Proofs.TimeoutProofs Proofs.RetryExhaust.
From Coq Require Import ZifyBool ZifyNat ZifyN Lia.

Section Valve.
  Variable bz : bytes -> N -> outcome bytes.
  Definition challenge_reply (c1 c2 c3 c4 : N) : bytes := [255; 255; 255; 255; 65; c1; c2; c3; c4].
  Definition challenged_then_silent (c1 c2 c3 c4 : N) : list udp_event := [Datagram (challenge_reply c1 c2 c3 c4); Timeout].

  Lemma valve_attempt_challenged_then_silent port e protocol kind payload c1 c2 c3 c4 (u : list udp_event) t sn cur tr :
    exists sn' tr',
      get_request_data_impl bz port e protocol kind payload (mknet (challenged_then_silent c1 c2 c3 c4 ++ u) t [] sn cur tr)
      = (Err PacketReceive, mknet u t [] sn' cur tr')
      /\ recvs (mknet u t [] sn' cur tr') = (recvs (mknet u t [] sn cur tr) + 2)%nat.
  Proof.
    unfold get_request_data_impl, challenged_then_silent, challenge_reply. cbn [app].
    unfold mbind at 1. unfold send at 1. cbn [n_fail existsb n_udp n_tcp n_sends n_cur n_trace].
    unfold mbind at 1. unfold receive at 1. unfold mbind at 1. unfold udp_recv at 1. cbn [n_fail n_udp n_tcp n_sends n_cur n_trace].
    change (firstn (N.to_nat packet_size) [255; 255; 255; 255; 65; c1; c2; c3; c4]) with [255; 255; 255; 255; 65; c1; c2; c3; c4].
    change (255 =? 254) with false. cbv iota.
    assert (Hp : packet_from [255; 255; 255; 255; 65; c1; c2; c3; c4] = Ok (65, [c1; c2; c3; c4])) by (vm_compute; reflexivity).
    rewrite Hp. unfold mlift. cbn [challenge_loop n_udp length].
    change (65 =? 65) with true. cbv iota.
    unfold mbind at 1. unfold send at 1. cbn [n_fail existsb n_udp n_tcp n_sends n_cur n_trace].
    do 2 eexists. split; [reflexivity|]. unfold recvs. cbn [n_trace filter length]. lia.
  Qed.

  Definition chal := (N * N * N * N)%type.
  Definition chal_events (c : chal) : list udp_event :=
    let '(c1, c2, c3, c4) := c in challenged_then_silent c1 c2 c3 c4.

  Lemma valve_attempts_challenged_then_silent port e protocol kind payload : forall (cs : list chal) (u : list udp_event) t sn cur tr,
    exists sn' tr',
      timeouts_then (get_request_data_impl bz port e protocol kind payload) (length cs)
                    (mknet (flat_map chal_events cs ++ u) t [] sn cur tr) (mknet u t [] sn' cur tr')
      /\ recvs (mknet u t [] sn' cur tr') = (recvs (mknet u t [] sn cur tr) + 2 * length cs)%nat.
  Proof.
    induction cs as [|[[[c1 c2] c3] c4] cs IH]; intros u t sn cur tr.
    - exists sn, tr. split; [apply tt_zero|cbn [length]; lia].
    - cbn [flat_map length chal_events]. rewrite <- app_assoc.
      destruct (valve_attempt_challenged_then_silent port e protocol kind payload c1 c2 c3 c4 (flat_map chal_events cs ++ u) t sn cur tr) as [sn1 [tr1 [E1 R1]]].
      destruct (IH u t sn1 cur tr1) as [sn2 [tr2 [T R2]]].
      exists sn2, tr2. split; [eapply tt_step; [exact E1|reflexivity|exact T]|].
      unfold recvs in *. cbn [n_trace] in *. lia.
  Qed.

  (* the retried unit against such a peer *)
  Theorem valve_unit_challenged_then_silent : forall port retries e protocol kind (cs : list chal) (u : list udp_event) t sn cur tr,
    length cs = S (N.to_nat retries) ->
    exists err sn' tr',
      get_request_data bz port retries e protocol kind (mknet (flat_map chal_events cs ++ u) t [] sn cur tr)
      = (Err err, mknet u t [] sn' cur tr')
      /\ timeout_class err = true
      /\ recvs (mknet u t [] sn' cur tr') = (recvs (mknet u t [] sn cur tr) + 2 * (N.to_nat retries + 1))%nat.
  Proof.
    intros port retries e protocol kind cs u t sn cur tr Hl. unfold get_request_data.
    destruct (valve_attempts_challenged_then_silent port e protocol kind (default_payload kind) cs u t sn cur tr) as [sn' [tr' [T R]]].
    rewrite Hl in T. destruct (retry_exhausted _ _ _ _ T) as [err [E He]].
    exists err, sn', tr'. split; [exact E|]. split; [exact He|]. rewrite R, Hl. lia.
  Qed.
End Valve.
