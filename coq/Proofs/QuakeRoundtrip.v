(* C05: decoding a conforming Quake status reply yields the server's state. *)
From GD Require Import Base.Prelude Model.Strings Model.StrOps Model.Buffer Model.Net Model.Valve Model.Quake Spec.QuakeSpec.
From GD Require Import Proofs.Utf8 Proofs.Str Proofs.BufferLemmas Proofs.ReadSpecs Proofs.Varint Proofs.ValveRoundtrip Proofs.ValveTransport.
From Coq Require Import ZifyBool ZifyNat ZifyN.

(* ---- numbers ---- *)
Lemma show_N_hd_digit : forall n, match show_N n with [] => False | c :: _ => 48 <= c /\ c <= 57 end.
Proof.
  intro n. pose proof (show_N_read n) as H. pose proof (show_N_digits n) as Hd.
  destruct (show_N n) as [|c r]; [discriminate|]. apply Hd. left. reflexivity.
Qed.
Lemma parse_unsigned_show : forall bound n, n <= bound -> parse_unsigned bound (show_N n) = Some n.
Proof.
  intros bound n H. unfold parse_unsigned. pose proof (show_N_hd_digit n) as Hh. pose proof (show_N_read n) as Hr.
  destruct (show_N n) as [|c r] eqn:E; [contradiction|].
  destruct (c =? 43) eqn:Ec; [lia|]. rewrite Hr. destruct (n <=? bound) eqn:Eb; [reflexivity|lia].
Qed.
Lemma parse_u_show : forall bound n, n <= bound -> parse_u bound (show_N n) = Ok n.
Proof. intros. unfold parse_u. rewrite parse_unsigned_show by assumption. reflexivity. Qed.
Lemma parse_i32_show : forall z, (- 2147483648 <= z < 2147483648)%Z -> parse_i32 (show_Z z) = Ok z.
Proof.
  intros z Hz. unfold parse_i32, parse_signed. destruct z as [|p|p]; cbn [show_Z].
  - reflexivity.
  - pose proof (show_N_hd_digit (N.pos p)) as Hh. pose proof (parse_unsigned_show (2 ^ (32 - 1) - 1) (N.pos p)) as Hp.
    destruct (show_N (N.pos p)) as [|c r] eqn:E; [contradiction|]. destruct (c =? 45) eqn:Ec; [lia|].
    rewrite Hp by (change (2 ^ (32 - 1) - 1) with 2147483647; lia). reflexivity.
  - change (45 =? 45) with true. cbv iota. rewrite show_N_read. change (2 ^ (32 - 1)) with 2147483648.
    destruct (N.pos p <=? 2147483648) eqn:E; [reflexivity|lia].
Qed.

(* ---- quotes ---- *)
Lemma ends_with_app : forall c l, ends_with_byte c (l ++ [c]) = true.
Proof.
  intros c l. induction l as [|x l IH]; cbn [app ends_with_byte]; [apply N.eqb_refl|].
  destruct (l ++ [c]) eqn:E; [destruct l; discriminate|]. exact IH.
Qed.
Lemma remove_quotes_quoted : forall s, remove_wrapping_quotes (quote s) = s.
Proof.
  intro s. unfold remove_wrapping_quotes, quote. cbn [app].
  assert (H1 : 2 <=? lenN (34 :: s ++ [34]) = true) by (unfold lenN; cbn [length]; rewrite app_length; cbn [length]; lia).
  rewrite H1. change (34 :: s ++ [34]) with ([34] ++ (s ++ [34])).
  assert (H2 : ends_with_byte 34 ([34] ++ s ++ [34]) = true).
  { rewrite app_assoc. apply ends_with_app. }
  rewrite H2. cbn [andb]. apply removelast_last.
Qed.
Lemma remove_quotes_bare : forall s, forallb (fun c => negb (c =? 34)) s = true -> remove_wrapping_quotes s = s.
Proof.
  intros s H. unfold remove_wrapping_quotes. destruct s as [|c r]; [reflexivity|].
  cbn [forallb] in H. apply andb_prop in H. destruct H as [H _].
  destruct c as [|p]; [reflexivity|]. destruct (N.eq_dec (N.pos p) 34) as [E|E]; [rewrite E in H; discriminate|].
  destruct p as [p|p|]; try reflexivity; destruct p as [p|p|]; try reflexivity; destruct p as [p|p|]; try reflexivity;
  destruct p as [p|p|]; try reflexivity; destruct p as [p|p|]; try reflexivity; destruct p as [p|p|]; try reflexivity; lia.
Qed.

(* ---- player line tokenisation ---- *)
(* a bare field: no space, no quote *)
Definition bare (s : bytes) : Prop := ~ In 32 s /\ ~ In 34 s.
Lemma split_line_bare : forall s rest q cur, ~ In 34 s -> (q = true \/ ~ In 32 s) ->
  split_line (s ++ rest) q cur = split_line rest q (rev s ++ cur).
Proof.
  induction s as [|c s IH]; intros rest q cur Hq Hs; [reflexivity|].
  cbn [app split_line]. destruct (c =? 34) eqn:E1; [exfalso; apply Hq; left; lia|].
  assert (E2 : (c =? 32) && negb q = false).
  { destruct Hs as [->|Hs]; [apply andb_false_r|]. destruct (c =? 32) eqn:E; [exfalso; apply Hs; left; lia|reflexivity]. }
  rewrite E2. rewrite IH.
  - cbn [rev]. rewrite <- app_assoc. reflexivity.
  - intro H. apply Hq. right. exact H.
  - destruct Hs as [->|Hs]; [left; reflexivity|right; intro H; apply Hs; right; exact H].
Qed.
Lemma split_line_quoted : forall s rest cur, ~ In 34 s ->
  split_line (quote s ++ rest) false cur = split_line rest false (rev (quote s) ++ cur).
Proof.
  intros s rest cur Hq. unfold quote. cbn [app split_line]. change (34 =? 34) with true. cbv iota. cbn [negb].
  rewrite <- app_assoc. rewrite split_line_bare by (try exact Hq; left; reflexivity).
  cbn [app split_line]. change (34 =? 34) with true. cbv iota. cbn [negb].
  f_equal. cbn [rev]. rewrite rev_app_distr. cbn [rev app]. repeat (rewrite <- app_assoc; cbn [app]). reflexivity.
Qed.

(* a field as it appears on the wire, and what it splits into *)
Definition field_ok (f : bytes) : Prop := bare f \/ exists s, f = quote s /\ ~ In 34 s.
Lemma split_line_field : forall f rest cur, field_ok f ->
  split_line (f ++ rest) false cur = split_line rest false (rev f ++ cur).
Proof.
  intros f rest cur [[H1 H2]|[s [-> Hs]]].
  - apply split_line_bare; [exact H2|right; exact H1].
  - apply split_line_quoted. exact Hs.
Qed.
Lemma split_line_fields : forall fs f, Forall field_ok (f :: fs) ->
  split_player_line (f ++ concat (map (fun x => sp ++ x) fs)) = f :: fs.
Proof.
  unfold split_player_line.
  assert (G : forall fs f cur, Forall field_ok (f :: fs) ->
    split_line (f ++ concat (map (fun x => sp ++ x) fs)) false cur = (rev cur ++ f) :: fs).
  { induction fs as [|g fs IH]; intros f cur H; inversion H as [|x xs Hf Hfs]; subst.
    - cbn [map concat]. rewrite split_line_field by exact Hf. cbn [split_line]. rewrite rev_app_distr, rev_involutive. reflexivity.
    - cbn [map concat]. rewrite split_line_field by exact Hf. unfold sp at 1. cbn [app split_line].
      change (32 =? 34) with false. change (32 =? 32) with true. cbn [negb andb]. cbv iota.
      rewrite rev_app_distr, rev_involutive. f_equal. rewrite (IH g [] Hfs). reflexivity. }
  intros fs f H. rewrite (G fs f [] H). reflexivity.
Qed.

(* ---- one player line ---- *)
Lemma show_N_bare : forall n, bare (show_N n).
Proof. intro n. split; intro H; apply show_N_digits in H; lia. Qed.
Lemma show_Z_bare : forall z, bare (show_Z z).
Proof.
  intros [|p|p]; cbn [show_Z]; try apply show_N_bare.
  - split; intros [H|[]]; discriminate.
  - split; (intros [H|H]; [discriminate|apply show_N_digits in H; lia]).
Qed.
Lemma name_text_no_quote : forall s, name_text s = true -> ~ In 34 s.
Proof.
  intros s H Hin. unfold name_text in H. apply andb_prop in H. destruct H as [_ H]. rewrite forallb_forall in H.
  specialize (H 34 Hin). discriminate.
Qed.
Lemma name_text_forall_no_quote : forall s, name_text s = true -> forallb (fun c => negb (c =? 34)) s = true.
Proof.
  intros s H. unfold name_text in H. apply andb_prop in H. destruct H as [_ H]. rewrite forallb_forall in *.
  intros c Hc. specialize (H c Hc). lia.
Qed.
Lemma bare_text_bare : forall s, bare_text s = true -> bare s.
Proof.
  intros s H. unfold bare_text in H. apply andb_prop in H. destruct H as [H _]. apply andb_prop in H. destruct H as [H1 H2].
  split; [|apply name_text_no_quote; exact H1]. intro Hin. rewrite forallb_forall in H2. specialize (H2 32 Hin). discriminate.
Qed.

(* the name field as sent: quoted, or bare when it is a non-empty word *)
Definition name_field (q : bool) (s : bytes) : bytes := if q then quote s else s.
Definition name_ok (q : bool) (s : bytes) : bool := name_text s && (q || bare_text s).
Lemma name_field_ok : forall q s, name_ok q s = true -> field_ok (name_field q s) /\ remove_wrapping_quotes (name_field q s) = s.
Proof.
  intros q s H. unfold name_ok in H. apply andb_prop in H. destruct H as [Hn Hq]. unfold name_field. destruct q.
  - split; [right; exists s; split; [reflexivity|apply name_text_no_quote; exact Hn]|apply remove_quotes_quoted].
  - cbn [orb] in Hq. split; [left; apply bare_text_bare; exact Hq|apply remove_quotes_bare, name_text_forall_no_quote; exact Hn].
Qed.
Lemma quoted_field_ok : forall s, name_text s = true -> field_ok (quote s) /\ remove_wrapping_quotes (quote s) = s.
Proof. intros s H. exact (name_field_ok true s ltac:(unfold name_ok; rewrite H; reflexivity)). Qed.

Definition wf_qplayer (v : qver) (q : bool) (p : qplayer) : bool :=
  match v, p with
  | Q1, P1 p => (q1_id p <? 256) && (q1_score p <? 65536) && (q1_time p <? 65536) && (q1_ping p <? 65536)
                && name_ok q (q1_name p) && name_text (q1_skin p) && (q1_color_primary p <? 256) && (q1_color_secondary p <? 256)
  | Q1, P2 _ => false
  | _, P2 p => ((- 2147483648 <=? q2_score p)%Z && (q2_score p <? 2147483648)%Z) && (q2_ping p <? 65536)
               && name_ok q (q2_name p) && match q2_address p with Some a => name_text a | None => true end
  | _, P1 _ => false
  end.

Ltac fields_ok :=
  repeat match goal with
         | |- Forall _ (_ :: _) => apply Forall_cons; [first [left; apply show_N_bare|left; apply show_Z_bare|assumption]|]
         | |- Forall _ [] => apply Forall_nil
         end.

Lemma line_decodes : forall v q p, wf_qplayer v q p = true ->
  parse_player v (split_player_line (enc_player_line q p)) = Ok p.
Proof.
  intros v q p H. destruct p as [p|p].
  - destruct v; try discriminate. destruct p as [id sc ti pi nm sk c1 c2]. cbn [wf_qplayer q1_id q1_score q1_time q1_ping q1_name q1_skin q1_color_primary q1_color_secondary] in H.
    repeat (apply andb_prop in H; destruct H as [H ?]).
    destruct (name_field_ok q nm ltac:(assumption)) as [Fn Rn]. destruct (quoted_field_ok sk ltac:(assumption)) as [Fs Rs].
    unfold enc_player_line. cbn [q1_id q1_score q1_time q1_ping q1_name q1_skin q1_color_primary q1_color_secondary].
    change (if q then quote nm else nm) with (name_field q nm).
    replace (show_N id ++ sp ++ show_N sc ++ sp ++ show_N ti ++ sp ++ show_N pi ++ sp ++ name_field q nm ++ sp ++ quote sk ++ sp ++ show_N c1 ++ sp ++ show_N c2)
      with (show_N id ++ concat (map (fun x => sp ++ x) [show_N sc; show_N ti; show_N pi; name_field q nm; quote sk; show_N c1; show_N c2]))
      by (cbn [map concat]; repeat rewrite <- app_assoc; rewrite app_nil_r; reflexivity).
    rewrite split_line_fields by fields_ok.
    unfold parse_player, parse_q1_player, nth_field. cbn [nth_error need obind].
    rewrite !parse_u_show by lia. cbn [obind]. rewrite Rn, Rs. reflexivity.
  - destruct v; try discriminate; destruct p as [sc pi nm ad]; cbn [wf_qplayer q2_score q2_ping q2_name q2_address] in H;
      repeat (apply andb_prop in H; destruct H as [H ?]);
      destruct (name_field_ok q nm ltac:(assumption)) as [Fn Rn];
      unfold enc_player_line; cbn [q2_score q2_ping q2_name q2_address];
      change (if q then quote nm else nm) with (name_field q nm);
      (destruct ad as [a|];
       [ destruct (quoted_field_ok a ltac:(assumption)) as [Fa Ra];
         replace (show_Z sc ++ sp ++ show_N pi ++ sp ++ name_field q nm ++ sp ++ quote a)
           with (show_Z sc ++ concat (map (fun x => sp ++ x) [show_N pi; name_field q nm; quote a]))
           by (cbn [map concat]; repeat rewrite <- app_assoc; rewrite app_nil_r; reflexivity);
         rewrite split_line_fields by fields_ok;
         unfold parse_player, parse_q2_player, nth_field; cbn [nth_error need obind option_map];
         rewrite parse_i32_show by lia; cbn [obind]; rewrite parse_u_show by lia; cbn [obind]; rewrite Rn, Ra; reflexivity
       | replace (show_Z sc ++ sp ++ show_N pi ++ sp ++ name_field q nm ++ [])
           with (show_Z sc ++ concat (map (fun x => sp ++ x) [show_N pi; name_field q nm]))
           by (cbn [map concat]; repeat rewrite <- app_assoc; rewrite ?app_nil_r; reflexivity);
         rewrite split_line_fields by fields_ok;
         unfold parse_player, parse_q2_player, nth_field; cbn [nth_error need obind option_map];
         rewrite parse_i32_show by lia; cbn [obind]; rewrite parse_u_show by lia; cbn [obind]; rewrite Rn; reflexivity ]).
Qed.

(* ---- text facts: what the encoder emits is valid UTF-8 without newline ---- *)
Definition clean10 (s : bytes) : Prop := utf8_valid s = true /\ ~ In 10 s.
Lemma clean10_app : forall a b, clean10 a -> clean10 b -> clean10 (a ++ b).
Proof.
  intros a b [A1 A2] [B1 B2]. split; [apply utf8_valid_app; assumption|].
  intro H. apply in_app_or in H. destruct H; contradiction.
Qed.
Lemma clean10_digits : forall n, clean10 (show_N n).
Proof.
  intro n. split.
  - apply utf8_valid_ascii. rewrite forallb_forall. intros c Hc. apply show_N_digits in Hc. lia.
  - intro H. apply show_N_digits in H. lia.
Qed.
Lemma clean10_showZ : forall z, clean10 (show_Z z).
Proof.
  intros [|p|p]; cbn [show_Z]; try apply clean10_digits.
  - split; [reflexivity|intros [H|[]]; discriminate].
  - change (45 :: show_N (N.pos p)) with ([45] ++ show_N (N.pos p)). apply clean10_app; [|apply clean10_digits].
    split; [reflexivity|intros [H|[]]; discriminate].
Qed.
Lemma clean10_single : forall c, c < 128 -> c <> 10 -> clean10 [c].
Proof.
  intros c H1 H2. split; [cbn [utf8_valid]; destruct (c <? 128) eqn:E; [reflexivity|lia]|intros [H|[]]; congruence].
Qed.
Lemma clean10_name : forall s, name_text s = true -> clean10 s.
Proof.
  intros s H. unfold name_text in H. apply andb_prop in H. destruct H as [H1 H2]. split; [exact H1|].
  intro Hin. rewrite forallb_forall in H2. specialize (H2 10 Hin). discriminate.
Qed.
Lemma clean10_quote : forall s, name_text s = true -> clean10 (quote s).
Proof.
  intros s H. unfold quote. apply clean10_app; [apply clean10_single; lia|].
  apply clean10_app; [apply clean10_name; exact H|apply clean10_single; lia].
Qed.
Lemma clean10_sp : clean10 sp.
Proof. apply clean10_single; lia. Qed.

Lemma line_clean : forall v q p, wf_qplayer v q p = true -> clean10 (enc_player_line q p).
Proof.
  intros v q p H. destruct p as [p|p].
  - destruct v; try discriminate. destruct p as [id sc ti pi nm sk c1 c2]. cbn [wf_qplayer q1_id q1_score q1_time q1_ping q1_name q1_skin q1_color_primary q1_color_secondary] in H.
    repeat (apply andb_prop in H; destruct H as [H ?]).
    match goal with Hn : name_ok q nm = true |- _ => unfold name_ok in Hn; apply andb_prop in Hn; destruct Hn as [Hn _] end.
    unfold enc_player_line. cbn [q1_id q1_score q1_time q1_ping q1_name q1_skin q1_color_primary q1_color_secondary].
    repeat first [apply clean10_digits | apply clean10_sp | apply clean10_quote; assumption
                 | (destruct q; [apply clean10_quote|apply clean10_name]); assumption | apply clean10_app].
  - destruct v; try discriminate; destruct p as [sc pi nm ad]; cbn [wf_qplayer q2_score q2_ping q2_name q2_address] in H;
      repeat (apply andb_prop in H; destruct H as [H ?]);
      match goal with Hn : name_ok q nm = true |- _ => unfold name_ok in Hn; apply andb_prop in Hn; destruct Hn as [Hn _] end;
      unfold enc_player_line; cbn [q2_score q2_ping q2_name q2_address];
      repeat first [apply clean10_digits | apply clean10_showZ | apply clean10_sp
                   | (destruct q; [apply clean10_quote|apply clean10_name]); assumption
                   | (destruct ad as [a|]; [apply clean10_app; [apply clean10_sp|apply clean10_quote; assumption]|split; [reflexivity|intros []]])
                   | apply clean10_app].
Qed.

(* ---- the player lines ---- *)
Lemma read_line_at : forall line pre rest, clean10 line ->
  dec_utf8 10 (at_ pre (line ++ 10 :: rest)) = (Ok line, at_ (pre ++ line ++ [10]) rest).
Proof. intros line pre rest [H1 H2]. apply dec_utf8_terminated; assumption. Qed.

Fixpoint wf_lines (v : qver) (qs : list bool) (ps : list qplayer) : bool :=
  match ps with [] => true | p :: r => wf_qplayer v (hd true qs) p && wf_lines v (tl qs) r end.

Lemma players_decode : forall v ps qs acc pre fuel (nul : bool), wf_lines v qs ps = true ->
  (length (enc_lines qs ps) < fuel)%nat ->
  fst (get_players fuel v acc (at_ pre (enc_lines qs ps ++ (if nul then [0] else [])))) = Ok (rev acc ++ ps).
Proof.
  intros v ps. induction ps as [|p ps IH]; intros qs acc pre fuel nul Hwf Hf.
  - destruct fuel as [|f]; [cbn in Hf; lia|]. cbn [enc_lines app get_players]. unfold remaining_bytes, at_. cbn [over rest N.eqb].
    rewrite app_nil_r. destruct nul; reflexivity.
  - destruct fuel as [|f]; [cbn in Hf; lia|]. cbn [wf_lines] in Hwf. apply andb_prop in Hwf. destruct Hwf as [Hp Hps].
    cbn [enc_lines]. repeat rewrite <- app_assoc. cbn [app].
    set (line := enc_player_line (hd true qs) p). set (more := enc_lines (tl qs) ps ++ (if nul then [0] else [])).
    cbn [get_players]. unfold remaining_bytes. cbn [at_ over rest N.eqb].
    assert (Hbranch : forall (X : outcome (list qplayer) * buf) (Y : outcome (list qplayer) * buf),
              match line ++ 10 :: more with [] => X | [0] => X | _ => Y end = Y).
    { intros X Y. destruct line as [|c l]; cbn [app]; [reflexivity|].
      destruct c; [destruct (l ++ 10 :: more) eqn:E; [destruct l; discriminate|reflexivity]|reflexivity]. }
    rewrite Hbranch.
    erewrite bind_ok by (apply read_line_at; apply (line_clean v); exact Hp).
    subst line. rewrite (line_decodes v _ p Hp). erewrite bind_ok by reflexivity.
    subst more. rewrite (IH (tl qs) (p :: acc) _ f nul Hps).
    + cbn [rev]. rewrite <- app_assoc. reflexivity.
    + cbn [enc_lines] in Hf. rewrite !app_length in Hf. cbn [length] in Hf. lia.
Qed.

(* ---- the variables ---- *)
Definition var_ok (kv : bytes * bytes) : bool := var_text (fst kv) && var_text (snd kv).
Lemma var_text_props : forall s, var_text s = true -> clean10 s /\ no_delim 92 s.
Proof.
  intros s H. unfold var_text in H. apply andb_prop in H. destruct H as [H1 H2]. rewrite forallb_forall in H2.
  split; [split; [exact H1|]|]; intro Hin; specialize (H2 _ Hin); discriminate.
Qed.
Lemma pairs2_flat : forall l : list (bytes * bytes), pairs2 (flat_kv l) = l.
Proof. induction l as [|[k v] l IH]; [reflexivity|]. cbn [flat_kv pairs2]. rewrite IH. reflexivity. Qed.

Lemma vars_decode : forall vars pre rest, forallb var_ok vars = true ->
  get_server_values (at_ pre (concat (map kvb vars) ++ 10 :: rest))
  = (Ok (fold_left (fun m kv => map_insert (fst kv) (snd kv) m) vars []), at_ (pre ++ concat (map kvb vars) ++ [10]) rest).
Proof.
  intros vars pre rest Hwf.
  assert (Hc : clean10 (concat (map kvb vars))).
  { clear pre rest. induction vars as [|[k v] vars IH]; [split; [reflexivity|intros []]|].
    cbn [forallb] in Hwf. apply andb_prop in Hwf. destruct Hwf as [Hkv Hrest]. unfold var_ok in Hkv. cbn [fst snd] in Hkv.
    apply andb_prop in Hkv. destruct Hkv as [Hk Hv].
    cbn [map concat]. unfold kvb at 1. cbn [fst snd]. repeat rewrite <- app_assoc.
    apply clean10_app; [apply clean10_single; lia|]. apply clean10_app; [apply (var_text_props k Hk)|].
    apply clean10_app; [apply clean10_single; lia|]. apply clean10_app; [apply (var_text_props v Hv)|apply IH; exact Hrest]. }
  unfold get_server_values. erewrite bind_ok by (apply read_line_at; exact Hc). unfold ret. f_equal. f_equal.
  destruct vars as [|[k v] vars]; [reflexivity|].
  cbn [forallb] in Hwf. apply andb_prop in Hwf. destruct Hwf as [Hkv Hrest].
  cbn [map concat]. unfold kvb at 1. cbn [fst snd app]. unfold split. cbn [split_on]. change (92 =? 92) with true. cbv iota. cbn [rev].
  rewrite <- app_assoc. cbn [app].
  change (split_on 92 (k ++ 92 :: v ++ concat (map kvb vars)) []) with (split 92 (k ++ [92] ++ v ++ concat (map (chunk 92) vars))).
  rewrite split_chunks.
  - change (k :: v :: flat_kv vars) with (flat_kv ((k, v) :: vars)). rewrite pairs2_flat. reflexivity.
  - constructor.
    + unfold var_ok in Hkv. cbn [fst snd] in *. apply andb_prop in Hkv. destruct Hkv as [Hk Hv].
      split; [apply (var_text_props k Hk)|apply (var_text_props v Hv)].
    + rewrite forallb_forall in Hrest. apply Forall_forall. intros kv Hin. specialize (Hrest kv Hin). unfold var_ok in Hrest.
      apply andb_prop in Hrest. destruct Hrest as [Hk Hv]. split; [apply (var_text_props _ Hk)|apply (var_text_props _ Hv)].
Qed.

(* with pairwise distinct keys the variable map is the variable list itself *)
Lemma map_insert_fresh : forall k v m, existsb (fun x => bytes_eqb (fst x) k) m = false -> map_insert k v m = m ++ [(k, v)].
Proof.
  intros k v m. induction m as [|[k' v'] m IH]; intro H; [reflexivity|]. cbn [existsb fst] in H. apply orb_false_elim in H. destruct H as [H1 H2].
  cbn [map_insert app]. assert (E : bytes_eqb k k' = false).
  { clear - H1. revert k' H1. induction k as [|a k IHk]; intros [|b k'] H; cbn [bytes_eqb] in *; try reflexivity; try discriminate.
    rewrite N.eqb_sym. destruct (b =? a); [cbn [andb] in *; apply IHk; exact H|reflexivity]. }
  rewrite E, IH by exact H2. reflexivity.
Qed.
