(* C17 read specifications: fixed-width reads and string reads. *)
From GD Require Import Base.Prelude Model.Strings Model.Buffer Proofs.BufferLemmas.
From Coq Require Import ZifyBool ZifyNat ZifyN.
Ltac Zify.zify_post_hook ::= Z.div_mod_to_equations.

(* a fixed-width read returns the bytes at the cursor, in the reader's byte
   order, and advances by exactly the width *)
Lemma read_uint_at : forall be (x pre r : bytes),
  read_uint be (length x) (at_ pre (x ++ r)) = (Ok (val_of be x), at_ (pre ++ x) r).
Proof. intros. unfold read_uint, bind. rewrite read_raw_at. reflexivity. Qed.

Lemma read_int_at : forall be (x pre r : bytes),
  read_int be (length x) (at_ pre (x ++ r))
  = (Ok (to_signed (8 * N.of_nat (length x)) (val_of be x)), at_ (pre ++ x) r).
Proof. intros. unfold read_int, bind. rewrite read_raw_at. reflexivity. Qed.

(* ... or fails leaving the position unchanged *)
Lemma read_uint_short : forall be w b, buf_inv b -> (length (rest b) < w)%nat ->
  read_uint be w b = (Err PacketUnderflow, b).
Proof. intros. unfold read_uint, bind. rewrite read_raw_short by assumption. reflexivity. Qed.
Lemma read_int_short : forall be w b, buf_inv b -> (length (rest b) < w)%nat ->
  read_int be w b = (Err PacketUnderflow, b).
Proof. intros. unfold read_int, bind. rewrite read_raw_short by assumption. reflexivity. Qed.

(* val_of is the positional value: it inverts the standard encodings *)
Lemma le_val_le_bytes : forall n v, v < 256 ^ N.of_nat n -> le_val (le_bytes n v) = v.
Proof.
  induction n as [|n IH]; intros v Hv.
  - cbn in *. lia.
  - cbn [le_bytes le_val]. rewrite IH.
    + pose proof (N.div_mod v 256). lia.
    + rewrite Nat2N.inj_succ, N.pow_succ_r' in Hv. apply N.div_lt_upper_bound; lia.
Qed.
Lemma be_val_rev : forall l, be_val (rev l) = le_val l.
Proof.
  unfold be_val. induction l as [|x l IH]; [reflexivity|].
  cbn [rev le_val]. rewrite fold_left_app. cbn [fold_left]. rewrite IH. lia.
Qed.
Lemma val_of_le : forall n v, v < 256 ^ N.of_nat n -> val_of false (le_bytes n v) = v.
Proof. intros. apply le_val_le_bytes. assumption. Qed.
Lemma val_of_be : forall n v, v < 256 ^ N.of_nat n -> val_of true (be_bytes n v) = v.
Proof. intros. unfold val_of, be_bytes. rewrite be_val_rev. apply le_val_le_bytes. assumption. Qed.
Lemma le_bytes_length : forall n v, length (le_bytes n v) = n.
Proof. induction n; intro v; cbn; [reflexivity|rewrite IHn; reflexivity]. Qed.

(* --- strings --- *)

Lemma span_until_notin : forall (d : N) (s r : bytes), ~ In d s ->
  span_until (N.eqb d) (s ++ d :: r) = (s, d :: r).
Proof.
  induction s as [|x s IH]; intros r Hn; cbn [app span_until].
  - rewrite N.eqb_refl. reflexivity.
  - destruct (d =? x) eqn:E; [exfalso; apply Hn; left; lia|].
    rewrite IH; [reflexivity|]. intro H. apply Hn. right. exact H.
Qed.
Lemma span_until_notin_end : forall (d : N) (s : bytes), ~ In d s -> span_until (N.eqb d) s = (s, []).
Proof.
  induction s as [|x s IH]; intros Hn; cbn [span_until]; [reflexivity|].
  destruct (d =? x) eqn:E; [exfalso; apply Hn; left; lia|].
  rewrite IH; [reflexivity|]. intro H. apply Hn. right. exact H.
Qed.

(* Utf8Decoder: consumes exactly the string and its delimiter ... *)
Lemma dec_utf8_terminated : forall d s pre r, ~ In d s -> utf8_valid s = true ->
  dec_utf8 d (at_ pre (s ++ d :: r)) = (Ok s, at_ (pre ++ s ++ [d]) r).
Proof.
  intros d s pre r Hn Hv. unfold dec_utf8, with_slice. cbn [at_ over rest N.eqb].
  rewrite span_until_notin by exact Hn. rewrite Hv. f_equal.
  replace (Nat.min (length s + 1) (length (s ++ d :: r))) with (length (s ++ [d]))
    by (rewrite !app_length; cbn [length]; lia).
  replace (s ++ d :: r) with ((s ++ [d]) ++ r) by (rewrite <- app_assoc; reflexivity).
  apply (advance_at (s ++ [d]) pre r).
Qed.
(* ... or the rest of the packet when unterminated *)
Lemma dec_utf8_unterminated : forall d s pre, ~ In d s -> utf8_valid s = true ->
  dec_utf8 d (at_ pre s) = (Ok s, at_ (pre ++ s) []).
Proof.
  intros d s pre Hn Hv. unfold dec_utf8, with_slice. cbn [at_ over rest N.eqb].
  rewrite span_until_notin_end by exact Hn. rewrite Hv. f_equal.
  replace (Nat.min (length s + 1) (length s)) with (length s) by lia.
  pose proof (advance_at s pre []) as H. rewrite app_nil_r in H. exact H.
Qed.
(* invalid text is an error and the position is unchanged *)
Lemma dec_utf8_invalid : forall d b, buf_inv b ->
  utf8_valid (fst (span_until (N.eqb d) (rest b))) = false -> dec_utf8 d b = (Err PacketBad, b).
Proof.
  intros d b Hi Hv. unfold dec_utf8, with_slice. rewrite Hi. cbn [N.eqb].
  destruct (span_until (N.eqb d) (rest b)) as [s aft]. cbn [fst] in Hv. rewrite Hv. reflexivity.
Qed.

(* Utf8LengthPrefixedDecoder *)
Lemma firstn_app_exact : forall (s r : bytes), firstn (length s) (s ++ r) = s.
Proof. intros. rewrite firstn_app, Nat.sub_diag, firstn_all. cbn. apply app_nil_r. Qed.

Lemma dec_utf8_lp_spec : forall d s pre r, ~ In d s -> utf8_valid s = true -> lenN s < 256 ->
  dec_utf8_lp d (at_ pre (lenN s :: s ++ r)) = (Ok s, at_ (pre ++ lenN s :: s) r).
Proof.
  intros d s pre r Hn Hv Hl.
  assert (E : N.to_nat (lenN s) = length s) by (unfold lenN; lia).
  unfold dec_utf8_lp, with_slice. cbn [at_ over rest N.eqb].
  rewrite !E, firstn_app_exact, span_until_notin_end by exact Hn.
  rewrite take_n_app, Hv. f_equal.
  replace (length s + 1)%nat with (length (lenN s :: s)) by (cbn [length]; lia).
  apply (advance_at (lenN s :: s) pre r).
Qed.
Lemma dec_utf8_lp_short : forall d len tl pre, ~ In d tl -> (length tl < N.to_nat len)%nat ->
  dec_utf8_lp d (at_ pre (len :: tl)) = (Err PacketUnderflow, at_ pre (len :: tl)).
Proof.
  intros d len tl pre Hn Hl. unfold dec_utf8_lp, with_slice. cbn [at_ over rest N.eqb].
  rewrite firstn_all2 by lia. rewrite span_until_notin_end by exact Hn.
  destruct (take_n (N.to_nat len) tl) as [[a c]|] eqn:E; [|reflexivity].
  apply take_n_spec in E. destruct E as [E1 E2]. rewrite E1, app_length in Hl. lia.
Qed.
