(* C04, GameSpy 2: for every well-formed server state the reply the server puts
   on the wire is decoded to exactly that state: every variable, every player
   and team cell, whatever the order of the table's columns and whatever
   unknown columns it carries. *)
From GD Require Import Base.Prelude Model.Strings Model.StrOps Model.Buffer Model.Net Model.Valve Model.Gamespy.
From GD Require Import Spec.ValveSpec Spec.QuakeSpec Spec.GamespySpec.
From GD Require Import Proofs.BufferLemmas Proofs.ReadSpecs Proofs.Str Proofs.Utf8 Proofs.ValveRoundtrip Proofs.QuakeRoundtrip Proofs.GamesProofs
  Proofs.GamespyProofs Proofs.IdProofs.
From Coq Require Import ZifyBool ZifyNat ZifyN Lia.

Notation gcstr := GamespySpec.cstr.
Lemma gcstr_eq s : gcstr s = ValveSpec.cstr s.
Proof. reflexivity. Qed.

Lemma cstr_at s pre r : no_nul s = true -> Gamespy.read_cstr (at_ pre (s ++ 0 :: r)) = (Ok s, at_ (pre ++ s ++ [0]) r).
Proof.
  intros H. pose proof (read_cstr_at s pre r H) as E. unfold ValveSpec.cstr in E. rewrite <- app_assoc in E. exact E.
Qed.
Lemma cstr_at_nil pre r : Gamespy.read_cstr (at_ pre (0 :: r)) = (Ok [], at_ (pre ++ [0]) r).
Proof. exact (cstr_at [] pre r eq_refl). Qed.

(* one byte back *)
Lemma move_back1 c pre r : move_cursor (-1) (at_ (pre ++ [c]) r) = (Ok tt, at_ pre (c :: r)).
Proof.
  unfold move_cursor, at_, cursor, data_length. cbn [pre_rev rest over]. rewrite rev_unit.
  assert (H : ((Z.of_N (lenN (c :: rev pre) + 0) + -1 <? 0)%Z
               || (Z.of_N (lenN (c :: rev pre) + lenN r) <? Z.of_N (lenN (c :: rev pre) + 0) + -1)%Z) = false).
  { unfold lenN. cbn [length]. lia. }
  rewrite H. reflexivity.
Qed.

(* ---------- the variables ---------- *)
Definition enc_kv (kv : bytes * bytes) : bytes := gcstr (fst kv) ++ gcstr (snd kv).
Definition nonempty (s : bytes) : bool := match s with [] => false | _ => true end.
Definition kv_ok (kv : bytes * bytes) : bool := no_nul (fst kv) && no_nul (snd kv) && nonempty (fst kv).

Lemma remaining_at pre r : remaining_length (at_ pre r) = Ok (lenN r).
Proof. reflexivity. Qed.

Lemma vars_loop_at : forall kvs fuel m pre r, forallb kv_ok kvs = true ->
  (length (flat_map enc_kv kvs) + 2 + length r < fuel)%nat ->
  gs2_vars_loop fuel m (at_ pre (flat_map enc_kv kvs ++ 0 :: 0 :: r))
  = (Ok (fold_left ins kvs m), at_ (pre ++ flat_map enc_kv kvs ++ [0]) (0 :: r)).
Proof.
  induction kvs as [|[k v] kvs IH]; intros fuel m pre r Hok Hf; (destruct fuel as [|f]; [lia|]); cbn [gs2_vars_loop].
  - cbn [flat_map app fold_left]. rewrite remaining_at. unfold lenN. cbn [length]. rewrite Nat2N.inj_succ.
    destruct (N.succ _) eqn:E; [lia|]. clear E. cbv beta iota.
    erewrite bind_ok by apply cstr_at_nil. erewrite bind_ok by apply cstr_at_nil.
    cbv beta iota. erewrite bind_ok by apply move_back1. reflexivity.
  - cbn [forallb] in Hok. apply andb_prop in Hok. destruct Hok as [Hkv Hok]. unfold kv_ok in Hkv. cbn [fst snd] in Hkv.
    apply andb_prop in Hkv. destruct Hkv as [Hkv Hne]. apply andb_prop in Hkv. destruct Hkv as [Hk Hv].
    cbn [flat_map fold_left]. change (enc_kv (k, v)) with ((k ++ [0]) ++ (v ++ [0])). rewrite <- !app_assoc. cbn [app].
    rewrite remaining_at. unfold lenN. rewrite app_length. cbn [length].
    destruct (N.of_nat _) eqn:E; [lia|]. clear E. cbv beta iota.
    erewrite bind_ok by (apply cstr_at; exact Hk). erewrite bind_ok by (apply cstr_at; exact Hv).
    destruct k as [|k0 k]; [discriminate|].
    rewrite (IH f (vm_insert (k0 :: k) v m) _ r Hok).
    + unfold ins. cbn [fst snd]. rewrite <- !app_assoc. cbn [app]. rewrite <- ?app_assoc. reflexivity.
    + cbn [flat_map] in Hf. change (enc_kv (k0 :: k, v)) with (((k0 :: k) ++ [0]) ++ (v ++ [0])) in Hf. rewrite !app_length in Hf. cbn [length] in Hf. lia.
Qed.

(* ---------- tables ---------- *)
Definition head_ok (s : bytes) : bool := no_nul s && nonempty s.

Lemma read_heads_at : forall cols fuel pre r, forallb head_ok cols = true ->
  (length (flat_map gcstr cols) + 1 + length r < fuel)%nat ->
  read_heads fuel (at_ pre (flat_map gcstr cols ++ 0 :: r)) = (Ok cols, at_ (pre ++ flat_map gcstr cols ++ [0]) r).
Proof.
  induction cols as [|h cols IH]; intros fuel pre r Hok Hf; (destruct fuel as [|f]; [lia|]); cbn [read_heads].
  - cbn [flat_map app]. erewrite bind_ok by apply cstr_at_nil. reflexivity.
  - cbn [forallb] in Hok. apply andb_prop in Hok. destruct Hok as [Hh Hok]. unfold head_ok in Hh. apply andb_prop in Hh. destruct Hh as [Hn Hne].
    cbn [flat_map]. change (gcstr h) with (h ++ [0]). rewrite <- !app_assoc. cbn [app].
    erewrite bind_ok by (apply cstr_at; exact Hn). destruct h as [|h0 h]; [discriminate|].
    erewrite bind_ok.
    2:{ apply IH; [exact Hok|]. cbn [flat_map] in Hf. change (gcstr (h0 :: h)) with ((h0 :: h) ++ [0]) in Hf. rewrite !app_length in Hf. cbn [length] in Hf. lia. }
    cbn [ret]. rewrite <- !app_assoc. cbn [app]. rewrite <- ?app_assoc. reflexivity.
Qed.

Lemma tm_get_none h (t : tmap) : ~ In h (map fst t) -> tm_get h t = None.
Proof.
  induction t as [|[k l] t IH]; intro H; [reflexivity|]. cbn [tm_get]. cbn [map fst In] in H.
  assert (E : bytes_eqb h k = false) by (apply bytes_eqb_neq; intro X; apply H; left; symmetry; exact X).
  rewrite E. apply IH. intro X. apply H. right. exact X.
Qed.
Lemma tm_init_fresh : forall heads (t : tmap), NoDup (map fst t ++ heads) ->
  tm_init heads t = t ++ map (fun h => (h, [])) heads.
Proof.
  induction heads as [|h heads IH]; intros t Hnd; cbn [tm_init map]; [rewrite app_nil_r; reflexivity|].
  assert (Hn : ~ In h (map fst t)).
  { apply NoDup_remove_2 in Hnd. intro X. apply Hnd. apply in_or_app. left. exact X. }
  rewrite (tm_get_none h t Hn). rewrite IH.
  - rewrite <- app_assoc. reflexivity.
  - rewrite map_app. cbn [map fst]. rewrite <- app_assoc. cbn [app].
    (* NoDup (keys ++ h :: heads) from NoDup (keys ++ h :: heads) *) exact Hnd.
Qed.
Lemma tm_push_mid h v l : forall (done todo : tmap), ~ In h (map fst done) ->
  tm_push h v (done ++ (h, l) :: todo) = Some (done ++ (h, l ++ [v]) :: todo).
Proof.
  induction done as [|[k l0] done IH]; intros todo Hn; cbn [app tm_push].
  - rewrite bytes_eqb_refl. reflexivity.
  - cbn [map fst In] in Hn.
    assert (E : bytes_eqb h k = false) by (apply bytes_eqb_neq; intro X; apply Hn; left; symmetry; exact X).
    rewrite E, IH; [reflexivity|]. intro X. apply Hn. right. exact X.
Qed.

Definition zip_push (todo : tmap) (vs : list bytes) : tmap :=
  map (fun tv => (fst (fst tv), snd (fst tv) ++ [snd tv])) (combine todo vs).

Lemma read_row_at : forall (todo done : tmap) vs pre r,
  NoDup (map fst (done ++ todo)) -> length vs = length todo -> forallb no_nul vs = true ->
  read_row (map fst todo) (done ++ todo) (at_ pre (flat_map gcstr vs ++ r))
  = (Ok (done ++ zip_push todo vs), at_ (pre ++ flat_map gcstr vs) r).
Proof.
  induction todo as [|[h l] todo IH]; intros done vs pre r Hnd Hl Hok.
  - destruct vs; [|discriminate]. cbn [map read_row flat_map app zip_push combine]. rewrite !app_nil_r. reflexivity.
  - destruct vs as [|v vs]; [discriminate|]. cbn [length] in Hl. cbn [forallb] in Hok. apply andb_prop in Hok. destruct Hok as [Hv Hok].
    cbn [map fst read_row flat_map]. change (gcstr v) with (v ++ [0]). rewrite <- !app_assoc. cbn [app].
    erewrite bind_ok by (apply cstr_at; exact Hv).
    assert (Hn : ~ In h (map fst done)).
    { rewrite map_app in Hnd. cbn [map fst] in Hnd. apply NoDup_remove_2 in Hnd. intro X. apply Hnd. apply in_or_app. left. exact X. }
    rewrite (tm_push_mid h v l done todo Hn).
    replace (done ++ (h, l ++ [v]) :: todo) with ((done ++ [(h, l ++ [v])]) ++ todo) by (rewrite <- app_assoc; reflexivity).
    rewrite IH.
    + cbn [zip_push combine map fst snd]. rewrite <- !app_assoc. cbn [app]. rewrite <- ?app_assoc. reflexivity.
    + rewrite <- app_assoc. cbn [app]. rewrite !map_app in *. cbn [map fst] in *. exact Hnd.
    + lia.
    + exact Hok.
Qed.

Section Table.
  Context {P : Type}.
  Definition cellspec := (bytes * (P -> bytes))%type.
  Definition tbl (cells : list cellspec) (ps : list P) : tmap := map (fun c => (fst c, map (snd c) ps)) cells.
  Definition row_of (cells : list cellspec) (p : P) : list bytes := map (fun c => snd c p) cells.
  Definition rows_bytes (cells : list cellspec) (ps : list P) : bytes := flat_map (fun row => flat_map gcstr row) (map (row_of cells) ps).
  Definition table_bytes (cells : list cellspec) (ps : list P) : bytes := enc_table (map fst cells) (map (row_of cells) ps).
  Definition cells_ok (cells : list cellspec) : Prop := forallb head_ok (map fst cells) = true /\ NoDup (map fst cells).
  Definition rows_ok (cells : list cellspec) (ps : list P) : Prop := forall p, In p ps -> forallb no_nul (row_of cells p) = true.

  Lemma tbl_keys cells ps : map fst (tbl cells ps) = map fst cells.
  Proof. unfold tbl. rewrite map_map. reflexivity. Qed.
  Lemma tbl_push cells ps p : zip_push (tbl cells ps) (row_of cells p) = tbl cells (ps ++ [p]).
  Proof.
    unfold zip_push, tbl, row_of. induction cells as [|c cells IH]; [reflexivity|].
    cbn [map combine fst snd]. rewrite IH, map_app. reflexivity.
  Qed.
  Lemma read_rows_at cells : NoDup (map fst cells) -> forall ps2 ps1 pre r, rows_ok cells ps2 ->
    read_rows (length ps2) (map fst cells) (tbl cells ps1) (at_ pre (rows_bytes cells ps2 ++ r))
    = (Ok (tbl cells (ps1 ++ ps2)), at_ (pre ++ rows_bytes cells ps2) r).
  Proof.
    intros Hnd. induction ps2 as [|p ps2 IH]; intros ps1 pre r Hok.
    - cbn [length read_rows]. unfold rows_bytes. cbn [map flat_map app]. rewrite !app_nil_r. reflexivity.
    - cbn [length read_rows]. unfold rows_bytes. cbn [map flat_map]. rewrite <- app_assoc.
      pose proof (read_row_at (tbl cells ps1) [] (row_of cells p) pre (flat_map (fun row => flat_map gcstr row) (map (row_of cells) ps2) ++ r)) as E.
      cbn [app] in E. rewrite tbl_keys in E. erewrite bind_ok.
      2:{ apply E; [exact Hnd|unfold tbl, row_of; rewrite !map_length; reflexivity|apply Hok; left; reflexivity]. }
      rewrite tbl_push. fold (rows_bytes cells ps2). rewrite IH by (intros q Hq; apply Hok; right; exact Hq).
      rewrite <- !app_assoc. reflexivity.
  Qed.

  Lemma tm_get_tbl cells ps name f : NoDup (map fst cells) -> In (name, f) cells -> tm_get name (tbl cells ps) = Some (map f ps).
  Proof.
    intros Hnd Hin. induction cells as [|[k g] cells IH]; [contradiction|]. cbn [tbl map tm_get fst snd].
    cbn [map fst] in Hnd. destruct Hin as [E|Hin].
    - inversion E; subst. rewrite bytes_eqb_refl. reflexivity.
    - assert (Hne : bytes_eqb name k = false).
      { apply bytes_eqb_neq. intro X. subst k. inversion Hnd as [|? ? Hn _]; subst. apply Hn. apply in_map_iff. exists (name, f). split; [reflexivity|exact Hin]. }
      rewrite Hne. apply IH; [inversion Hnd; assumption|exact Hin].
  Qed.

  Lemma data_as_table_at cells ps pre r : cells_ok cells -> rows_ok cells ps -> (length ps < 256)%nat ->
    data_as_table (at_ pre (table_bytes cells ps ++ r))
    = (Ok (match ps with [] => [] | _ => tbl cells ps end, lenN ps), at_ (pre ++ table_bytes cells ps) r).
  Proof.
    intros [Hheads Hnd] Hrows Hlen. unfold data_as_table, table_bytes, enc_table.
    assert (Hm : lenN (map (row_of cells) ps) mod 256 = lenN ps).
    { unfold lenN. rewrite map_length. apply N.mod_small. lia. }
    rewrite Hm. cbn [app]. rewrite <- !app_assoc.
    erewrite bind_ok by apply read_u8_lt. cbn [N.eqb negb].
    erewrite bind_ok by apply read_u8_lt.
    unfold nul. cbn [app].
    erewrite bind_ok.
    2:{ apply read_heads_at; [exact Hheads|]. cbn [rest at_ length]. rewrite !app_length. cbn [length]. rewrite ?app_length. lia. }
    destruct ps as [|p ps].
    - cbn [lenN length N.of_nat N.eqb map flat_map app ret]. rewrite ?app_nil_r. rewrite <- !app_assoc. reflexivity.
    - assert (Hz : (lenN (p :: ps) =? 0) = false) by (unfold lenN; cbn [length]; lia). rewrite Hz.
      rewrite tm_init_fresh by (cbn [map app]; exact Hnd). cbn [app].
      change (map (fun h => (h, [])) (map fst cells)) with (map (fun h : bytes => (h, @nil bytes)) (map fst cells)).
      assert (Ht : map (fun h : bytes => (h, @nil bytes)) (map fst cells) = tbl cells []).
      { unfold tbl. rewrite map_map. reflexivity. }
      rewrite Ht. unfold lenN. rewrite Nat2N.id.
      erewrite bind_ok by (exact (read_rows_at cells Hnd (p :: ps) [] _ r Hrows)).
      cbn [app ret]. unfold rows_bytes. rewrite <- !app_assoc. cbn [app]. rewrite <- ?app_assoc. reflexivity.
  Qed.
End Table.

(* ---------- cells back to records ---------- *)
Lemma omap_list_seq {B} (f : nat -> outcome B) (l : list B) (d : B) : forall k,
  (forall i, (i < length l)%nat -> f (k + i)%nat = Ok (nth i l d)) -> omap_list f (seq k (length l)) = Ok l.
Proof.
  induction l as [|x l IH]; intros k H; cbn [length seq omap_list]; [reflexivity|].
  pose proof (H 0%nat ltac:(cbn; lia)) as H0. rewrite Nat.add_0_r in H0. rewrite H0. cbn [obind nth].
  rewrite (IH (S k)); [reflexivity|]. intros i Hi. replace (S k + i)%nat with (k + S i)%nat by lia. rewrite H by (cbn; lia). reflexivity.
Qed.
Lemma nth_error_map_nth {A B} (f : A -> B) (l : list A) (d : A) i : (i < length l)%nat -> nth_error (map f l) i = Some (f (nth i l d)).
Proof. revert i. induction l as [|x l IH]; intros [|i] H; cbn in *; try lia; [reflexivity|apply IH; lia]. Qed.

Lemma no_nul_show_N n : no_nul (show_N n) = true.
Proof.
  unfold no_nul. pose proof (show_N_digits n) as H.
  assert (H1 : forallb (fun c => c <? 128) (show_N n) = true) by (apply forallb_forall; intros c Hc; specialize (H c Hc); lia).
  assert (H2 : forallb (fun c => negb (c =? 0)) (show_N n) = true) by (apply forallb_forall; intros c Hc; specialize (H c Hc); lia).
  assert (H3 : bytesb (show_N n) = true) by (apply forallb_forall; intros c Hc; specialize (H c Hc); unfold byteb; lia).
  rewrite (utf8_valid_ascii _ H1), H2, H3. reflexivity.
Qed.

Definition p2_ok (p : gs2_player) : bool := no_nul (p2_name p) && (p2_score p <? 65536) && (p2_ping p <? 65536) && (p2_team p <? 65536).
Definition t2_ok (t : gs2_team) : bool := no_nul (t2_name t) && (t2_score t <? 65536).

Definition base_pcells : list (@cellspec gs2_player) :=
  [(str "player_", p2_name); (str "score_", fun p => show_N (p2_score p)); (str "ping_", fun p => show_N (p2_ping p));
   (str "team_", fun p => show_N (p2_team p))].
Definition pcells (extra rv : bool) : list (@cellspec gs2_player) :=
  let c := base_pcells ++ (if extra then [(str "deaths_", fun _ => str "7")] else []) in if rv then rev c else c.
Definition tcells : list (@cellspec gs2_team) := [(str "team_t", t2_name); (str "score_t", fun t => show_N (t2_score t))].

Lemma player_table_is s : s2_player_table s = table_bytes (pcells (s2_extra_col s) (s2_cols_rev s)) (s2_players s).
Proof.
  unfold s2_player_table, table_bytes, pcells, base_pcells. destruct (s2_extra_col s), (s2_cols_rev s); cbn [app rev map fst];
    (f_equal; apply map_ext; intros p; reflexivity).
Qed.
Lemma team_table_is s : s2_team_table s = table_bytes tcells (s2_teams s).
Proof. reflexivity. Qed.

Lemma pcells_ok extra rv : cells_ok (pcells extra rv).
Proof.
  split; [destruct extra, rv; reflexivity|].
  destruct extra, rv; cbn [pcells base_pcells app rev map fst];
    repeat (constructor; [cbn [In]; intros H; repeat (destruct H as [H|H]; [discriminate H|]); exact H|]); constructor.
Qed.
Lemma tcells_ok : cells_ok tcells.
Proof.
  split; [reflexivity|]. cbn [tcells map fst].
  repeat (constructor; [cbn [In]; intros H; repeat (destruct H as [H|H]; [discriminate H|]); exact H|]); constructor.
Qed.
Lemma pcells_in extra rv c : In c base_pcells -> In c (pcells extra rv).
Proof.
  intros H. unfold pcells. destruct rv; [apply -> in_rev|]; apply in_or_app; left; exact H.
Qed.
Lemma prows_ok extra rv ps : forallb p2_ok ps = true -> rows_ok (pcells extra rv) ps.
Proof.
  intros H p Hp. rewrite forallb_forall in H. specialize (H p Hp). unfold p2_ok in H.
  do 3 (apply andb_prop in H; destruct H as [H ?]).
  destruct extra, rv; cbn [pcells base_pcells app rev row_of map snd forallb]; rewrite ?no_nul_show_N, ?H; reflexivity.
Qed.
Lemma trows_ok ts : forallb t2_ok ts = true -> rows_ok tcells ts.
Proof.
  intros H t Ht. rewrite forallb_forall in H. specialize (H t Ht). unfold t2_ok in H. apply andb_prop in H. destruct H as [H ?].
  cbn [tcells row_of map snd forallb]. rewrite no_nul_show_N, H. reflexivity.
Qed.

Lemma cell_tbl {P} (cells : list (@cellspec P)) ps name f i d : NoDup (map fst cells) -> In (str name, f) cells -> (i < length ps)%nat ->
  cell (tbl cells ps) name i = Ok (f (nth i ps d)).
Proof.
  intros Hnd Hin Hi. unfold cell. rewrite (tm_get_tbl cells ps (str name) f Hnd Hin). cbn [need obind].
  rewrite (nth_error_map_nth f ps d i Hi). reflexivity.
Qed.
Lemma cell_u16_tbl {P} (cells : list (@cellspec P)) ps name (g : P -> N) i d : NoDup (map fst cells) ->
  In (str name, fun p => show_N (g p)) cells -> (i < length ps)%nat -> g (nth i ps d) < 65536 ->
  cell_u16 (tbl cells ps) name i = Ok (g (nth i ps d)).
Proof.
  intros Hnd Hin Hi Hb. unfold cell_u16. rewrite (cell_tbl cells ps name _ i d Hnd Hin Hi). cbn [obind].
  rewrite parse_unsigned_show by (unfold u16_max'; lia). reflexivity.
Qed.

Lemma gs2_players_tbl extra rv ps : forallb p2_ok ps = true ->
  gs2_players (match ps with [] => [] | _ => tbl (pcells extra rv) ps end) (lenN ps) = Ok ps.
Proof.
  intros Hok. destruct ps as [|p0 ps0]; [reflexivity|]. set (ps := p0 :: ps0) in *.
  unfold gs2_players, lenN. rewrite Nat2N.id. apply (omap_list_seq _ ps p0 0). intros i Hi. cbn [Nat.add].
  pose proof (proj2 (pcells_ok extra rv)) as Hnd.
  assert (Hp : p2_ok (nth i ps p0) = true) by (rewrite forallb_forall in Hok; apply Hok, nth_In; exact Hi).
  unfold p2_ok in Hp. do 3 (apply andb_prop in Hp; destruct Hp as [Hp ?]).
  rewrite (cell_tbl _ ps "player_" p2_name i p0 Hnd) by (try exact Hi; apply pcells_in; cbn; auto).
  cbn [obind].
  rewrite (cell_u16_tbl _ ps "score_" p2_score i p0 Hnd) by (try exact Hi; try lia; apply pcells_in; cbn; auto).
  cbn [obind].
  rewrite (cell_u16_tbl _ ps "ping_" p2_ping i p0 Hnd) by (try exact Hi; try lia; apply pcells_in; cbn; auto).
  cbn [obind].
  rewrite (cell_u16_tbl _ ps "team_" p2_team i p0 Hnd) by (try exact Hi; try lia; apply pcells_in; cbn; auto).
  cbn [obind]. destruct (nth i ps p0); reflexivity.
Qed.
Lemma gs2_teams_tbl ts : forallb t2_ok ts = true ->
  gs2_teams (match ts with [] => [] | _ => tbl tcells ts end) (lenN ts) = Ok ts.
Proof.
  intros Hok. destruct ts as [|t0 ts0]; [reflexivity|]. set (ts := t0 :: ts0) in *.
  unfold gs2_teams, lenN. rewrite Nat2N.id. apply (omap_list_seq _ ts t0 0). intros i Hi. cbn [Nat.add].
  pose proof (proj2 tcells_ok) as Hnd.
  assert (Hp : t2_ok (nth i ts t0) = true) by (rewrite forallb_forall in Hok; apply Hok, nth_In; exact Hi).
  unfold t2_ok in Hp. apply andb_prop in Hp. destruct Hp as [Hp ?].
  rewrite (cell_tbl _ ts "team_t" t2_name i t0 Hnd) by (try exact Hi; cbn; auto).
  cbn [obind].
  rewrite (cell_u16_tbl _ ts "score_t" t2_score i t0 Hnd) by (try exact Hi; try lia; cbn; auto).
  cbn [obind]. destruct (nth i ts t0); reflexivity.
Qed.

(* ---------- the variables as a map ---------- *)
Definition std_keys : list bytes := map str ["hostname"; "mapname"; "password"; "maxplayers"; "numplayers"; "minplayers"]%string.
Fixpoint nodupb (l : list bytes) : bool :=
  match l with [] => true | x :: r => negb (existsb (bytes_eqb x) r) && nodupb r end.
Definition extras_ok_for (ks : list bytes) (ext : list (bytes * bytes)) : bool :=
  forallb kv_ok ext && forallb (fun kv => negb (existsb (bytes_eqb (fst kv)) ks)) ext && nodupb (map fst ext).
Definition extras_ok (ext : list (bytes * bytes)) : bool := extras_ok_for std_keys ext.

Lemma vm_get_cons k k' v (m : vmap) : vm_get k ((k', v) :: m) = if bytes_eqb k k' then Some v else vm_get k m.
Proof. reflexivity. Qed.
Lemma map_remove_cons k k' v (m : vmap) :
  map_remove k ((k', v) :: m) = if bytes_eqb k k' then map_remove k m else (k', v) :: map_remove k m.
Proof. unfold map_remove. cbn [filter fst]. destruct (bytes_eqb k k'); reflexivity. Qed.
Lemma bytes_eqb_sym a b : bytes_eqb a b = bytes_eqb b a.
Proof. revert b. induction a as [|x a IH]; intros [|y b]; cbn [bytes_eqb]; try reflexivity. rewrite N.eqb_sym, IH. reflexivity. Qed.
Lemma ext_get_for ks k ext : In k ks -> forallb (fun kv => negb (existsb (bytes_eqb (fst kv)) ks)) ext = true ->
  vm_get k ext = None /\ map_remove k ext = ext.
Proof.
  intros Hk H. induction ext as [|[k' v] ext IH]; [split; reflexivity|].
  cbn [forallb fst] in H. apply andb_prop in H. destruct H as [H1 H2]. destruct (IH H2) as [I1 I2].
  assert (E : bytes_eqb k k' = false).
  { destruct (bytes_eqb k k') eqn:E; [|reflexivity]. apply bytes_eqb_eq in E. subst k'.
    apply negb_true_iff in H1. assert (X : existsb (bytes_eqb k) ks = true) by (apply existsb_exists; exists k; split; [exact Hk|apply bytes_eqb_refl]).
    rewrite X in H1. discriminate. }
  rewrite vm_get_cons, map_remove_cons, E, I1, I2. split; reflexivity.
Qed.
Definition ext_get := ext_get_for std_keys.
Lemma fold_ins_fresh : forall ext (m : vmap),
  forallb (fun kv => negb (existsb (fun x => bytes_eqb (fst x) (fst kv)) m)) ext = true -> nodupb (map fst ext) = true ->
  fold_left ins ext m = m ++ ext.
Proof.
  induction ext as [|[k v] ext IH]; intros m H Hnd; cbn [fold_left]; [rewrite app_nil_r; reflexivity|].
  cbn [forallb fst] in H. apply andb_prop in H. destruct H as [H1 H2]. apply negb_true_iff in H1.
  cbn [map fst nodupb] in Hnd. apply andb_prop in Hnd. destruct Hnd as [N1 N2]. apply negb_true_iff in N1.
  unfold ins at 2. cbn [fst snd]. unfold vm_insert. rewrite (map_insert_fresh k v m H1). rewrite IH.
  - rewrite <- app_assoc. reflexivity.
  - apply forallb_forall. intros [k2 v2] Hin. cbn [fst]. rewrite existsb_app. cbn [existsb fst orb].
    rewrite forallb_forall in H2. specialize (H2 _ Hin). cbn [fst] in H2. apply negb_true_iff in H2. rewrite H2. cbn [orb].
    rewrite orb_false_r. apply negb_true_iff.
    destruct (bytes_eqb k k2) eqn:E; [|reflexivity]. apply bytes_eqb_eq in E. subst k2.
    assert (X : existsb (bytes_eqb k) (map fst ext) = true).
    { apply existsb_exists. exists k. split; [apply in_map_iff; exists (k, v2); split; [reflexivity|exact Hin]|apply bytes_eqb_refl]. }
    rewrite X in N1. discriminate.
  - exact N2.
Qed.

Definition wf_s2 (s : s2_state) : bool :=
  no_nul (s2_name s) && no_nul (s2_map s) && no_nul (s2_password s) && (s2_max s <? 4294967296)
  && optb (fun n => n <? 4294967296) (s2_num s) && optb (fun n => n <? 4294967296) (s2_min s)
  && extras_ok (s2_extras s)
  && forallb p2_ok (s2_players s) && (length (s2_players s) <? 256)%nat
  && forallb t2_ok (s2_teams s) && (length (s2_teams s) <? 256)%nat.

Ltac keys :=
  repeat first
    [ rewrite vm_get_cons | rewrite map_remove_cons
    | match goal with
      | |- context [bytes_eqb (str ?a) (str ?b)] =>
          let r := eval vm_compute in (bytes_eqb (str a) (str b)) in change (bytes_eqb (str a) (str b)) with r
      end
    | progress cbv beta iota ].

Lemma map_insert_cons k v k' v' (m : vmap) :
  map_insert k v ((k', v') :: m) = if bytes_eqb k k' then (k, v) :: m else (k', v') :: map_insert k v m.
Proof. reflexivity. Qed.
Lemma table_bytes_head {P} (cells : list (@cellspec P)) ps : exists tl, table_bytes cells ps = 0 :: tl.
Proof. unfold table_bytes, enc_table. eexists. reflexivity. Qed.

(* the variables a server sends: the standard ones, then its own *)
Definition std_vars (s : s2_state) : list (bytes * bytes) :=
  [(str "hostname", s2_name s); (str "mapname", s2_map s); (str "password", s2_password s); (str "maxplayers", show_N (s2_max s))]
  ++ opt_list (s2_num s) (fun v => [(str "numplayers", show_N v)])
  ++ opt_list (s2_min s) (fun v => [(str "minplayers", show_N v)]).
Lemma s2_vars_split s : s2_vars s = std_vars s ++ s2_extras s.
Proof. unfold s2_vars, std_vars. rewrite <- !app_assoc. reflexivity. Qed.
Lemma std_vars_keys s x : In x (std_vars s) -> In (fst x) std_keys.
Proof.
  unfold std_vars, std_keys. destruct (s2_num s), (s2_min s); cbn [opt_list app In map];
    intros H; repeat (destruct H as [H|H]; [subst x; cbn [fst]; auto 10|]); contradiction.
Qed.
Lemma std_vars_ok s : no_nul (s2_name s) = true -> no_nul (s2_map s) = true -> no_nul (s2_password s) = true ->
  forallb kv_ok (std_vars s) = true.
Proof.
  intros H1 H2 H3. unfold std_vars, kv_ok. destruct (s2_num s), (s2_min s); cbn [opt_list app forallb fst snd];
    rewrite ?H1, ?H2, ?H3, ?no_nul_show_N; reflexivity.
Qed.
Lemma std_vars_map s : fold_left ins (std_vars s) [] = std_vars s.
Proof.
  unfold std_vars. destruct (s2_num s), (s2_min s); cbn [opt_list app fold_left]; unfold ins, vm_insert; cbn [fst snd map_insert];
    repeat (rewrite map_insert_cons;
            match goal with |- context [bytes_eqb (str ?a) (str ?b)] =>
              let r := eval vm_compute in (bytes_eqb (str a) (str b)) in change (bytes_eqb (str a) (str b)) with r end; cbv beta iota);
    reflexivity.
Qed.
(* standard variables with keys in ks, then the server's own: the map is the list *)
Lemma fold_ins_std_ext ks (stdv ext : list (bytes * bytes)) :
  (forall x, In x stdv -> In (fst x) ks) -> extras_ok_for ks ext = true ->
  fold_left ins ext stdv = stdv ++ ext.
Proof.
  intros Hstd H. unfold extras_ok_for in H. do 2 (apply andb_prop in H; destruct H as [H ?]).
  apply fold_ins_fresh; [|assumption].
  apply forallb_forall. intros [k v] Hin. cbn [fst]. apply negb_true_iff.
  destruct (existsb _ stdv) eqn:E; [|reflexivity]. apply existsb_exists in E. destruct E as [x [Hx Ex]].
  apply bytes_eqb_eq in Ex. apply Hstd in Hx. rewrite Ex in Hx.
  rewrite forallb_forall in H1. specialize (H1 _ Hin). cbn [fst] in H1. apply negb_true_iff in H1.
  assert (X : existsb (bytes_eqb k) ks = true) by (apply existsb_exists; exists k; split; [exact Hx|apply bytes_eqb_refl]).
  rewrite X in H1. discriminate.
Qed.
Lemma vars_map s : extras_ok (s2_extras s) = true -> fold_left ins (s2_vars s) [] = s2_vars s.
Proof.
  intros H. rewrite s2_vars_split, fold_left_app, std_vars_map.
  apply (fold_ins_std_ext std_keys); [apply std_vars_keys|exact H].
Qed.

Lemma bind_lift_ok {A B} (a : A) (f : A -> R B) b : bind (lift (Ok a)) f b = f a b.
Proof. reflexivity. Qed.
Lemma key_in ks k : existsb (bytes_eqb k) ks = true -> In k ks.
Proof. intros H. apply existsb_exists in H. destruct H as [x [Hx E]]. apply bytes_eqb_eq in E. subst x. exact Hx. Qed.
Lemma std_key_in k : existsb (bytes_eqb k) std_keys = true -> In k std_keys.
Proof. intros H. apply existsb_exists in H. destruct H as [x [Hx E]]. apply bytes_eqb_eq in E. subst x. exact Hx. Qed.

Theorem gs2_roundtrip : forall s, wf_s2 s = true -> gs2_parse (s2_reply s) = Ok (s2_expected s).
Proof.
  intros s H. unfold wf_s2 in H. do 10 (apply andb_prop in H; destruct H as [H ?]).
  rename H into Hname, H0 into Htl, H1 into Hts, H2 into Hpl, H3 into Hps, H4 into Hext, H5 into Hmin, H6 into Hnum, H7 into Hmax, H8 into Hpw, H9 into Hmap.
  pose proof Hext as Hext0. unfold extras_ok, extras_ok_for in Hext. do 2 (apply andb_prop in Hext; destruct Hext as [Hext ?]).
  rename Hext into Hekv, H into Hend, H0 into Hestd.
  unfold gs2_parse, run_r, s2_reply. change (buf_new ?d) with (at_ [] d).
  rewrite player_table_is, team_table_is.
  set (pc := pcells (s2_extra_col s) (s2_cols_rev s)).
  destruct (table_bytes_head pc (s2_players s)) as [ptl Eptl].
  change 5%Z with (Z.of_nat (length [0; 0; 0; 0; 1])). erewrite bind_ok by apply move_at.
  change (flat_map (fun kv => gcstr (fst kv) ++ gcstr (snd kv)) (s2_vars s)) with (flat_map enc_kv (s2_vars s)).
  unfold nul. rewrite Eptl. cbn [app].
  erewrite bind_ok.
  2:{ apply vars_loop_at.
      - rewrite s2_vars_split, forallb_app, (std_vars_ok s Hname Hmap Hpw), Hekv. reflexivity.
      - cbn [rest at_]. rewrite !app_length. cbn [length]. rewrite ?app_length. lia. }
  rewrite (vars_map s Hext0).
  change (0 :: ptl ++ table_bytes tcells (s2_teams s)) with ((0 :: ptl) ++ table_bytes tcells (s2_teams s)). rewrite <- Eptl.
  erewrite bind_ok.
  2:{ apply data_as_table_at; [apply pcells_ok|apply prows_ok; exact Hps|apply Nat.ltb_lt; exact Hpl]. }
  cbv beta iota. unfold pc. rewrite (gs2_players_tbl _ _ _ Hps), bind_lift_ok.
  unfold online_of, take_req, vm_remove. rewrite s2_vars_split. unfold std_vars.
  assert (Xg : forall k, existsb (bytes_eqb (str k)) std_keys = true -> vm_get (str k) (s2_extras s) = None)
    by (intros k Hk; exact (proj1 (ext_get _ _ (std_key_in _ Hk) Hestd))).
  assert (Xr : forall k, existsb (bytes_eqb (str k)) std_keys = true -> map_remove (str k) (s2_extras s) = s2_extras s)
    by (intros k Hk; exact (proj2 (ext_get _ _ (std_key_in _ Hk) Hestd))).
  unfold s2_expected.
  rewrite <- (app_nil_r (table_bytes tcells (s2_teams s))).
  apply Nat.ltb_lt in Hpl, Htl. apply N.ltb_lt in Hmax.
  destruct (s2_num s) as [num|], (s2_min s) as [mn|]; cbn [opt_list app optb] in *;
    repeat first
      [ rewrite bind_lift_ok | progress keys | rewrite Xg by reflexivity | rewrite Xr by reflexivity
      | rewrite parse_unsigned_show by (unfold usize_max', u32_max; lia)
      | progress cbn [need obind opt_parse]
      | erewrite bind_ok by (apply data_as_table_at; [apply tcells_ok|apply trows_ok; exact Hts|exact Htl])
      | match goal with |- context [gs2_teams ?a ?b] =>
          replace (gs2_teams a b) with (@Ok (list gs2_team) (s2_teams s)) by (symmetry; exact (gs2_teams_tbl _ Hts)) end ];
    cbn [ret fst]; change (2 ^ 32) with 4294967296;
    (rewrite N.mod_small; [reflexivity|]); unfold lenN; try (apply N.ltb_lt in Hnum; destruct (num <? _)); lia.
Qed.

(* the hypothesis is satisfiable: a generated state with players, teams, extra variables, reversed columns *)
Example wf_s2_ex : existsb (fun seed => let s := fst (gen_s2 seed) in
    wf_s2 s && negb (Nat.eqb (length (s2_players s)) 0) && negb (Nat.eqb (length (s2_teams s)) 0)
    && negb (Nat.eqb (length (s2_extras s)) 0)) [1; 2; 3; 4; 5; 6; 7; 8; 9; 10; 11; 12] = true.
Proof. vm_compute. reflexivity. Qed.


Lemma gs2_header_ok (d' X : bytes) :
  run_r (let* k := read_u8 in
         if negb (k =? 0) then fail PacketBad
         else let* sid := read_uint true 4 in
              if negb (sid =? 1) then fail PacketBad else ret d') ([0] ++ [0; 0; 0; 1] ++ X) = Ok d'.
Proof.
  unfold run_r. change (buf_new ?d) with (at_ [] d). cbn [app].
  erewrite bind_ok by apply read_u8_lt. cbn [N.eqb negb].
  erewrite bind_ok by (exact (read_uint_at true [0; 0; 0; 1] _ X)). reflexivity.
Qed.

(* the whole query: socket, request, the reply as one datagram that fits the receive size *)
Definition script_net (dgs : list bytes) : net := net_init (map Datagram dgs) [] [].
Theorem gs2_query_roundtrip : forall port s, wf_s2 s = true -> (length (s2_reply s) <= 1024)%nat ->
  fst (gs2_query port None (script_net [s2_reply s])) = Ok (s2_expected s).
Proof.
  intros port s Hwf Hlen.
  unfold gs2_query, script_net, net_init. cbn [map].
  unfold mbind at 1. unfold udp_new, mbind at 1. unfold log at 1. unfold apply_timeout. cbn [ts_rw_or_default].
  unfold mbind at 1. unfold log at 1. cbn [dur_zero fst snd N.eqb andb orb]. unfold mret at 1.
  unfold mbind at 1. unfold retry_on_timeout. cbn [ts_retries_or_default N.to_nat retry_loop].
  unfold gs2_request_impl at 1. unfold mbind at 1. unfold send at 1. cbn [n_fail existsb n_udp n_tcp n_sends n_cur n_trace].
  unfold mbind at 1. unfold udp_recv at 1. cbn [n_udp n_tcp n_fail n_sends n_cur n_trace default_packet_size].
  rewrite firstn_all2 by (change (N.to_nat 1024) with 1024%nat; exact Hlen).
  pose proof (gs2_roundtrip s Hwf) as RT.
  assert (Hd : exists X, s2_reply s = [0] ++ [0; 0; 0; 1] ++ X) by (unfold s2_reply; eexists; reflexivity).
  destruct Hd as [X Hd].
  pose proof (gs2_header_ok (s2_reply s) X) as Hh. rewrite <- Hd in Hh.
  rewrite Hh. unfold mlift. cbn [fst]. exact RT.
Qed.

