(* C04: GameSpy. The variable grammar of version 1 ('\key\value' chunks) is
   decoded exactly; the version 3 data request carries the server's challenge. *)
From GD Require Import Base.Prelude Model.Strings Model.StrOps Model.Buffer Model.Net Model.Valve Model.Gamespy.
From GD Require Import Spec.QuakeSpec Spec.GamespySpec Proofs.Str.
Require Import Lia.

Definition ins (m : vmap) (kv : bytes * bytes) : vmap := vm_insert (fst kv) (snd kv) m.

Lemma insert_pairs_flat l : forall m, insert_pairs (flat_kv l) m = fold_left ins l m.
Proof. induction l as [|[k v] l IH]; intros m; [reflexivity|]. cbn [flat_kv insert_pairs fold_left]. apply IH. Qed.

(* one part of a version 1 reply: '\k1\v1\k2\v2...' yields exactly its pairs, in order *)
Lemma gs1_part_decodes k v l m :
  Forall (fun kv => no_delim 92 (fst kv) /\ no_delim 92 (snd kv)) ((k, v) :: l) ->
  insert_pairs (split 92 (remove_first_char (concat (map (chunk 92) ((k, v) :: l))))) m
  = fold_left ins ((k, v) :: l) m.
Proof.
  intros H.
  assert (E : remove_first_char (concat (map (chunk 92) ((k, v) :: l))) = k ++ [92] ++ v ++ concat (map (chunk 92) l)).
  { cbn [map concat]. unfold chunk at 1. cbn [fst snd]. cbn [app remove_first_char].
    change (utf8_first_len 92) with 1%nat. cbn [skipn]. rewrite <- app_assoc. reflexivity. }
  rewrite E, (split_chunks 92 l k v H).
  change (k :: v :: flat_kv l) with (flat_kv ((k, v) :: l)). apply insert_pairs_flat.
Qed.

(* the spec's encoder produces exactly such chunks *)
Lemma kvb_is_chunk kv : kvb kv = chunk 92 kv.
Proof. reflexivity. Qed.

(* version 3: the data request is header, kind 0, session id 1, the challenge
   (absent when the server sent 0) big-endian, and the payload *)
Lemma gs3_request_bytes port c n :
  let '(o, n') := gs3_data_request port [255; 255; 255; 1] c n in
  exists rest, n_trace n' = SendEv port ([254; 253; 0; 0; 0; 0; 1]
                 ++ match c with Some z => be_bytes 4 (of_signed 32 z) | None => [] end ++ [255; 255; 255; 1]) :: rest.
Proof. unfold gs3_data_request, send. destruct (existsb _ _); cbn; eexists; reflexivity. Qed.

Lemma gs3_handshake_zero_means_none :
  forall s, parse_signed 32 s = Some 0%Z ->
  (if (0 =? 0)%Z then @None Z else Some 0%Z) = None.
Proof. reflexivity. Qed.
