(* C04, GameSpy 1: from the assembled variables to the typed response - the per-player variables
   ('<kind>_<index>') are moved into one map per player, every other variable stays. *)
From GD Require Import Base.Prelude Model.Strings Model.StrOps Model.Buffer Model.Net Model.Valve Model.Gamespy.
From GD Require Import Spec.ValveSpec Spec.QuakeSpec Spec.GamespySpec.
From GD Require Import Proofs.BufferLemmas Proofs.ReadSpecs Proofs.Str Proofs.Utf8 Proofs.ValveRoundtrip Proofs.QuakeRoundtrip Proofs.GamesProofs
  Proofs.GamespyProofs Proofs.IdProofs Proofs.ValveGamesRoundtrip Proofs.Gamespy2Roundtrip Proofs.Gamespy3Roundtrip Proofs.Gamespy1Assembly.
From Coq Require Import ZifyBool ZifyNat ZifyN Lia.

(* ---------- which variables are per-player ---------- *)
Definition is_pkey (bound : N) (k : bytes) : option (bytes * N) :=
  match split 95 k with
  | [kind; ids] => match parse_unsigned usize_max' ids with
                   | Some id => if existsb (bytes_eqb kind) gs1_player_kinds && (id <? bound) then Some (kind, id) else None
                   | None => None
                   end
  | _ => None
  end.
Lemma split_step bound k v r pd :
  gs1_split_players bound ((k, v) :: r) pd
  = match is_pkey bound k with
    | Some (kind, id) => gs1_split_players bound r (set_nth (N.to_nat id) (vm_insert kind v) [] pd)
    | None => let '(m, pd') := gs1_split_players bound r pd in ((k, v) :: m, pd')
    end.
Proof.
  cbn [gs1_split_players]. unfold is_pkey. destruct (split 95 k) as [|kind [|ids [|x sp]]]; try reflexivity.
  destruct (parse_unsigned usize_max' ids) as [id|]; [|reflexivity]. destruct (existsb _ _ && _); reflexivity.
Qed.
Lemma split_keep bound : forall A B pd, Forall (fun kv => is_pkey bound (fst kv) = None) A ->
  gs1_split_players bound (A ++ B) pd = (A ++ fst (gs1_split_players bound B pd), snd (gs1_split_players bound B pd)).
Proof.
  induction A as [|[k v] A IH]; intros B pd H; [cbn [app]; destruct (gs1_split_players bound B pd); reflexivity|].
  inversion H as [|? ? Hk HA]; subst. cbn [fst] in Hk. change (((k, v) :: A) ++ B) with ((k, v) :: A ++ B).
  rewrite split_step, Hk, (IH B pd HA). reflexivity.
Qed.

(* a per-player variable name is recognised *)
Lemma pkey_name bound kind i : existsb (bytes_eqb kind) gs1_player_kinds = true -> ~ In 95 kind -> i < bound -> i <= usize_max' ->
  is_pkey bound (kind ++ 95 :: show_N i) = Some (kind, i).
Proof.
  intros Hk Hn Hi Hu. unfold is_pkey, split.
  rewrite split_on_app by exact Hn. cbn [app rev]. rewrite split_on_field by (apply show_N_no; lia). cbn [rev app].
  rewrite (parse_unsigned_show usize_max' i Hu), Hk. replace (i <? bound) with true by lia. reflexivity.
Qed.

(* ---------- set_nth on the growing list of maps ---------- *)
Lemma set_nth_new {A} (f : A -> A) d : forall (l : list A), set_nth (length l) f d l = l ++ [f d].
Proof. induction l as [|x l IH]; [reflexivity|]. cbn [length set_nth app]. rewrite IH. reflexivity. Qed.
Lemma set_nth_last {A} (f : A -> A) d x : forall (l : list A), set_nth (length l) f d (l ++ [x]) = l ++ [f x].
Proof. induction l as [|y l IH]; [reflexivity|]. cbn [length set_nth app]. rewrite IH. reflexivity. Qed.

(* the variables of one player: (kind, value) pairs under the names kind_i *)
Definition named (i : N) (fields : list (bytes * bytes)) : list (bytes * bytes) :=
  map (fun kv => (fst kv ++ 95 :: show_N i, snd kv)) fields.
Definition kinds_ok (fields : list (bytes * bytes)) : Prop :=
  Forall (fun kv => existsb (bytes_eqb (fst kv)) gs1_player_kinds = true /\ ~ In 95 (fst kv)) fields.

Lemma split_one_player bound i : forall fields rest pd m, kinds_ok fields -> N.of_nat (length pd) = i -> i < bound -> i <= usize_max' ->
  gs1_split_players bound (named i fields ++ rest) (pd ++ [m])
  = gs1_split_players bound rest (pd ++ [fold_left (fun a kv => vm_insert (fst kv) (snd kv) a) fields m]).
Proof.
  induction fields as [|[kind v] fields IH]; intros rest pd m Hk Hl Hi Hu; [reflexivity|].
  inversion Hk as [|? ? [H1 H2] Hk']; subst. cbn [named map app fst snd].
  rewrite split_step, (pkey_name bound kind (N.of_nat (length pd)) H1 H2 Hi Hu). rewrite Nat2N.id, set_nth_last.
  cbn [fold_left fst snd]. apply (IH rest pd (vm_insert kind v m) Hk' eq_refl Hi Hu).
Qed.
Lemma split_first_player bound i kind v : forall fields rest pd, kinds_ok ((kind, v) :: fields) -> N.of_nat (length pd) = i -> i < bound -> i <= usize_max' ->
  gs1_split_players bound (named i ((kind, v) :: fields) ++ rest) pd
  = gs1_split_players bound rest (pd ++ [fold_left (fun a kv => vm_insert (fst kv) (snd kv) a) ((kind, v) :: fields) []]).
Proof.
  intros fields rest pd Hk Hl Hi Hu. inversion Hk as [|? ? [H1 H2] Hk']; subst. cbn [named map app fst snd].
  rewrite split_step, (pkey_name bound kind (N.of_nat (length pd)) H1 H2 Hi Hu). rewrite Nat2N.id, set_nth_new.
  cbn [fold_left fst snd]. apply (split_one_player bound (N.of_nat (length pd)) fields rest pd (vm_insert kind v []) Hk' eq_refl Hi Hu).
Qed.

(* all the players: one map each, in order *)
Definition pmap (fields : list (bytes * bytes)) : vmap := fold_left (fun a kv => vm_insert (fst kv) (snd kv) a) fields [].
Lemma split_all_players bound : forall (fs : list (list (bytes * bytes))) pd,
  Forall (fun f => f <> [] /\ kinds_ok f) fs -> N.of_nat (length pd + length fs) <= bound -> bound <= usize_max' ->
  gs1_split_players bound (flat_map (fun ip => named (fst ip) (snd ip)) (indexed (N.of_nat (length pd)) fs)) pd = ([], pd ++ map pmap fs).
Proof.
  induction fs as [|f fs IH]; intros pd Hok Hb Hu; [cbn; rewrite app_nil_r; reflexivity|].
  inversion Hok as [|? ? [Hne Hk] Hok']; subst. cbn [indexed flat_map fst snd].
  destruct f as [|[kind v] f]; [contradiction|].
  rewrite (split_first_player bound (N.of_nat (length pd)) kind v f _ pd Hk eq_refl) by (cbn [length] in Hb; lia).
  replace (N.of_nat (length pd) + 1) with (N.of_nat (length (pd ++ [pmap ((kind, v) :: f)]))) by (rewrite app_length; cbn [length]; lia).
  rewrite IH; [|exact Hok'| |exact Hu].
  - rewrite <- app_assoc. reflexivity.
  - rewrite app_length. cbn [length] in *. lia.
Qed.

(* ---------- lookups in a list built from fixed and optional segments ---------- *)
Lemma vm_get_app k (a b : vmap) : vm_get k (a ++ b) = match vm_get k a with Some v => Some v | None => vm_get k b end.
Proof. induction a as [|[k' v] a IH]; [reflexivity|]. cbn [app vm_get]. destruct (bytes_eqb k k'); [reflexivity|exact IH]. Qed.
Lemma vm_get_opt {A} k k' (o : option A) (g : A -> bytes) :
  vm_get k (opt_list o (fun v => [(k', g v)])) = if bytes_eqb k k' then option_map g o else None.
Proof. destruct o as [a|]; cbn [opt_list vm_get option_map]; destruct (bytes_eqb k k'); reflexivity. Qed.
Lemma vm_get_nil k : vm_get k [] = None. Proof. reflexivity. Qed.
Lemma map_remove_app k (a b : vmap) : map_remove k (a ++ b) = map_remove k a ++ map_remove k b.
Proof. unfold map_remove. apply filter_app. Qed.
Lemma map_remove_opt {A} k k' (o : option A) (g : A -> bytes) :
  map_remove k (opt_list o (fun v => [(k', g v)])) = if bytes_eqb k k' then [] else opt_list o (fun v => [(k', g v)]).
Proof. destruct o as [a|]; cbn [opt_list]; unfold map_remove; cbn [filter fst]; destruct (bytes_eqb k k'); reflexivity. Qed.
Lemma map_remove_nil k : map_remove k [] = []. Proof. reflexivity. Qed.

Ltac ceq :=
  match goal with
  | |- context [bytes_eqb (str ?a) (str ?b)] =>
      let r := eval vm_compute in (bytes_eqb (str a) (str b)) in change (bytes_eqb (str a) (str b)) with r
  end.
Ltac segs :=
  repeat first
    [ ceq | progress cbv beta iota
    | rewrite vm_get_cons | rewrite map_remove_cons
    | rewrite vm_get_app | rewrite vm_get_opt | rewrite vm_get_nil
    | rewrite map_remove_app | rewrite map_remove_opt | rewrite map_remove_nil
    | progress cbn [app option_map] ].
