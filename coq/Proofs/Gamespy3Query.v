(* C04, GameSpy 3: the whole query - handshake, data request, every packet the
   server sends, reassembly, decoding - returns exactly the server state. *)
From GD Require Import Base.Prelude Model.Strings Model.StrOps Model.Buffer Model.Net Model.Valve Model.Gamespy.
From GD Require Import Spec.ValveSpec Spec.QuakeSpec Spec.GamespySpec.
From GD Require Import Proofs.BufferLemmas Proofs.ReadSpecs Proofs.Str Proofs.Utf8 Proofs.ValveRoundtrip Proofs.QuakeRoundtrip Proofs.GamesProofs
  Proofs.GamespyProofs Proofs.IdProofs Proofs.GamespyOrder Proofs.Gamespy2Roundtrip Proofs.Jc2mRoundtrip Proofs.Gamespy3Roundtrip Proofs.Gamespy3Reply.
From Coq Require Import ZifyBool ZifyNat ZifyN Lia.

(* ---------- one datagram: kind byte, session id 1, body ---------- *)
Lemma gs3_receive_ok size kind body u t sn cur tr :
  (length body + 5 <= N.to_nat (match size with Some s => s | None => 2048 end))%nat ->
  gs3_receive size kind (mknet (Datagram ([kind; 0; 0; 0; 1] ++ body) :: u) t [] sn cur tr)
  = (Ok body, mknet u t [] sn cur (RecvEv (Some (match size with Some s => s | None => 2048 end)) :: tr)).
Proof.
  intros H. unfold gs3_receive, mbind, udp_recv. cbn [n_udp n_tcp n_fail n_sends n_cur n_trace].
  rewrite firstn_all2 by (cbn [app length]; lia).
  unfold mlift, run_r. change (buf_new ?d) with (at_ [] d). cbn [app].
  erewrite bind_ok by apply read_u8_lt. rewrite N.eqb_refl. cbn [negb].
  change (0 :: 0 :: 0 :: 1 :: body) with ([0; 0; 0; 1] ++ body).
  erewrite bind_ok by (apply (read_uint_at true [0; 0; 0; 1])).
  change (val_of true [0; 0; 0; 1]) with 1. cbn [N.eqb Pos.eqb negb]. reflexivity.
Qed.

(* ---------- the header of a data packet: "splitnum", packet number, one more byte ---------- *)
Lemma splitnum_parse id payload :
  run_r (let* s := read_cstr in
         if negb (bytes_eqb s (str "splitnum")) then fail PacketBad
         else let* id := read_u8 in
              let* _ := move_cursor 1 in
              fun b => match remaining_bytes b with
                       | Ok r => (Ok (id, r), b)
                       | o => (ofail o, b)
                       end) (cstr (str "splitnum") ++ [id; 0] ++ payload) = Ok (id, payload).
Proof.
  unfold run_r. change (buf_new ?d) with (at_ [] d). unfold cstr, nul. rewrite <- app_assoc. cbn [app].
  erewrite bind_ok by (apply (cstr_at (str "splitnum")); vm_compute; reflexivity).
  change (bytes_eqb (str "splitnum") (str "splitnum")) with true. cbn [negb].
  erewrite bind_ok by apply read_u8_lt.
  change (0 :: payload) with ([0] ++ payload). change 1%Z with (Z.of_nat (length [0])).
  erewrite bind_ok by apply move_at. reflexivity.
Qed.

(* ---------- collecting the packets, in the order sent ---------- *)
Definition pk (n : nat) (ib : N * bytes) : bytes :=
  [0; 0; 0; 0; 1] ++ cstr (str "splitnum") ++ [(fst ib + (if Nat.eqb (S (N.to_nat (fst ib))) n then 128 else 0)); 0] ++ snd ib.

Lemma set_nth_append (p : bytes) : forall done : list bytes,
  set_nth (length done) (fun _ => p) [] (pad_to (length done + 1) [] done) = done ++ [p].
Proof. induction done as [|x done IH]; [reflexivity|]. cbn [length Nat.add pad_to set_nth app]. rewrite IH. reflexivity. Qed.

Lemma packets_loop_ok : forall (todo done : list bytes) fuel t sn cur tr,
  todo <> [] -> (length done + length todo <= 128)%nat -> (length todo <= fuel)%nat ->
  forallb nonempty done = true -> forallb nonempty todo = true ->
  Forall (fun p => (length p + 17 <= 2048)%nat) todo ->
  exists tr',
    gs3_packets_loop fuel done None
      (mknet (map Datagram (map (pk (length done + length todo)) (indexed (N.of_nat (length done)) todo))) t [] sn cur tr)
    = (Ok (done ++ todo), mknet [] t [] sn cur tr').
Proof.
  induction todo as [|p r IH]; intros done fuel t sn cur tr Hne Hn Hf Hd Ht Hsz; [contradiction|].
  destruct fuel as [|f]; [cbn [length] in Hf; lia|].
  cbn [forallb] in Ht. apply andb_prop in Ht. destruct Ht as [Hp Ht].
  inversion Hsz as [|? ? Hps Hrs]; subst.
  set (i := length done) in *. cbn [length] in Hn, Hf.
  cbn [indexed map gs3_packets_loop]. unfold pk at 1. cbn [fst snd].
  unfold mbind at 1.
  rewrite gs3_receive_ok by (unfold cstr, nul; rewrite !app_length; change (length (str "splitnum")) with 8%nat; cbn [length]; lia).
  rewrite splitnum_parse.
  destruct r as [|p2 r'].
  - (* the last packet *)
    cbn [length]. replace (Nat.eqb (S (N.to_nat (N.of_nat i))) (i + 1)) with true by lia.
    replace (128 <=? N.of_nat i + 128) with true by lia.
    replace (N.to_nat ((N.of_nat i + 128) mod 128)) with i.
    2:{ replace (N.of_nat i + 128) with (N.of_nat i + 1 * 128) by lia. rewrite N.mod_add by lia. rewrite N.mod_small by lia. lia. }
    cbv zeta. unfold i. rewrite set_nth_append.
    assert (Hr : ((length done + 1 <=? length (done ++ [p]))%nat && forallb (fun v : bytes => match v with [] => false | _ => true end) (firstn (length done + 1) (done ++ [p]))) = true).
    { rewrite app_length. cbn [length]. rewrite Nat.leb_refl. cbn [andb]. rewrite firstn_all2 by (rewrite app_length; cbn [length]; lia).
      rewrite forallb_app. cbn [forallb]. change (forallb _ done) with (forallb nonempty done). rewrite Hd. unfold nonempty in Hp. rewrite Hp. reflexivity. }
    match goal with |- context [if ?c then _ else _] => replace c with true by (symmetry; exact Hr) end. eexists. reflexivity.
  - (* more packets follow *)
    cbn [length] in *. replace (Nat.eqb (S (N.to_nat (N.of_nat i))) (i + S (S (length r')))) with false by lia.
    rewrite N.add_0_r. replace (128 <=? N.of_nat i) with false by lia.
    replace (N.to_nat (N.of_nat i mod 128)) with i by (rewrite N.mod_small by lia; lia).
    cbv zeta. unfold i. rewrite set_nth_append. cbv beta iota.
    specialize (IH (done ++ [p]) f t sn cur (RecvEv (Some 2048) :: tr) ltac:(discriminate)).
    rewrite app_length in IH. cbn [length] in IH.
    replace (N.of_nat (length done + 1)) with (N.of_nat (length done) + 1) in IH by lia.
    replace (length done + 1 + S (length r'))%nat with (length done + S (S (length r')))%nat in IH by lia.
    destruct IH as [tr' E]; try lia; try assumption.
    { rewrite forallb_app. cbn [forallb]. rewrite Hd, Hp. reflexivity. }
    rewrite <- app_assoc in E. cbn [app] in E. exists tr'. exact E.
Qed.

(* ---------- every payload is non-empty ---------- *)
Definition starts_mark (x : list tok) : bool := match x with TMark _ :: _ => true | _ => false end.
Lemma starts_mark_nonempty x : starts_mark x = true -> nonempty (flat_map enc_tok x) = true.
Proof. destruct x as [|[c|] x]; try discriminate. reflexivity. Qed.
Lemma bodies_toks_mark pid resend : forall gs offset prev, forallb starts_mark (bodies_toks pid resend offset prev gs) = true.
Proof.
  induction gs as [|g r IH]; intros offset prev; [reflexivity|]. cbn [bodies_toks].
  destruct (match prev with Some p => _ | None => _ end) as [off items]. cbn [forallb]. rewrite IH. reflexivity.
Qed.
Lemma join_last_mark y : forall l, l <> [] -> forallb starts_mark l = true -> forallb starts_mark (join_last l y) = true.
Proof.
  induction l as [|x l IH]; intros Hne Hl; [contradiction|]. destruct l as [|x2 l].
  - cbn [join_last forallb] in *. apply andb_prop in Hl. destruct Hl as [Hx _]. destruct x as [|[c|] x]; try discriminate. reflexivity.
  - change (join_last (x :: x2 :: l) y) with (x :: join_last (x2 :: l) y). cbn [forallb] in Hl |- *. apply andb_prop in Hl. destruct Hl as [-> Hl].
    rewrite IH; [reflexivity|discriminate|exact Hl].
Qed.
Lemma s3_toks_mark s : forallb starts_mark (s3_toks s) = true.
Proof.
  unfold s3_toks. cbv zeta. set (gs := groups _ _ _). apply join_last_mark.
  - destruct gs eqn:E; [discriminate|apply bodies_toks_nonempty; discriminate].
  - destruct gs eqn:E; [reflexivity|apply bodies_toks_mark].
Qed.
Lemma payloads_nonempty s : s3_payloads s <> [] /\ forallb nonempty (s3_payloads s) = true.
Proof.
  destruct (s3_payloads_toks s) as [h [t [Et Ep]]]. rewrite Ep. split; [discriminate|]. cbn [forallb].
  assert (H1 : nonempty (flat_map enc_kv (s3_vars s) ++ 0 :: h) = true) by (destruct (flat_map enc_kv (s3_vars s)); reflexivity).
  rewrite H1. cbn [andb].
  pose proof (s3_toks_mark s) as Hm. destruct (s3_toks s) as [|x xs]; [discriminate|]. cbn [map] in Et. inversion Et; subst.
  cbn [forallb] in Hm. apply andb_prop in Hm. destruct Hm as [_ Hm].
  clear - Hm. induction xs as [|y ys IH]; [reflexivity|]. cbn [forallb map] in *. apply andb_prop in Hm. destruct Hm as [Hy Hm].
  rewrite (starts_mark_nonempty _ Hy), IH by exact Hm. reflexivity.
Qed.
Lemma no_empty (vs : list bytes) : forallb nonempty vs = true -> existsb (fun v : bytes => match v with [] => true | _ => false end) vs = false.
Proof. induction vs as [|v vs IH]; intros H; [reflexivity|]. cbn [forallb existsb] in *. apply andb_prop in H. destruct H as [Hv H]. destruct v; [discriminate|]. apply IH. exact H. Qed.

(* ---------- one attempt: handshake, request, all packets ---------- *)
Lemma mbind_ok {A B} (m : M A) (f : A -> M B) n a n' : m n = (Ok a, n') -> mbind m f n = f a n'.
Proof. intros H. unfold mbind. rewrite H. reflexivity. Qed.
Lemma send_ok port d u t sn cur tr : send port d (mknet u t [] sn cur tr) = (Ok tt, mknet u t [] (sn + 1) cur (SendEv port d :: tr)).
Proof. reflexivity. Qed.

Lemma gs3_handshake_ok port s rest t sn cur tr :
  (- 2147483648 <= s3_challenge s < 2147483648)%Z -> (length (show_Z (s3_challenge s)) <= 10)%nat ->
  gs3_handshake port (mknet (Datagram (s3_handshake s) :: rest) t [] sn cur tr)
  = (Ok (if (s3_challenge s =? 0)%Z then None else Some (s3_challenge s)),
     mknet rest t [] (sn + 1) cur (RecvEv (Some 16) :: SendEv port [254; 253; 9; 0; 0; 0; 1] :: tr)).
Proof.
  intros Hc Hcl. unfold gs3_handshake.
  erewrite mbind_ok by apply send_ok.
  unfold s3_handshake.
  erewrite mbind_ok by (apply (gs3_receive_ok (Some 16) 9); unfold cstr, nul; rewrite app_length; cbn [length]; lia).
  assert (Hrd : run_r read_cstr (cstr (show_Z (s3_challenge s))) = Ok (show_Z (s3_challenge s))).
  { unfold run_r. change (buf_new ?d) with (at_ [] d). unfold cstr, nul.
    pose proof (item_ok_show_Z (s3_challenge s)) as Hi. unfold item_ok in Hi. apply andb_prop in Hi. destruct Hi as [Hi _].
    rewrite (cstr_at _ [] [] Hi). reflexivity. }
  erewrite mbind_ok by (unfold mlift; rewrite Hrd; reflexivity).
  erewrite mbind_ok by (unfold mlift; rewrite (parse_signed32_show _ Hc); reflexivity).
  reflexivity.
Qed.

Lemma indexed_length {A} (l : list A) : forall i, length (indexed i l) = length l.
Proof. induction l as [|x l IH]; intros i; [reflexivity|]. cbn [indexed length]. rewrite IH. reflexivity. Qed.

Lemma gs3_packets_impl_ok port s t sn cur tr :
  (- 2147483648 <= s3_challenge s < 2147483648)%Z -> (length (show_Z (s3_challenge s)) <= 10)%nat ->
  (length (s3_payloads s) <= 128)%nat -> Forall (fun p => (length p + 17 <= 2048)%nat) (s3_payloads s) ->
  exists n', gs3_packets_impl port (mknet (map Datagram (s3_script s)) t [] sn cur tr) = (Ok (s3_payloads s), n').
Proof.
  intros Hc Hcl Hn Hsz. unfold gs3_packets_impl, s3_script. cbn [map n_udp length].
  erewrite mbind_ok by (apply gs3_handshake_ok; assumption).
  unfold gs3_data_request. erewrite mbind_ok by apply send_ok.
  destruct (payloads_nonempty s) as [Hne Hnn].
  pose proof (packets_loop_ok (s3_payloads s) [] (S (S (length (map Datagram (s3_packets s))))) t (sn + 1 + 1) cur) as L.
  cbn [length Nat.add app] in L.
  match goal with |- exists n', mbind _ _ (mknet _ _ _ _ _ ?tr0) = _ => specialize (L tr0 Hne Hn) end.
  assert (Hlen : length (s3_packets s) = length (s3_payloads s)) by (rewrite s3_packets_payloads, map_length, indexed_length; reflexivity).
  destruct L as [tr' E]; [rewrite map_length, Hlen; unfold bytes; lia|reflexivity|exact Hnn|exact Hsz|].
  erewrite mbind_ok by exact E.
  match goal with |- context [if ?c then _ else _] => replace c with false by (symmetry; exact (no_empty _ Hnn)) end. eexists. reflexivity.
Qed.

(* ---------- the whole query ---------- *)
Theorem gs3_query_roundtrip : forall port s, wf_s3 s = true ->
  (- 2147483648 <= s3_challenge s < 2147483648)%Z -> (length (show_Z (s3_challenge s)) <= 10)%nat ->
  (length (s3_payloads s) <= 128)%nat -> Forall (fun p => (length p + 17 <= 2048)%nat) (s3_payloads s) ->
  fst (gs3_query port None (script_net (s3_script s))) = Ok (s3_expected s).
Proof.
  intros port s Hwf Hc Hcl Hn Hsz. unfold gs3_query, gs3_packets, script_net, net_init.
  assert (Hnew : forall u t f sn cur tr, udp_new port None (mknet u t f sn cur tr)
                 = (Ok tt, mknet u t f sn cur (ApplyTimeout (Some (4, 0)) (Some (4, 0)) :: NewUdp port :: tr))) by reflexivity.
  destruct (gs3_packets_impl_ok port s [] 0 None [ApplyTimeout (Some (4, 0)) (Some (4, 0)); NewUdp port] Hc Hcl Hn Hsz) as [n' E].
  erewrite mbind_ok.
  2:{ erewrite mbind_ok by apply Hnew. unfold retry_on_timeout. cbn [ts_retries_or_default N.to_nat retry_loop]. rewrite E. reflexivity. }
  unfold mlift. cbn [fst]. apply gs3_roundtrip. exact Hwf.
Qed.

(* the hypotheses can be met (three packets, non-zero challenge) *)
Example ex_s3_query : (- 2147483648 <= s3_challenge ex_s3 < 2147483648)%Z /\ (length (show_Z (s3_challenge ex_s3)) <= 10)%nat
  /\ (length (s3_payloads ex_s3) <= 128)%nat /\ forallb (fun p => (length p + 17 <=? 2048)%nat) (s3_payloads ex_s3) = true.
Proof. repeat split; try (vm_compute; discriminate); try (vm_compute; lia); vm_compute; reflexivity. Qed.
