(* C11: gather toggles and the app-id check (Valve). *)
From GD Require Import Base.Prelude Model.Strings Model.Buffer Model.Net Model.Valve Spec.ValveSpec.

(* Skip: the section's function is not run at all - no request, state untouched *)
Lemma gather_skip : forall A (m : M A) n, maybe_gather Skip m n = (Ok None, n).
Proof. reflexivity. Qed.
(* Try: success keeps the section, an error (of any kind) drops only the section *)
Lemma gather_try_ok : forall A (m : M A) n a n', m n = (Ok a, n') -> maybe_gather Try m n = (Ok (Some a), n').
Proof. intros A m n a n' H. unfold maybe_gather. rewrite H. reflexivity. Qed.
Lemma gather_try_err : forall A (m : M A) n e n', m n = (Err e, n') -> maybe_gather Try m n = (Ok None, n').
Proof. intros A m n e n' H. unfold maybe_gather. rewrite H. reflexivity. Qed.
(* Enforce: the section's failure is the query's failure *)
Lemma gather_enforce_ok : forall A (m : M A) n a n', m n = (Ok a, n') -> maybe_gather Enforce m n = (Ok (Some a), n').
Proof. intros A m n a n' H. unfold maybe_gather, mbind. rewrite H. reflexivity. Qed.
Lemma gather_enforce_err : forall A (m : M A) n e n', m n = (Err e, n') -> maybe_gather Enforce m n = (Err e, n').
Proof. intros A m n e n' H. unfold maybe_gather, mbind. rewrite H. reflexivity. Qed.

Section Valve.
  Variable bz : bytes -> N -> outcome bytes.

  (* what the query does once the info reply has been decoded and accepted *)
  Definition sections (port : N) (e : engine) (g : gathering) (t : option tsettings) (info : server_info) : M response :=
    let retries := ts_retries_or_default t in
    let protocol := si_protocol_version info in
    do* players := maybe_gather (g_players g) (get_server_players bz port retries e protocol) in
    do* rules := maybe_gather (g_rules g) (get_server_rules bz port retries e protocol) in
    mret (mk_resp info players rules).

  Definition info_phase (port : N) (e : engine) (t : option tsettings) : M server_info :=
    do* _ := udp_new port t in get_server_info bz port (ts_retries_or_default t) e.

  Lemma appid_ok_bad : forall e g a,
    appid_ok e g a = negb (match e with
      | Source (Some (x, d)) =>
          negb ((x =? a) || match d with Some d' => d' =? a | None => false end) && g_check_app_id g
      | _ => false end).
  Proof.
    intros e g a. unfold appid_ok. destruct e as [[[x [d|]]|]|f]; try reflexivity.
    - destruct (x =? a), (d =? a), (g_check_app_id g); reflexivity.
    - destruct (x =? a), (g_check_app_id g); reflexivity.
  Qed.

  (* the query is: info; then the app-id decision; then the gated sections *)
  Lemma query_structure : forall port e g t n,
    Valve.query bz port e (Some g) t n =
    match info_phase port e t n with
    | (Ok info, n1) =>
        if appid_ok e g (si_appid info) then sections port e g t info n1 else (Err BadGame, n1)
    | (o, n1) => (ofail o, n1)
    end.
  Proof.
    intros port e g t n. unfold Valve.query, info_phase, mbind.
    destruct (udp_new port t n) as [[u|x| | |] n0]; try reflexivity.
    destruct (get_server_info bz port (ts_retries_or_default t) e n0) as [[info|x| | |] n1]; try reflexivity.
    rewrite appid_ok_bad.
    match goal with |- (if ?b then _ else _) _ = _ => destruct b end; reflexivity.
  Qed.

  (* a skipped players section: the query is the query without that section *)
  Lemma sections_skip_players : forall port e g t info n, g_players g = Skip ->
    sections port e g t info n =
    (do* rules := maybe_gather (g_rules g) (get_server_rules bz port (ts_retries_or_default t) e (si_protocol_version info)) in
     mret (mk_resp info None rules)) n.
  Proof. intros port e g t info n H. unfold sections. rewrite H. reflexivity. Qed.
  Lemma sections_skip_rules : forall port e g t info n, g_rules g = Skip ->
    sections port e g t info n =
    (do* players := maybe_gather (g_players g) (get_server_players bz port (ts_retries_or_default t) e (si_protocol_version info)) in
     mret (mk_resp info players None)) n.
  Proof.
    intros port e g t info n H. unfold sections. rewrite H. unfold mbind.
    destruct (maybe_gather (g_players g) _ n) as [[p|x| | |] n']; reflexivity.
  Qed.

  (* Try: a failing players section leaves the rest intact, section absent *)
  Lemma sections_try_players_err : forall port e g t info n x n',
    g_players g = Try ->
    get_server_players bz port (ts_retries_or_default t) e (si_protocol_version info) n = (Err x, n') ->
    sections port e g t info n =
    (do* rules := maybe_gather (g_rules g) (get_server_rules bz port (ts_retries_or_default t) e (si_protocol_version info)) in
     mret (mk_resp info None rules)) n'.
  Proof.
    intros port e g t info n x n' Hg Hp. unfold sections. rewrite Hg. unfold mbind at 1.
    rewrite (gather_try_err _ _ _ _ _ Hp). reflexivity.
  Qed.
  Lemma sections_try_rules_err : forall port e g t info n players n1 x n',
    maybe_gather (g_players g) (get_server_players bz port (ts_retries_or_default t) e (si_protocol_version info)) n = (Ok players, n1) ->
    g_rules g = Try ->
    get_server_rules bz port (ts_retries_or_default t) e (si_protocol_version info) n1 = (Err x, n') ->
    sections port e g t info n = (Ok (mk_resp info players None), n').
  Proof.
    intros port e g t info n players n1 x n' Hp Hg Hr. unfold sections. unfold mbind at 1. rewrite Hp.
    rewrite Hg. unfold mbind. rewrite (gather_try_err _ _ _ _ _ Hr). reflexivity.
  Qed.

  (* Enforce: a failing section makes the whole query fail with that failure *)
  Lemma sections_enforce_players_err : forall port e g t info n x n',
    g_players g = Enforce ->
    get_server_players bz port (ts_retries_or_default t) e (si_protocol_version info) n = (Err x, n') ->
    sections port e g t info n = (Err x, n').
  Proof.
    intros port e g t info n x n' Hg Hp. unfold sections. rewrite Hg. unfold mbind at 1.
    rewrite (gather_enforce_err _ _ _ _ _ Hp). reflexivity.
  Qed.
  Lemma sections_enforce_rules_err : forall port e g t info n players n1 x n',
    maybe_gather (g_players g) (get_server_players bz port (ts_retries_or_default t) e (si_protocol_version info)) n = (Ok players, n1) ->
    g_rules g = Enforce ->
    get_server_rules bz port (ts_retries_or_default t) e (si_protocol_version info) n1 = (Err x, n') ->
    sections port e g t info n = (Err x, n').
  Proof.
    intros port e g t info n players n1 x n' Hp Hg Hr. unfold sections. unfold mbind at 1. rewrite Hp.
    rewrite Hg. unfold mbind. rewrite (gather_enforce_err _ _ _ _ _ Hr). reflexivity.
  Qed.
End Valve.
