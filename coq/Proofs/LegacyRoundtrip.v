(* C03: the legacy Minecraft kick packets (1.6, 1.4 and beta 1.8 formats) are
   decoded to exactly the status the server sent: UTF-16BE text, fields
   separated by U+0000 (1.6) or U+00A7 (older). *)
From GD Require Import Base.Prelude Model.Strings Model.StrOps Model.Buffer Model.Net Model.Valve Model.Gamespy Model.View Model.Minecraft.
From GD Require Import Spec.ValveSpec Spec.QuakeSpec Spec.GamespySpec Spec.MinecraftSpec.
From GD Require Import Proofs.BufferLemmas Proofs.ReadSpecs Proofs.Str Proofs.Utf8 Proofs.ValveRoundtrip Proofs.QuakeRoundtrip Proofs.GamesProofs
  Proofs.MinecraftRoundtrip.
From Coq Require Import ZifyBool ZifyNat ZifyN Lia.
Ltac Zify.zify_post_hook ::= Z.div_mod_to_equations.

(* a Unicode scalar value other than U+0000 *)
Definition scalar_ok (c : N) : bool := (0 <? c) && (c <? 1114112) && negb ((55296 <=? c) && (c <=? 57343)).

(* ---------- UTF-16 units ---------- *)
Definition unit_bytes (u : N) : bytes := [u / 256; u mod 256].
Definition units_bytes (us : list N) : bytes := flat_map unit_bytes us.
Lemma utf16be_units l : utf16be l = units_bytes (flat_map utf16_units1 l).
Proof.
  unfold utf16be, units_bytes. induction l as [|c l IH]; [reflexivity|]. cbn [flat_map]. rewrite flat_map_app, IH. reflexivity.
Qed.
Definition unit_ok (u : N) : Prop := 0 < u < 65536.
Lemma units1_ok c : scalar_ok c = true -> Forall unit_ok (utf16_units1 c).
Proof.
  unfold scalar_ok, utf16_units1, unit_ok. intros H. destruct (c <? 65536) eqn:E; repeat constructor; lia.
Qed.
Lemma units_ok l : forallb scalar_ok l = true -> Forall unit_ok (flat_map utf16_units1 l).
Proof.
  induction l as [|c l IH]; intro H; [constructor|]. cbn [forallb] in H. apply andb_prop in H. destruct H as [H1 H2].
  cbn [flat_map]. apply Forall_app. split; [apply units1_ok; exact H1|apply IH; exact H2].
Qed.
Lemma u16_units_bytes us r : Forall unit_ok us -> u16_units true (units_bytes us ++ r) = us ++ u16_units true r.
Proof.
  induction 1 as [|u us Hu Hus IH]; [reflexivity|]. cbn [units_bytes flat_map unit_bytes app u16_units].
  fold (units_bytes us). rewrite IH. f_equal. unfold unit_ok in Hu. lia.
Qed.
Lemma units_bytes_length us : length (units_bytes us) = (2 * length us)%nat.
Proof. induction us as [|u us IH]; [reflexivity|]. cbn [units_bytes flat_map unit_bytes app length]. fold (units_bytes us). lia. Qed.

Lemma scalars_of_units1 c r : scalar_ok c = true ->
  utf16_scalars (utf16_units1 c ++ r) = match utf16_scalars r with Some s => Some (c :: s) | None => None end.
Proof.
  unfold scalar_ok, utf16_units1. intros H. destruct (c <? 65536) eqn:E.
  - cbn [app utf16_scalars]. unfold in_rng.
    replace ((55296 <=? c) && (c <=? 56319)) with false by lia. replace ((56320 <=? c) && (c <=? 57343)) with false by lia. reflexivity.
  - cbn [app utf16_scalars]. unfold in_rng.
    replace ((55296 <=? 55296 + (c - 65536) / 1024) && (55296 + (c - 65536) / 1024 <=? 56319)) with true by lia.
    replace ((56320 <=? 56320 + (c - 65536) mod 1024) && (56320 + (c - 65536) mod 1024 <=? 57343)) with true by lia.
    destruct (utf16_scalars r); [|reflexivity]. f_equal. f_equal. lia.
Qed.
Lemma scalars_of_units l : forallb scalar_ok l = true -> utf16_scalars (flat_map utf16_units1 l) = Some l.
Proof.
  induction l as [|c l IH]; intro H; [reflexivity|]. cbn [forallb] in H. apply andb_prop in H. destruct H as [H1 H2].
  cbn [flat_map]. rewrite scalars_of_units1 by exact H1. rewrite IH by exact H2. reflexivity.
Qed.

(* the first U+0000 *)
Lemma find_pair_units us r : Forall unit_ok us -> find_pair 0 0 (units_bytes us ++ 0 :: 0 :: r) = Some (length us).
Proof.
  induction 1 as [|u us Hu Hus IH]; [reflexivity|]. cbn [units_bytes flat_map unit_bytes app find_pair length]. fold (units_bytes us).
  rewrite IH. unfold unit_ok in Hu. replace ((u / 256 =? 0) && (u mod 256 =? 0)) with false by lia. reflexivity.
Qed.
Lemma find_pair_none us : Forall unit_ok us -> find_pair 0 0 (units_bytes us) = None.
Proof.
  induction 1 as [|u us Hu Hus IH]; [reflexivity|]. cbn [units_bytes flat_map unit_bytes app find_pair]. fold (units_bytes us).
  rewrite IH. unfold unit_ok in Hu. replace ((u / 256 =? 0) && (u mod 256 =? 0)) with false by lia. reflexivity.
Qed.

(* ---------- one UTF-16BE string ---------- *)
Lemma read_u16s_terminated l pre r : forallb scalar_ok l = true ->
  read_u16s (at_ pre (utf16be l ++ 0 :: 0 :: r)) = (Ok (u8s l), at_ (pre ++ utf16be l ++ [0; 0]) r).
Proof.
  intros H. pose proof (units_ok l H) as Hu. unfold read_u16s, dec_utf16, with_slice, at_. cbn [over rest N.eqb].
  rewrite utf16be_units. rewrite (find_pair_units _ r Hu).
  set (us := flat_map utf16_units1 l) in *.
  assert (Hf : firstn (2 * length us) (units_bytes us ++ 0 :: 0 :: r) = units_bytes us).
  { rewrite <- units_bytes_length. apply firstn_app_exact. }
  rewrite Hf. rewrite <- (app_nil_r (units_bytes us)) at 1. rewrite (u16_units_bytes us [] Hu). cbn [u16_units]. rewrite app_nil_r.
  unfold us. rewrite (scalars_of_units l H). unfold u8s. f_equal.
  fold us. rewrite app_length. cbn [length].
  replace (Nat.min (2 * length us + 2) (length (units_bytes us) + S (S (length r)))) with (length (units_bytes us ++ [0; 0]))
    by (rewrite app_length, units_bytes_length; cbn [length]; lia).
  change (mkbuf (rev pre) (units_bytes us ++ 0 :: 0 :: r) 0) with (at_ pre (units_bytes us ++ 0 :: 0 :: r)).
  replace (units_bytes us ++ 0 :: 0 :: r) with ((units_bytes us ++ [0; 0]) ++ r) by (rewrite <- app_assoc; reflexivity).
  rewrite advance_at. rewrite <- ?app_assoc. reflexivity.
Qed.
Lemma read_u16s_end l pre : forallb scalar_ok l = true ->
  read_u16s (at_ pre (utf16be l)) = (Ok (u8s l), at_ (pre ++ utf16be l) []).
Proof.
  intros H. pose proof (units_ok l H) as Hu. unfold read_u16s, dec_utf16, with_slice, at_. cbn [over rest N.eqb].
  rewrite utf16be_units. rewrite (find_pair_none _ Hu).
  set (us := flat_map utf16_units1 l) in *.
  assert (Hm : (length (units_bytes us) - Nat.modulo (length (units_bytes us)) 2)%nat = length (units_bytes us)).
  { rewrite units_bytes_length. replace (Nat.modulo (2 * length us) 2) with 0%nat; [lia|]. symmetry. rewrite Nat.mul_comm. apply Nat.mod_mul. lia. }
  rewrite Hm, firstn_all. rewrite <- (app_nil_r (units_bytes us)) at 1. rewrite (u16_units_bytes us [] Hu). cbn [u16_units]. rewrite app_nil_r.
  unfold us. rewrite (scalars_of_units l H). unfold u8s. f_equal. fold us.
  replace (Nat.min (length (units_bytes us) + 2) (length (units_bytes us))) with (length (units_bytes us)) by lia.
  change (mkbuf (rev pre) (units_bytes us) 0) with (at_ pre (units_bytes us)).
  rewrite <- (app_nil_r (units_bytes us)) at 2. rewrite advance_at. reflexivity.
Qed.

(* ---------- texts ---------- *)
Lemma utf16be_app a b : utf16be (a ++ b) = utf16be a ++ utf16be b.
Proof. unfold utf16be. apply flat_map_app. Qed.
Lemma utf16be_length_even l : forallb scalar_ok l = true -> exists k, length (utf16be l) = (2 * k)%nat /\ k = length (flat_map utf16_units1 l).
Proof. intros H. rewrite utf16be_units, units_bytes_length. eexists. split; reflexivity. Qed.
Lemma digits_scalar_ok n : forallb scalar_ok (show_N n) = true.
Proof.
  apply forallb_forall. intros c Hc. pose proof (show_N_digits n c Hc) as H. unfold scalar_ok. lia.
Qed.
Lemma show_Z_scalar_ok z : forallb scalar_ok (show_Z z) = true.
Proof. destruct z; cbn [show_Z]; [reflexivity|apply digits_scalar_ok|cbn [forallb]; rewrite digits_scalar_ok; reflexivity]. Qed.
Lemma u8s_show_Z z : u8s (show_Z z) = show_Z z.
Proof.
  unfold u8s. apply utf8_ascii. destruct z; cbn [show_Z]; [reflexivity| |cbn [forallb]; apply andb_true_intro; split; [reflexivity|]];
    apply forallb_forall; intros c Hc; pose proof (show_N_digits _ c Hc); lia.
Qed.
Lemma parse_signed_show z : (- 2147483648 <= z < 2147483648)%Z -> parse_signed 32 (show_Z z) = Some z.
Proof.
  intros H. pose proof (parse_i32_show z H) as P. unfold Quake.parse_i32 in P. destruct (parse_signed 32 (show_Z z)); [inversion P; reflexivity|discriminate].
Qed.

Definition wf_legacy (s : legacy_status) : bool :=
  forallb scalar_ok (ls_version s) && forallb scalar_ok (ls_motd s)
  && (- 2147483648 <=? ls_protocol s)%Z && (ls_protocol s <? 2147483648)%Z
  && (ls_online s <? 4294967296) && (ls_max s <? 4294967296).

(* the kick packet of a text whose UTF-16 form has fewer than 65536 units passes the header check *)
Lemma legacy_header_at text : forallb (fun c => (c =? 0) || scalar_ok c) text = true -> lenN (utf16be text) / 2 < 65536 ->
  (exists k, length (utf16be text) = (2 * k)%nat) ->
  legacy_header (kick text) (at_ [] (kick text)) = (Ok tt, at_ ([255] ++ be_bytes 2 (lenN (utf16be text) / 2)) (utf16be text)).
Proof.
  intros _ Hlen [k Hk]. unfold legacy_header. unfold kick at 2. cbn [app].
  erewrite bind_ok by apply read_u8_lt. cbn [N.eqb Pos.eqb negb].
  erewrite bind_ok by (exact (read_uint_at true (be_bytes 2 (lenN (utf16be text) / 2)) [255] (utf16be text))).
  rewrite val_of_be by (cbn; lia). unfold lift. unfold error_by_expected_size.
  assert (E : lenN (kick text) = lenN (utf16be text) / 2 * 2 + 3).
  { unfold kick, lenN. rewrite !app_length. unfold be_bytes. rewrite rev_length, le_bytes_length. cbn [length]. rewrite Hk. lia. }
  rewrite E, !N.ltb_irrefl. reflexivity.
Qed.

Lemma bind_lift_ok {A B} (a : A) (f : A -> R B) b : bind (lift (Ok a)) f b = f a b.
Proof. reflexivity. Qed.

(* ---------- the 1.6 format ---------- *)
Definition units_count (text : list N) : N := lenN (utf16be text) / 2.

Theorem v16_roundtrip : forall s, wf_legacy s = true -> units_count (v16_text s) < 65536 ->
  legacy_parse V1_6 (kick (v16_text s)) = Ok (v16_expected s) /\ legacy_parse V1_4 (kick (v16_text s)) = Ok (v16_expected s).
Proof.
  intros s H Hlen. unfold wf_legacy in H. do 5 (apply andb_prop in H; destruct H as [H ?]).
  rename H into Hver, H0 into Hmx, H1 into Hon, H2 into Hp2, H3 into Hp1, H4 into Hmotd.
  assert (Hhead : legacy_header (kick (v16_text s)) (at_ [] (kick (v16_text s)))
                  = (Ok tt, at_ ([255] ++ be_bytes 2 (lenN (utf16be (v16_text s)) / 2)) (utf16be (v16_text s)))).
  { apply legacy_header_at; [|exact Hlen|].
    - unfold v16_text. rewrite !forallb_app. cbn [forallb].
      assert (W : forall l, forallb scalar_ok l = true -> forallb (fun c => (c =? 0) || scalar_ok c) l = true).
      { intros l Hl. apply forallb_forall. intros c Hc. rewrite forallb_forall in Hl. rewrite (Hl c Hc). apply orb_true_r. }
      rewrite (W _ (show_Z_scalar_ok _)), (W _ Hver), (W _ Hmotd), !(W _ (digits_scalar_ok _)). reflexivity.
    - unfold v16_text. rewrite !utf16be_app.
      destruct (utf16be_length_even _ (show_Z_scalar_ok (ls_protocol s))) as [k1 [E1 _]].
      destruct (utf16be_length_even _ Hver) as [k2 [E2 _]]. destruct (utf16be_length_even _ Hmotd) as [k3 [E3 _]].
      destruct (utf16be_length_even _ (digits_scalar_ok (ls_online s))) as [k4 [E4 _]].
      destruct (utf16be_length_even _ (digits_scalar_ok (ls_max s))) as [k5 [E5 _]].
      exists (3 + k1 + 1 + k2 + 1 + k3 + 1 + k4 + 1 + k5)%nat. rewrite !app_length, E1, E2, E3, E4, E5. cbn. lia. }
  assert (Hbody : forall pre,
            (let* is := is_v16 in if is then v16_response else fail ProtocolFormat) (at_ pre (utf16be (v16_text s)))
            = (Ok (v16_expected s), at_ (pre ++ utf16be (v16_text s)) [])
            /\ (let* is := is_v16 in if is then v16_response else old_response "1.4+" V1_4) (at_ pre (utf16be (v16_text s)))
            = (Ok (v16_expected s), at_ (pre ++ utf16be (v16_text s)) [])).
  { intros pre. unfold v16_text. rewrite !utf16be_app.
    change (utf16be [167; 49; 0]) with [0; 167; 0; 49; 0; 0]. change (utf16be [0]) with [0; 0].
    assert (Eis : forall X, is_v16 (at_ pre ([0; 167; 0; 49; 0; 0] ++ X)) = (Ok true, at_ (pre ++ [0; 167; 0; 49; 0; 0]) X)).
    { intros X. unfold is_v16. unfold remaining_bytes, at_ at 1. cbn [over rest N.eqb app starts_with N.eqb Pos.eqb andb].
      change (mkbuf (rev pre) (0 :: 167 :: 0 :: 49 :: 0 :: 0 :: X) 0) with (at_ pre ([0; 167; 0; 49; 0; 0] ++ X)).
      erewrite bind_ok by (exact (move_at [0; 167; 0; 49; 0; 0] pre X)). reflexivity. }
    assert (Ev : forall pre', v16_response (at_ pre' (utf16be (show_Z (ls_protocol s)) ++ [0; 0] ++ utf16be (ls_version s) ++ [0; 0] ++ utf16be (ls_motd s) ++ [0; 0]
                                 ++ utf16be (show_N (ls_online s)) ++ [0; 0] ++ utf16be (show_N (ls_max s))))
                 = (Ok (v16_expected s), at_ (pre' ++ utf16be (show_Z (ls_protocol s)) ++ [0; 0] ++ utf16be (ls_version s) ++ [0; 0] ++ utf16be (ls_motd s) ++ [0; 0]
                                 ++ utf16be (show_N (ls_online s)) ++ [0; 0] ++ utf16be (show_N (ls_max s))) [])).
    { intros pre'. unfold v16_response. cbn [app].
      erewrite bind_ok by (apply read_u16s_terminated, show_Z_scalar_ok).
      rewrite u8s_show_Z, parse_signed_show by lia. cbn [need]. rewrite bind_lift_ok.
      erewrite bind_ok by (apply read_u16s_terminated; exact Hver).
      erewrite bind_ok by (apply read_u16s_terminated; exact Hmotd).
      erewrite bind_ok by (apply read_u16s_terminated, digits_scalar_ok).
      rewrite u8s_show_N, parse_unsigned_show by (unfold u32_max; lia). cbn [need]. rewrite bind_lift_ok.
      erewrite bind_ok by (apply read_u16s_end, digits_scalar_ok).
      rewrite u8s_show_N, parse_unsigned_show by (unfold u32_max; lia). cbn [need]. rewrite bind_lift_ok.
      unfold ret, v16_expected. rewrite <- !app_assoc. reflexivity. }
    split; (erewrite bind_ok by apply Eis); cbv beta iota; rewrite Ev; rewrite <- !app_assoc; reflexivity. }
  unfold legacy_parse, run_r. change (buf_new ?d) with (at_ [] d).
  split; (erewrite bind_ok by exact Hhead); [rewrite (proj1 (Hbody _))|rewrite (proj2 (Hbody _))]; reflexivity.
Qed.

Lemma utf8_encode_app_local a b : utf8_encode (a ++ b) = utf8_encode a ++ utf8_encode b.
Proof. unfold utf8_encode. apply flat_map_app. Qed.

(* ---------- the older formats: fields separated by U+00A7 ---------- *)
Lemma split_sect_step c X cur :
  (c =? 194) && match X with x :: _ => x =? 167 | [] => false end = false ->
  split_sect (c :: X) cur = split_sect X (c :: cur).
Proof.
  intros H. destruct (c =? 194) eqn:E.
  - apply N.eqb_eq in E. subst c. cbn [andb] in H. destruct X as [|x X]; [reflexivity|].
    destruct x as [|p]; [reflexivity|]. repeat (destruct p as [p|p|]; try reflexivity). discriminate H.
  - clear H. destruct c as [|p]; [reflexivity|]. repeat (destruct p as [p|p|]; try reflexivity). discriminate E.
Qed.
Lemma split_sect_sep X cur : split_sect (194 :: 167 :: X) cur = rev cur :: split_sect X [].
Proof. reflexivity. Qed.

(* the bytes of a scalar other than U+00A7 never contain the separator, whatever follows *)
Lemma split_sect_char c X cur : scalar_ok c = true -> c <> 167 ->
  split_sect (utf8_encode1 c ++ X) cur = split_sect X (rev (utf8_encode1 c) ++ cur).
Proof.
  unfold scalar_ok, utf8_encode1. intros H Hc.
  destruct (c <? 128) eqn:E1; [|destruct (c <? 2048) eqn:E2; [|destruct (c <? 65536) eqn:E3]]; cbn [app rev].
  - rewrite split_sect_step; [reflexivity|]. replace (c =? 194) with false by lia. reflexivity.
  - rewrite split_sect_step.
    + rewrite split_sect_step; [reflexivity|]. replace (128 + c mod 64 =? 194) with false by lia. reflexivity.
    + cbv beta iota. destruct (192 + c / 64 =? 194) eqn:E; [|reflexivity]. replace (128 + c mod 64 =? 167) with false by lia. reflexivity.
  - rewrite split_sect_step by (replace (224 + c / 4096 =? 194) with false by lia; reflexivity).
    rewrite split_sect_step by (replace (128 + c / 64 mod 64 =? 194) with false by lia; reflexivity).
    rewrite split_sect_step by (replace (128 + c mod 64 =? 194) with false by lia; reflexivity). reflexivity.
  - rewrite split_sect_step by (replace (240 + c / 262144 =? 194) with false by lia; reflexivity).
    rewrite split_sect_step by (replace (128 + c / 4096 mod 64 =? 194) with false by lia; reflexivity).
    rewrite split_sect_step by (replace (128 + c / 64 mod 64 =? 194) with false by lia; reflexivity).
    rewrite split_sect_step by (replace (128 + c mod 64 =? 194) with false by lia; reflexivity). reflexivity.
Qed.
Definition no_sect (l : list N) : bool := forallb (fun c => negb (c =? 167)) l.
Lemma split_sect_text : forall l X cur, forallb scalar_ok l = true -> no_sect l = true ->
  split_sect (u8s l ++ X) cur = split_sect X (rev (u8s l) ++ cur).
Proof.
  induction l as [|c l IH]; intros X cur H Hn; [reflexivity|].
  cbn [forallb] in H. apply andb_prop in H. destruct H as [H1 H2]. cbn [no_sect forallb] in Hn. apply andb_prop in Hn. destruct Hn as [N1 N2].
  unfold u8s in *. cbn [utf8_encode flat_map]. rewrite <- app_assoc, split_sect_char by (try exact H1; lia).
  fold (utf8_encode l). rewrite IH by assumption. rewrite rev_app_distr, <- app_assoc. reflexivity.
Qed.
Lemma digits_no_sect n : no_sect (show_N n) = true.
Proof. apply forallb_forall. intros c Hc. pose proof (show_N_digits n c Hc). lia. Qed.

Lemma not_v16_units us : Forall unit_ok us -> starts_with [0; 167; 0; 49; 0; 0] (units_bytes us) = false.
Proof.
  intros Hu. destruct us as [|u1 [|u2 [|u3 us]]].
  - reflexivity.
  - cbn [units_bytes flat_map unit_bytes app starts_with]. repeat (destruct (_ =? _); cbn [andb]; try reflexivity).
  - cbn [units_bytes flat_map unit_bytes app starts_with]. repeat (destruct (_ =? _); cbn [andb]; try reflexivity).
  - inversion Hu as [|? ? _ Hu2]; subst. inversion Hu2 as [|? ? _ Hu3]; subst. inversion Hu3 as [|? ? H3 _]; subst.
    cbn [units_bytes flat_map unit_bytes app starts_with]. unfold unit_ok in H3.
    destruct (0 =? u1 / 256); [|reflexivity]. destruct (167 =? u1 mod 256); [|reflexivity]. destruct (0 =? u2 / 256); [|reflexivity].
    destruct (49 =? u2 mod 256); [|reflexivity]. cbn [andb].
    destruct (0 =? u3 / 256) eqn:A; [|reflexivity]. destruct (0 =? u3 mod 256) eqn:B; [|reflexivity]. lia.
Qed.
Lemma not_v16 text pre : forallb scalar_ok text = true ->
  is_v16 (at_ pre (utf16be text)) = (Ok false, at_ pre (utf16be text)).
Proof.
  intros H. pose proof (units_ok text H) as Hu. unfold is_v16, remaining_bytes, at_ at 1. cbn [over rest N.eqb].
  rewrite utf16be_units. change (rest (at_ pre ?x)) with x. rewrite (not_v16_units _ Hu). reflexivity.
Qed.

Theorem old_roundtrip : forall s, wf_legacy s = true -> no_sect (ls_motd s) = true -> units_count (old_text s) < 65536 ->
  legacy_parse V1_4 (kick (old_text s)) = Ok (old_expected V1_4 s) /\ legacy_parse VB1_8 (kick (old_text s)) = Ok (old_expected VB1_8 s).
Proof.
  intros s H Hns Hlen. unfold wf_legacy in H. do 5 (apply andb_prop in H; destruct H as [H ?]).
  rename H into Hver, H0 into Hmx, H1 into Hon, H2 into Hp2, H3 into Hp1, H4 into Hmotd.
  assert (Hok : forallb scalar_ok (old_text s) = true).
  { unfold old_text. rewrite !forallb_app. cbn [forallb]. rewrite Hmotd, !digits_scalar_ok. reflexivity. }
  assert (Hhead : legacy_header (kick (old_text s)) (at_ [] (kick (old_text s)))
                  = (Ok tt, at_ ([255] ++ be_bytes 2 (lenN (utf16be (old_text s)) / 2)) (utf16be (old_text s)))).
  { apply legacy_header_at; [|exact Hlen|].
    - apply forallb_forall. intros c Hc. rewrite forallb_forall in Hok. rewrite (Hok c Hc). apply orb_true_r.
    - destruct (utf16be_length_even _ Hok) as [k [E _]]. exists k. exact E. }
  assert (Hold : forall pre ver g,
            old_response ver g (at_ pre (utf16be (old_text s)))
            = (Ok (mk_java (str ver) (-1) (ls_max s) (ls_online s) None (u8s (ls_motd s)) None None None (McLegacy g)), at_ (pre ++ utf16be (old_text s)) [])).
  { intros pre ver g. unfold old_response. erewrite bind_ok by (apply read_u16s_end; exact Hok).
    assert (Es : split_sect (u8s (old_text s)) [] = [u8s (ls_motd s); show_N (ls_online s); show_N (ls_max s)]).
    { unfold old_text, u8s. rewrite !utf8_encode_app_local. fold (u8s (ls_motd s)). fold (u8s (show_N (ls_online s))). fold (u8s (show_N (ls_max s))).
      change (utf8_encode [167]) with [194; 167].
      rewrite split_sect_text by assumption. cbn [app]. rewrite split_sect_sep.
      rewrite split_sect_text by (first [apply digits_scalar_ok | apply digits_no_sect]). cbn [app]. rewrite split_sect_sep.
      rewrite <- (app_nil_r (u8s (show_N (ls_max s)))). rewrite split_sect_text by (first [apply digits_scalar_ok | apply digits_no_sect]).
      cbn [split_sect]. rewrite !app_nil_r, !rev_involutive, !u8s_show_N. reflexivity. }
    rewrite Es. cbn [lenN length N.of_nat Pos.of_succ_nat Pos.succ nth]. unfold error_by_expected_size. cbn [N.ltb N.compare Pos.compare Pos.compare_cont].
    rewrite bind_lift_ok. rewrite !parse_unsigned_show by (unfold u32_max; lia). cbn [need]. rewrite !bind_lift_ok. reflexivity. }
  unfold legacy_parse, run_r. change (buf_new ?d) with (at_ [] d).
  split; (erewrite bind_ok by exact Hhead).
  - erewrite bind_ok by (apply not_v16; exact Hok). cbv beta iota. rewrite Hold. reflexivity.
  - rewrite Hold. reflexivity.
Qed.
