(* C07: The Ship and Battalion 1944. Both run the Valve query and map its
   response; with the Valve round trip (C02) the mapping lemmas below give: for
   every server state the game's query returns every field of the three replies
   under its own name. *)
From GD Require Import Base.Prelude Model.Strings Model.StrOps Model.Buffer Model.Net Model.Valve Model.Gamespy Model.Games.
From GD Require Import Spec.ValveSpec Spec.QuakeSpec Spec.GamespySpec Spec.GamesSpec.
From GD Require Import Proofs.BufferLemmas Proofs.Msafe Proofs.ValveRoundtrip Proofs.ValveTransport Proofs.IdProofs Proofs.GamespyProofs Proofs.Gamespy2Roundtrip.
From Coq Require Import ZifyBool ZifyNat ZifyN Lia.

Lemma omap_list_ext {A B} (f g : A -> outcome B) l : (forall a, f a = g a) -> omap_list f l = omap_list g l.
Proof. intros H. induction l as [|x l IH]; [reflexivity|]. cbn [omap_list]. rewrite H, IH. reflexivity. Qed.

(* ---------- The Ship ---------- *)
Definition ship_player_of (p : server_player) : outcome ship_player :=
  match sp_deaths p, sp_money p with
  | Some d, Some m => Ok (mk_shp (sp_name p) (sp_score p) (sp_duration p) d m)
  | _, _ => Err PacketBad
  end.
Lemma ship_players_shape ps : omap_list ship_player_of ps = Err PacketBad \/ exists l, omap_list ship_player_of ps = Ok l.
Proof.
  induction ps as [|p ps IH]; [right; eexists; reflexivity|]. cbn [omap_list]. unfold ship_player_of at 1 3.
  destruct (sp_deaths p), (sp_money p); cbn [obind]; try (left; reflexivity).
  destruct IH as [E|[l E]]; rewrite E; cbn [obind]; [left; reflexivity|right; eexists; reflexivity].
Qed.

Lemma ship_of_valve_spec r :
  ship_of_valve r =
  let i := r_info r in
  match si_the_ship i, r_players r, r_rules r with
  | Some sh, Some ps, Some rules =>
      ob* players := omap_list ship_player_of ps in
      let ed := si_extra_data i in
      Ok (mk_ship_r (si_protocol_version i) (si_name i) (si_map i) (si_game_mode i) (si_game_version i) players
                    (si_players_online i) (si_players_maximum i) (si_players_bots i) (si_server_type i)
                    (si_has_password i) (si_vac_secured i) (opt_bind ed ed_port) (opt_bind ed ed_steam_id)
                    (opt_bind ed ed_tv_port) (opt_bind ed ed_tv_name) (opt_bind ed ed_keywords) rules
                    (ship_mode sh) (ship_witnesses sh) (ship_duration sh))
  | _, _, _ => Err PacketBad
  end.
Proof.
  unfold ship_of_valve. cbv zeta.
  destruct (si_the_ship (r_info r)) as [sh|]; cbn [need obind]; [|reflexivity].
  destruct (r_players r) as [ps|]; cbn [need obind]; [|reflexivity].
  rewrite (omap_list_ext _ ship_player_of ps).
  2:{ intros p. unfold ship_player_of. destruct (sp_deaths p), (sp_money p); reflexivity. }
  destruct (r_rules r) as [rules|]; cbn [need obind].
  - destruct (omap_list ship_player_of ps); cbn [obind]; reflexivity.
  - destruct (ship_players_shape ps) as [E|[l E]]; rewrite E; reflexivity.
Qed.

(* ---------- Battalion 1944 ---------- *)
Lemma get_remove_neq k k' (m : vmap) : bytes_eqb k k' = false -> vm_get k (map_remove k' m) = vm_get k m.
Proof.
  intros E. induction m as [|[k2 v2] m IH]; [reflexivity|]. rewrite map_remove_cons, !vm_get_cons.
  destruct (bytes_eqb k' k2) eqn:E1.
  - apply bytes_eqb_eq in E1. subst k2. rewrite E. exact IH.
  - rewrite vm_get_cons. destruct (bytes_eqb k k2); [reflexivity|exact IH].
Qed.
Lemma remove_none k (m : vmap) : vm_get k m = None -> map_remove k m = m.
Proof.
  induction m as [|[k2 v2] m IH]; [reflexivity|]. rewrite vm_get_cons, map_remove_cons.
  destruct (bytes_eqb k k2); [discriminate|]. intros H. rewrite IH by exact H. reflexivity.
Qed.
Lemma map_remove_filter k (p : bytes * bytes -> bool) (m : vmap) :
  map_remove k (filter p m) = filter (fun kv => negb (bytes_eqb k (fst kv)) && p kv) m.
Proof.
  unfold map_remove. induction m as [|x m IH]; [reflexivity|]. cbn [filter].
  destruct (p x) eqn:Ep; cbn [filter]; rewrite ?IH; destruct (negb (bytes_eqb k (fst x))); cbn [andb]; rewrite ?Ep; reflexivity.
Qed.
Lemma map_remove_as_filter k (m : vmap) : map_remove k m = filter (fun kv => negb (bytes_eqb k (fst kv))) m.
Proof. reflexivity. Qed.

(* one override step keeps the pair shape: the rule is removed whether or not it was there *)
Lemma step_pair {X} k (m : rules_t) (a : bytes -> X) (b : X) :
  match vm_get k m with Some v => (a v, map_remove k m) | None => (b, m) end
  = (match vm_get k m with Some v => a v | None => b end, map_remove k m).
Proof. destruct (vm_get k m) eqn:E; [reflexivity|rewrite (remove_none _ _ E); reflexivity]. Qed.
Lemma step_out {X Y} k (m : vmap) (p : bytes -> outcome Y) (f : Y -> X) (b : X) :
  match vm_get k m with Some v => ob* n := p v in Ok (f n, map_remove k m) | None => Ok (b, m) end
  = ob* x := (match vm_get k m with Some v => ob* n := p v in Ok (f n) | None => Ok b end) in Ok (x, map_remove k m).
Proof.
  destruct (vm_get k m) eqn:E; [destruct (p b0); reflexivity|rewrite (remove_none _ _ E); reflexivity].
Qed.

Ltac steppair :=
  match goal with
  | |- context [match vm_get ?k ?m with Some v => (@?a v, map_remove ?k ?m) | None => (?b, ?m) end] =>
      let H := fresh in pose proof (step_pair k m a b) as H; cbv beta in H; rewrite H; clear H
  end.

Definition bat_spec (r : response) : outcome game_response :=
  let i := r_info r in
  let rules := match r_rules r with Some m => m | None => [] end in
  let rule (k : string) := vm_get (str k) rules in
  ob* maxp := match rule "bat_max_players_i"%string with Some v => need (parse_unsigned 255 v) TypeParse | None => Ok (si_players_maximum i) end in
  ob* online := match rule "bat_player_count_s"%string with Some v => need (parse_unsigned 255 v) TypeParse | None => Ok (si_players_online i) end in
  let ed := si_extra_data i in
  Ok (mk_gr (si_protocol_version i)
            (match rule "bat_name_s"%string with Some v => v | None => si_name i end) (si_map i)
            (match rule "bat_gamemode_s"%string with Some v => v | None => si_game_mode i end) (si_appid i) online
            (map (fun p => mk_gp (sp_name p) (sp_score p) (sp_duration p)) (match r_players r with Some l => l | None => [] end))
            maxp (si_players_bots i) (si_server_type i)
            (match rule "bat_has_password_s"%string with Some v => bytes_eqb v (str "Y") | None => si_has_password i end)
            (si_vac_secured i) (si_game_version i) (opt_bind ed ed_port) (opt_bind ed ed_steam_id) (opt_bind ed ed_tv_port)
            (opt_bind ed ed_tv_name) (opt_bind ed ed_keywords)
            (filter (fun kv => negb (existsb (bytes_eqb (fst kv)) bat_keys)) rules)).

Ltac closed_keys :=
  repeat match goal with
         | |- context [bytes_eqb (str ?a) (str ?b)] =>
             let r := eval vm_compute in (bytes_eqb (str a) (str b)) in change (bytes_eqb (str a) (str b)) with r
         end.

Lemma bat_filter (rules : vmap) :
  map_remove (str "bat_map_s")
    (map_remove (str "bat_gamemode_s") (map_remove (str "bat_name_s") (map_remove (str "bat_has_password_s")
       (map_remove (str "bat_player_count_s") (map_remove (str "bat_max_players_i") rules)))))
  = filter (fun kv => negb (existsb (bytes_eqb (fst kv)) bat_keys)) rules.
Proof.
  rewrite (map_remove_as_filter (str "bat_max_players_i") rules), !map_remove_filter.
  apply filter_ext. intros [k v]. unfold bat_keys. cbn [map existsb fst].
  rewrite !(bytes_eqb_sym k).
  repeat match goal with |- context [bytes_eqb (str ?a) k] => generalize (bytes_eqb (str a) k); intro end.
  repeat match goal with b : bool |- _ => destruct b end; reflexivity.
Qed.

Ltac projs :=
  cbn [si_protocol_version si_name si_map si_folder si_game_mode si_appid si_players_online si_players_maximum si_players_bots
       si_server_type si_environment_type si_has_password si_vac_secured si_the_ship si_game_version si_extra_data si_is_mod si_mod_data].
(* name the info record of the current step, so that substituting it into the rest keeps the term small *)
Ltac abs_info i :=
  match goal with |- context [(?rec, map_remove ?k ?m)] => remember rec as i end.

Ltac pstep k i :=
  rewrite ?get_remove_neq by reflexivity;
  let E := fresh "E" in
  destruct (vm_get (str k) _) eqn:E; try abs_info i; cbv beta iota.
Ltac drop_absent k :=
  try rewrite (remove_none (str k)) by (rewrite ?get_remove_neq by reflexivity; assumption).

Lemma bat_overrides_spec r : (ob* r' := bat_overrides r in Ok (game_of_valve r')) = bat_spec r.
Proof.
  unfold bat_overrides, bat_spec. cbv zeta.
  destruct (r_rules r) as [rules|] eqn:Er.
  2:{ cbn [obind vm_get]. unfold game_of_valve. rewrite Er. destruct (si_extra_data (r_info r)); reflexivity. }
  remember (r_info r) as i0 eqn:Ei0.
  (* step 1 *)
  rewrite step_out.
  destruct (vm_get (str "bat_max_players_i") rules) as [v1|] eqn:E1;
    [destruct (parse_unsigned 255 v1) as [n1|]; cbn [need obind]; [|reflexivity]|cbn [obind]];
    abs_info i1; cbv beta iota;
    (* step 2 *)
    rewrite step_out, get_remove_neq by reflexivity;
    (destruct (vm_get (str "bat_player_count_s") rules) as [v2|] eqn:E2;
     [destruct (parse_unsigned 255 v2) as [n2|]; cbn [need obind]; [|reflexivity]|cbn [obind]]);
    abs_info i2; cbv beta iota;
    (* steps 3 - 5 *)
    pstep "bat_has_password_s"%string i3; pstep "bat_name_s"%string i4; pstep "bat_gamemode_s"%string i5;
    rewrite <- bat_filter;
    drop_absent "bat_gamemode_s"%string; drop_absent "bat_name_s"%string; drop_absent "bat_has_password_s"%string;
    cbn [obind]; unfold game_of_valve; cbn [r_info r_players r_rules];
    try (subst i5; projs); try (subst i4; projs); try (subst i3; projs); try (subst i2; projs); try (subst i1; projs); reflexivity.
Qed.

(* ---------- the queries ---------- *)
Section Queries.
  Variable bz : bytes -> N -> outcome bytes.

  Theorem theship_roundtrip : forall port t st o,
    wf_state ship_engine st = true -> settings_ok t -> retries_ok t ->
    reply_ok bz ship_engine 0 (vo_info o) (enc_info (vs_info st)) ->
    reply_ok bz ship_engine (info_protocol_of (vs_info st)) (vo_players o) (enc_players (vs_players st)) ->
    reply_ok bz ship_engine (info_protocol_of (vs_info st)) (vo_rules o) (enc_rules (vs_rules st)) ->
    fst (theship_query bz port t (net_init (map Datagram (valve_script st o gathering_default)) [] [])) = ship_expected st.
  Proof.
    intros port t st o Hwf Hs Hr R1 R2 R3.
    pose proof (valve_roundtrip bz port ship_engine gathering_default t st o Hwf Hs Hr R1 R2 R3) as RT.
    unfold theship_query, mbind.
    change (Valve.query bz port (Source (Some (2400, None))) None t) with (Valve.query bz port ship_engine (Some gathering_default) t).
    destruct (Valve.query bz port ship_engine (Some gathering_default) t (net_init (map Datagram (valve_script st o gathering_default)) [] [])) as [out n].
    cbn [fst] in RT. subst out. unfold ship_expected.
    destruct (valve_expected_outcome st ship_engine gathering_default) as [r|e| | |]; cbn [obind fst mlift]; try reflexivity.
    rewrite ship_of_valve_spec. cbv zeta. unfold ship_player_of.
    destruct (si_the_ship (r_info r)), (r_players r), (r_rules r); reflexivity.
  Qed.

  Theorem battalion_roundtrip : forall port st o,
    wf_state bat_engine st = true ->
    reply_ok bz bat_engine 0 (vo_info o) (enc_info (vs_info st)) ->
    reply_ok bz bat_engine (info_protocol_of (vs_info st)) (vo_players o) (enc_players (vs_players st)) ->
    reply_ok bz bat_engine (info_protocol_of (vs_info st)) (vo_rules o) (enc_rules (vs_rules st)) ->
    fst (battalion_query bz port (net_init (map Datagram (valve_script st o gathering_default)) [] [])) = bat_expected st.
  Proof.
    intros port st o Hwf R1 R2 R3.
    assert (Hs : settings_ok None) by (cbn; split; intros d H; inversion H; reflexivity).
    pose proof (valve_roundtrip bz port bat_engine gathering_default None st o Hwf Hs I R1 R2 R3) as RT.
    unfold battalion_query. unfold mbind at 1.
    change (Valve.query bz port (Source (Some (489940, None))) None None) with (Valve.query bz port bat_engine (Some gathering_default) None).
    destruct (Valve.query bz port bat_engine (Some gathering_default) None (net_init (map Datagram (valve_script st o gathering_default)) [] [])) as [out n].
    cbn [fst] in RT. subst out. unfold bat_expected.
    destruct (valve_expected_outcome st bat_engine gathering_default) as [r|e| | |]; cbn [obind fst]; try reflexivity.
    pose proof (bat_overrides_spec r) as B. unfold bat_spec in B. cbv zeta in B. rewrite <- B.
    unfold mbind, mlift, mret. destruct (bat_overrides r); reflexivity.
  Qed.
End Queries.
