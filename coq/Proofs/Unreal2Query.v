(* C06, Unreal 2: the whole query on the script of a server state returns exactly the expected response *)
From GD Require Import Base.Prelude Model.Strings Model.StrOps Model.Buffer Model.Net Model.Valve Model.Gamespy Model.Unreal2Str Model.Unreal2.
From GD Require Import Spec.ValveSpec Spec.GamespySpec Spec.Unreal2Spec.
From GD Require Import Proofs.BufferLemmas Proofs.ReadSpecs Proofs.ValveRoundtrip Proofs.GamesProofs Proofs.Unreal2Lists Proofs.Unreal2Accum.
From Coq Require Import ZifyBool ZifyNat ZifyN Lia.

Lemma mbind_ok' {A B} (m : M A) (f : A -> M B) n a n' : m n = (Ok a, n') -> mbind m f n = f a n'.
Proof. intros H. unfold mbind. rewrite H. reflexivity. Qed.

(* ---------- the info reply ---------- *)
Definition wf_info (st : u2_state) : Prop :=
  us_server_id st < 4294967296 /\ ws_ok (us_ip st) /\ us_game_port st < 4294967296 /\ us_query_port st < 4294967296
  /\ ws_ok (us_name st) /\ ws_ok (us_map st) /\ ws_ok (us_game_type st) /\ lenN (all_players st) < 4294967296 /\ us_max_players st < 4294967296.
Definition info_of (st : u2_state) : u2_info :=
  mk_u2info (us_server_id st) (expected_ustring (us_ip st)) (us_game_port st) (us_query_port st)
            (expected_ustring (us_name st)) (expected_ustring (us_map st)) (expected_ustring (us_game_type st))
            (lenN (all_players st)) (us_max_players st) false.
Theorem info_datagram_decodes st : wf_info st -> with_headers 0 (enc_u2_info st) parse_u2_info = Ok (info_of st).
Proof.
  intros [H1 [H2 [H3 [H4 [H5 [H6 [H7 [H8 H9]]]]]]]]. unfold with_headers, enc_u2_info. erewrite bind_ok by (apply headers_at; lia).
  unfold parse_u2_info.
  erewrite bind_ok by (apply read_le32_at; exact H1). erewrite bind_ok by (apply string_at; exact H2).
  erewrite bind_ok by (apply read_le32_at; exact H3). erewrite bind_ok by (apply read_le32_at; exact H4).
  erewrite bind_ok by (apply string_at; exact H5). erewrite bind_ok by (apply string_at; exact H6). erewrite bind_ok by (apply string_at; exact H7).
  erewrite bind_ok by (apply read_le32_at; exact H8).
  rewrite <- (app_nil_r (le32 (us_max_players st))).
  erewrite bind_ok by (apply read_le32_at; exact H9). reflexivity.
Qed.

(* ---------- one request: send, first datagram ---------- *)
Lemma request_data_ok port kind d rest t sn cur tr : (length d <= 1024)%nat ->
  u2_get_request_data port 0 kind (mknet (Datagram d :: rest) t [] sn cur tr)
  = (Ok d, mknet rest t [] (sn + 1) cur (RecvEv (Some u2_packet_size) :: SendEv port (u2_request kind) :: tr)).
Proof.
  intros Hl. unfold u2_get_request_data, retry_on_timeout. cbn [N.to_nat retry_loop].
  unfold mbind, send. cbn [n_fail existsb n_udp n_tcp n_sends n_cur n_trace]. unfold udp_recv. cbn [n_udp n_tcp n_fail n_sends n_cur n_trace].
  rewrite firstn_all2 by (change (N.to_nat u2_packet_size) with 1024%nat; exact Hl). reflexivity.
Qed.

Lemma maybe_gather_ok {A} t (m : M A) n a n' : t <> Skip -> m n = (Ok a, n') -> maybe_gather t m n = (Ok (Some a), n').
Proof. intros Ht H. unfold maybe_gather. destruct t; [contradiction|rewrite H; reflexivity|unfold mbind; rewrite H; reflexivity]. Qed.
Lemma expected_pairs_app a b acc : expected_pairs (a ++ b) acc = expected_pairs b (expected_pairs a acc).
Proof. unfold expected_pairs. apply fold_left_app. Qed.
Lemma expected_pairs_concat : forall rest acc, fold_left (fun a l => expected_pairs l a) rest acc = expected_pairs (concat rest) acc.
Proof. induction rest as [|l rest IH]; intros acc; [reflexivity|]. cbn [fold_left concat]. rewrite IH, expected_pairs_app. reflexivity. Qed.

Definition wf_u2 (st : u2_state) : Prop :=
  wf_info st
  /\ Forall (Forall (fun kv => ws_ok (fst kv) /\ ws_ok (snd kv))) (us_pairs st) /\ us_pairs st <> []
  /\ Forall (Forall player_ok) (us_players st) /\ Forall (fun x => x <> []) (us_players st).
Definition sizes_ok (st : u2_state) : Prop :=
  (length (enc_u2_info st) <= 1024)%nat
  /\ Forall (fun x => (length (enc_u2_pairs x) <= 1024)%nat) (us_pairs st)
  /\ Forall (fun x => (length (enc_u2_players x) <= 1024)%nat) (us_players st).

(* the mutators-and-rules exchange *)
Lemma query_mr_ok port st (after : list udp_event) t sn cur tr p1 prest :
  us_pairs st = p1 :: prest -> Forall (Forall (fun kv => ws_ok (fst kv) /\ ws_ok (snd kv))) (us_pairs st) ->
  Forall (fun x => (length (enc_u2_pairs x) <= 1024)%nat) (us_pairs st) ->
  exists tr', query_mr port 0 (mknet (map Datagram (map enc_u2_pairs (us_pairs st)) ++ Timeout :: after) t [] sn cur tr)
              = (Ok (expected_pairs (concat (us_pairs st)) (mk_u2mr [] [])), mknet after t [] (sn + 1) cur tr').
Proof.
  intros E Hok Hsz. rewrite E in *. inversion Hok as [|? ? H1 Hr]; subst. inversion Hsz as [|? ? S1 Sr]; subst.
  unfold query_mr. cbn [map app].
  erewrite mbind_ok' by (apply request_data_ok; exact S1).
  erewrite mbind_ok' by (unfold mlift; rewrite rules_datagram_decodes by exact H1; reflexivity).
  cbn [n_udp].
  destruct (rules_accumulate prest (S (length (map Datagram (map enc_u2_pairs prest) ++ Timeout :: after))) (expected_pairs p1 (mk_u2mr [] []))
              (Timeout :: after) t [] (sn + 1) cur (RecvEv (Some u2_packet_size) :: SendEv port (u2_request 1) :: tr) Hr Sr) as [tr' Ea].
  - rewrite app_length, !map_length. lia.
  - right. eexists. reflexivity.
  - exists tr'. rewrite Ea. cbn [tl concat]. rewrite expected_pairs_concat, <- expected_pairs_app. reflexivity.
Qed.

(* the players exchange *)
Lemma query_players_ok port st t sn cur tr :
  Forall (Forall player_ok) (us_players st) -> Forall (fun x => x <> []) (us_players st) ->
  Forall (fun x => (length (enc_u2_players x) <= 1024)%nat) (us_players st) ->
  exists tr', query_players port 0 (lenN (all_players st))
                (mknet (match us_players st with [] => [Datagram (enc_u2_players [])] | l => map (fun l => Datagram (enc_u2_players l)) l end) t [] sn cur tr)
              = (Ok (fold_left add_player (map expected_player (all_players st)) (mk_u2ps [] [])), mknet [] t [] (sn + 1) cur tr').
Proof.
  intros Hok Hne Hsz. unfold query_players, all_players.
  unfold mbind at 1. unfold log at 1. cbn [n_udp n_tcp n_fail n_sends n_cur n_trace].
  destruct (us_players st) as [|g rest] eqn:E.
  - erewrite mbind_ok' by (apply request_data_ok; cbn; lia).
    cbn [n_udp length more_players concat map fold_left]. rewrite (players_dgram [] (mk_u2ps [] [])) by constructor.
    cbn [map fold_left ups_players ups_bots]. eexists. reflexivity.
  - inversion Hsz as [|? ? S1 Sr]; subst. cbn [map].
    erewrite mbind_ok' by (apply request_data_ok; exact S1). cbn [n_udp].
    change (map (fun l => Datagram (enc_u2_players l)) rest) with (map (fun l => Datagram (enc_u2_players l)) rest).
    replace (map (fun l => Datagram (enc_u2_players l)) rest) with (map Datagram (map enc_u2_players rest)) by (rewrite map_map; reflexivity).
    destruct (players_accumulate rest g (S (length (map Datagram (map enc_u2_players rest)))) (lenN (concat (g :: rest))) (mk_u2ps [] []) t [] (sn + 1) cur
                (RecvEv (Some u2_packet_size) :: SendEv port (u2_request 2) :: Reserve (N.min (lenN (concat (g :: rest))) 50) :: tr) Hok Hne Sr) as [tr' Ea].
    + unfold count_ps, lenN. cbn [ups_players ups_bots length]. lia.
    + rewrite !map_length. lia.
    + exists tr'. exact Ea.
Qed.

Theorem u2_query_roundtrip : forall port st g, wf_u2 st -> sizes_ok st -> ug_mr g <> Skip -> ug_players g <> Skip ->
  fst (u2_query port (Some g) None (net_init (u2_script st g) [] [])) = Ok (u2_expected st g).
Proof.
  intros port st g [Hi [Hp [Hpne [Hpl Hplne]]]] [S0 [S1 S2]] Hmr Hplg.
  unfold u2_query, net_init, u2_script.
  destruct (ug_mr g) eqn:Emr; [contradiction| |]; destruct (ug_players g) eqn:Epl; try contradiction.
  all: assert (Hnew : forall u t f sn cur tr, udp_new port None (mknet u t f sn cur tr)
                 = (Ok tt, mknet u t f sn cur (ApplyTimeout (Some (4, 0)) (Some (4, 0)) :: NewUdp port :: tr))) by reflexivity.
  all: cbn [app]; erewrite mbind_ok' by apply Hnew; cbn [ts_retries_or_default].
  all: unfold query_server_info; erewrite mbind_ok' by (erewrite mbind_ok' by (apply request_data_ok; exact S0); unfold mlift; rewrite (info_datagram_decodes st Hi); reflexivity).
  all: destruct (us_pairs st) as [|p1 prest] eqn:Ep; [contradiction|]; rewrite <- Ep in *.
  all: rewrite <- app_assoc; cbn [app];
    match goal with |- context [mknet (map (fun l => Datagram (enc_u2_pairs l)) (us_pairs _) ++ Timeout :: ?after) ?t [] ?sn ?cur ?tr] =>
      destruct (query_mr_ok port st after t sn cur tr p1 prest Ep Hp S1) as [tr1 E1] end.
  all: rewrite <- (map_map enc_u2_pairs Datagram) in *.
  all: erewrite mbind_ok' by (apply maybe_gather_ok; [rewrite ?Emr; discriminate|exact E1]).
  all: cbv beta iota.
  all: match goal with |- context [mknet ?u ?t [] ?sn ?cur ?trx] => destruct (query_players_ok port st t sn cur trx Hpl Hplne S2) as [tr2 E2] end.
  all: set (mr := expected_pairs (concat (us_pairs st)) (mk_u2mr [] [])) in *.
  all: unfold u2_expected; rewrite Emr, Epl; fold mr.
  all: destruct (map_lookup (str "GamePassword") (map (fun kv => (fst kv, concat (snd kv))) (mr_rules mr))) as [v|] eqn:Epw.
  all: cbn [ui_num_players info_of].
  all: erewrite mbind_ok' by (apply maybe_gather_ok; [discriminate|exact E2]).
  all: unfold mret; cbn [fst]; rewrite fold_add_player; cbn [ups_players ups_bots app]; reflexivity.
Qed.

(* the hypotheses can be met: two datagrams of rules, two of players *)
Definition ex_u2 : u2_state :=
  let k := mk_ws Latin1 [Txt (str "Mutator")] true in
  let v := mk_ws Ucs2 [Colour 200 26 0; Txt [233; 8364; 128512]] false in
  let w := mk_ws Latin1 [Txt (str "GamePassword")] true in
  let tr := mk_ws Latin1 [Txt (str "True")] true in
  mk_u2st 7 v 7777 7778 k v k 16 [[(k, v); (w, tr)]; [(v, k)]] [[(1, v, 30, (-5)%Z, 9); (2, k, 0, 2%Z, 0)]; [(3, k, 12, 0%Z, 1)]].
Example ex_u2_ok : wf_u2 ex_u2 /\ sizes_ok ex_u2.
Proof.
  set (k := mk_ws Latin1 [Txt (str "Mutator")] true). set (v := mk_ws Ucs2 [Colour 200 26 0; Txt [233; 8364; 128512]] false).
  set (w := mk_ws Latin1 [Txt (str "GamePassword")] true). set (tr := mk_ws Latin1 [Txt (str "True")] true).
  assert (Hk : ws_ok k) by (vm_compute; repeat split; discriminate).
  assert (Hv : ws_ok v) by (vm_compute; repeat split; discriminate).
  assert (Hw : ws_ok w) by (vm_compute; repeat split; discriminate).
  assert (Ht : ws_ok tr) by (vm_compute; repeat split; discriminate).
  split.
  - unfold wf_u2, wf_info, ex_u2. fold k v w tr.
    cbn [us_server_id us_ip us_game_port us_query_port us_name us_map us_game_type us_max_players us_pairs us_players].
    split; [repeat split; try assumption; try (vm_compute; reflexivity)|].
    split; [repeat constructor; cbn [fst snd]; assumption|].
    split; [discriminate|].
    split; [repeat constructor; cbn [fst snd]; try assumption; try (vm_compute; reflexivity); try lia|].
    repeat constructor; discriminate.
  - unfold sizes_ok, ex_u2. fold k v w tr. cbn [us_pairs us_players].
    split; [vm_compute; lia|]. split; repeat constructor; vm_compute; lia.
Qed.
