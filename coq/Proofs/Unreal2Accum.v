(* C06, Unreal 2: lists that span several datagrams. The players of all the datagrams of a reply, in the
   order the datagrams arrive, are returned (players and bots apart), and the query stops reading once the
   announced number is reached; the mutators and rules of all datagrams accumulate until nothing more arrives. *)
From GD Require Import Base.Prelude Model.Strings Model.StrOps Model.Buffer Model.Net Model.Unreal2Str Model.Unreal2.
From GD Require Import Spec.ValveSpec Spec.Unreal2Spec.
From GD Require Import Proofs.BufferLemmas Proofs.ReadSpecs Proofs.ValveRoundtrip Proofs.GamesProofs Proofs.Unreal2Lists.
From Coq Require Import ZifyBool ZifyNat ZifyN Lia.

Notation u2_player_spec := (N * wire_string * N * Z * N)%type.
Definition count_ps (a : u2_players) : N := lenN (ups_players a) + lenN (ups_bots a).
Lemma count_fold l : forall acc, count_ps (fold_left add_player l acc) = count_ps acc + lenN l.
Proof.
  induction l as [|p l IH]; intros acc; cbn [fold_left]; [unfold lenN; cbn; lia|]. rewrite IH.
  unfold add_player, count_ps, lenN. destruct (up_ping p =? 0); cbn [ups_players ups_bots length]; rewrite app_length; cbn [length]; lia.
Qed.
Lemma count_fold' (g : list u2_player_spec) acc :
  lenN (ups_players (fold_left add_player (map expected_player g) acc)) + lenN (ups_bots (fold_left add_player (map expected_player g) acc))
  = count_ps acc + lenN g.
Proof. pose proof (count_fold (map expected_player g) acc) as C. unfold count_ps in C at 1. rewrite C. unfold lenN. rewrite map_length. reflexivity. Qed.
Lemma players_dgram l acc : Forall player_ok l ->
  with_headers 2 (enc_u2_players l) (parse_u2_players (S (length (enc_u2_players l))) acc) = Ok (fold_left add_player (map expected_player l) acc).
Proof. intros H. rewrite players_datagram_decodes by exact H. rewrite fold_add_player. reflexivity. Qed.

(* the datagrams of a player reply: one group of players each, every one within the receive size *)
Theorem players_accumulate : forall (rest : list (list u2_player_spec)) (g : list u2_player_spec) fuel num acc t f sn cur tr,
  Forall (Forall player_ok) (g :: rest) -> Forall (fun x => x <> []) (g :: rest) ->
  Forall (fun x => (length (enc_u2_players x) <= 1024)%nat) rest ->
  num = count_ps acc + lenN (concat (g :: rest)) ->
  (length rest < fuel)%nat ->
  exists tr', more_players fuel num acc (enc_u2_players g) (mknet (map Datagram (map enc_u2_players rest)) t f sn cur tr)
              = (Ok (fold_left add_player (map expected_player (concat (g :: rest))) acc), mknet [] t f sn cur tr').
Proof.
  induction rest as [|g2 rest IH]; intros g fuel num acc t f sn cur tr Hok Hne Hsz Hnum Hf; (destruct fuel as [|fu]; [cbn in Hf; lia|]).
  - inversion Hok as [|? ? Hg _]; subst. cbn [more_players concat app map]. rewrite app_nil_r in *. rewrite players_dgram by exact Hg.
    rewrite count_fold'. rewrite N.leb_refl. eexists. reflexivity.
  - inversion Hok as [|? ? Hg Hok']; subst. inversion Hne as [|? ? Hgn Hne']; subst. inversion Hsz as [|? ? Hs2 Hsz']; subst.
    cbn [more_players]. rewrite players_dgram by exact Hg.
    assert (Hpos : 0 < lenN (concat (g2 :: rest))).
    { inversion Hne' as [|? ? Hg2 _]; subst. cbn [concat]. unfold lenN. rewrite app_length. destruct g2; [contradiction|cbn [length]; lia]. }
    pose proof (count_fold' g acc) as Hc.
    rewrite Hc. cbn [concat] in Hpos |- *.
    replace (count_ps acc + lenN (g ++ g2 ++ concat rest) <=? count_ps acc + lenN g) with false
      by (unfold lenN in *; rewrite !app_length in *; lia).
    cbn [map]. unfold udp_recv. cbn [n_udp n_tcp n_fail n_sends n_cur n_trace].
    rewrite firstn_all2 by (change (N.to_nat u2_packet_size) with 1024%nat; exact Hs2).
    destruct (IH g2 fu (count_ps acc + lenN (g ++ g2 ++ concat rest)) (fold_left add_player (map expected_player g) acc) t f sn cur
                 (RecvEv (Some u2_packet_size) :: tr) Hok' Hne' Hsz') as [tr' E].
    + cbn [concat]. unfold count_ps at 2. rewrite Hc. unfold lenN. rewrite !app_length. lia.
    + cbn [length] in Hf. lia.
    + exists tr'. rewrite E. rewrite map_app, fold_left_app. reflexivity.
Qed.

(* mutators and rules: every further datagram of that kind adds its pairs, until nothing more arrives *)
Theorem rules_accumulate : forall (rest : list (list (wire_string * wire_string))) fuel acc (u : list udp_event) t f sn cur tr,
  Forall (Forall (fun kv => ws_ok (fst kv) /\ ws_ok (snd kv))) rest ->
  Forall (fun x => (length (enc_u2_pairs x) <= 1024)%nat) rest ->
  (length rest < fuel)%nat ->
  (u = [] \/ exists u', u = Timeout :: u') ->
  exists tr', more_mr fuel acc (mknet (map Datagram (map enc_u2_pairs rest) ++ u) t f sn cur tr)
              = (Ok (fold_left (fun a l => expected_pairs l a) rest acc), mknet (tl u) t f sn cur tr').
Proof.
  induction rest as [|l rest IH]; intros fuel acc u t f sn cur tr Hok Hsz Hf Hu; (destruct fuel as [|fu]; [cbn in Hf; lia|]).
  - cbn [map app more_mr fold_left]. unfold udp_recv. cbn [n_udp n_tcp n_fail n_sends n_cur n_trace].
    destruct Hu as [->|[u' ->]]; eexists; reflexivity.
  - inversion Hok as [|? ? Hl Hok']; subst. inversion Hsz as [|? ? Hs Hsz']; subst.
    cbn [map app more_mr fold_left]. unfold udp_recv. cbn [n_udp n_tcp n_fail n_sends n_cur n_trace].
    rewrite firstn_all2 by (change (N.to_nat u2_packet_size) with 1024%nat; exact Hs).
    assert (Hh : fst (consume_headers 1 (buf_new (enc_u2_pairs l))) = Ok tt).
    { unfold enc_u2_pairs. rewrite headers_at by lia. reflexivity. }
    rewrite Hh. rewrite rules_datagram_decodes by exact Hl.
    destruct (IH fu (expected_pairs l acc) u t f sn cur (RecvEv (Some u2_packet_size) :: tr) Hok' Hsz' ltac:(cbn [length] in Hf; lia) Hu) as [tr' E].
    exists tr'. exact E.
Qed.
