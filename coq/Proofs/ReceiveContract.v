(* C12 (model side of "received datagrams are delivered unmodified up to the requested size"): what a receive hands to
   the protocol code, and the sizes the protocols ask for. *)
From GD Require Import Base.Prelude Model.Strings Model.Buffer Model.Net Model.Valve Model.Unreal2.
From Coq Require Import ZifyBool ZifyNat ZifyN Lia.

Theorem receive_contract : forall size d (u : list udp_event) t f sn cur tr,
  udp_recv size (mknet (Datagram d :: u) t f sn cur tr)
  = (Ok (firstn (N.to_nat (match size with Some s => s | None => 1024 end)) d), mknet u t f sn cur (RecvEv size :: tr)).
Proof. intros. destruct size; reflexivity. Qed.
Theorem receive_whole : forall size d (u : list udp_event) t f sn cur tr,
  (length d <= N.to_nat (match size with Some s => s | None => 1024 end))%nat ->
  udp_recv size (mknet (Datagram d :: u) t f sn cur tr) = (Ok d, mknet u t f sn cur (RecvEv size :: tr)).
Proof. intros size d u t f sn cur tr H. rewrite receive_contract, firstn_all2 by exact H. reflexivity. Qed.
Theorem receive_sizes : packet_size = 6144 /\ u2_packet_size = 1024 /\ default_packet_size = 1024.
Proof. repeat split; reflexivity. Qed.
