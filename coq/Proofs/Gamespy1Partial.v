(* C10, GameSpy 1: silence in the middle of a reply.  The first k parts of a reply of several parts arrive (k below the
   number of parts; k = 0 is a request that gets no answer), then nothing: the attempt ends with the receive timeout,
   having consumed exactly those events, and the retry starts again with a new request.  Any number of such attempts up
   to the retry count, then a valid reply: the query returns what it returns without faults. *)
From GD Require Import Base.Prelude Model.Strings Model.StrOps Model.Buffer Model.Net Model.Valve Model.Gamespy.
From GD Require Import Spec.ValveSpec Spec.QuakeSpec Spec.GamespySpec.
From GD Require Import Proofs.BufferLemmas Proofs.ReadSpecs Proofs.Str Proofs.Utf8 Proofs.ValveRoundtrip Proofs.QuakeRoundtrip Proofs.GamesProofs
  Proofs.GamespyProofs Proofs.IdProofs Proofs.ValveGamesRoundtrip Proofs.Gamespy2Roundtrip Proofs.Jc2mRoundtrip Proofs.Gamespy3Roundtrip Proofs.Gamespy3Reply Proofs.Gamespy3Query
  Proofs.Gamespy1Assembly Proofs.Gamespy1Players Proofs.Gamespy1Build Proofs.Gamespy1Response Proofs.Msafe Proofs.Retry Proofs.RetryProtocols Proofs.Gamespy1Retry.
From Coq Require Import ZifyBool ZifyNat ZifyN Lia.

(* one part that is not the last one: its pairs are taken, the loop goes on *)
Lemma gs1_step_nonlast : forall (g : list (bytes * bytes)) qid ff j vals fu (u : list udp_event) t f sn cur tr,
  g <> [] -> Forall pair_ok g -> (length (part_text g qid (N.of_nat (S j)) false ff) <= 1024)%nat ->
  qid <= usize_max' -> N.of_nat (S j) < 4294967296 -> nokey fin vals -> nokey qidk vals ->
  gs1_loop (S fu) (match j with O => None | S _ => Some qid end) (part_numbers j) None vals
           (mknet (Datagram (part_text g qid (N.of_nat (S j)) false ff) :: u) t f sn cur tr)
  = gs1_loop fu (Some qid) (part_numbers (S j)) None (fold_left ins g vals) (mknet u t f sn cur (RecvEv None :: tr)).
Proof.
  intros g qid ff j vals fu u t f sn cur tr Hgne Hg Hs1 Hq Hj Hf Hk.
  destruct (pair_ok_parts g Hg) as [Gc [Gd [Gf Gq]]].
  set (i := N.of_nat (S j)) in *.
  set (text := part_text g qid i false ff) in *.
  assert (Hclean : no_nul text = true).
  { unfold text, part_text. apply clean_chunks. apply Forall_app. split; [exact Gc|].
    eapply Forall_impl; [|apply labels_ok]. intros kv [H _]. exact H. }
  destruct g as [|[k v] l]; [contradiction|].
  assert (Htxt : text = 92 :: k ++ [92] ++ v ++ concat (map (chunk 92) (l ++ labels qid i false ff))).
  { unfold text, part_text. cbn [app map concat]. unfold chunk at 1. cbn [fst snd app]. rewrite <- !app_assoc. reflexivity. }
  cbn [gs1_loop]. unfold mbind at 1. unfold udp_recv. cbn [n_udp n_tcp n_fail n_sends n_cur n_trace].
  rewrite firstn_all2 by (change (N.to_nat default_packet_size) with 1024%nat; exact Hs1).
  assert (Hread : run_r Gamespy.read_cstr text = Ok text).
  { unfold run_r, Gamespy.read_cstr. change (buf_new text) with (at_ [] text). apply no_nul_spec in Hclean. destruct Hclean as [Hn Hv].
    rewrite dec_utf8_unterminated by assumption. reflexivity. }
  rewrite Hread. rewrite (match_nonempty text) by (rewrite Htxt; discriminate).
  assert (Hins : insert_pairs (split 92 (remove_first_char text)) vals = fold_left ins (labels qid i false ff) (fold_left ins ((k, v) :: l) vals)).
  { unfold text, part_text. cbn [app]. rewrite gs1_part_decodes.
    - change ((k, v) :: l ++ labels qid i false ff) with (((k, v) :: l) ++ labels qid i false ff). rewrite fold_left_app. reflexivity.
    - change ((k, v) :: l ++ labels qid i false ff) with (((k, v) :: l) ++ labels qid i false ff). apply Forall_app. split; [exact Gd|].
      eapply Forall_impl; [|apply labels_ok]. intros kv [_ H]. exact H. }
  rewrite Hins. set (M := fold_left ins ((k, v) :: l) vals).
  assert (HMf : nokey fin M) by (apply nokey_fold; assumption).
  assert (HMq : nokey qidk M) by (apply nokey_fold; assumption).
  destruct (labels_effect M qid i false ff HMf HMq) as [Lg Lr].
  unfold vm_remove. change (str "final") with fin. rewrite Lg, Lr.
  change (str "queryid") with qidk. rewrite (get_app_last qidk _ M HMq). rewrite (remove_app_last qidk _ M HMq).
  rewrite qid_text_split. cbn [hd]. rewrite (parse_unsigned_show usize_max' qid Hq). cbn [need obind].
  rewrite (parse_unsigned_show usize_max' i) by (unfold i, usize_max'; lia). cbn [need obind].
  pose proof (part_numbers_fresh j) as Hfresh. fold i in Hfresh. rewrite Hfresh.
  assert (Hwrong : match (match j with O => None | S _ => Some qid end) with Some r0 => negb (qid =? r0) | None => false end = false)
    by (destruct j; [reflexivity|rewrite N.eqb_refl; reflexivity]).
  rewrite Hwrong. cbv iota.
  rewrite <- part_numbers_S. reflexivity.
Qed.

(* the texts of parts none of which is the last *)
Fixpoint texts_open (qid : N) (ff : bool) (j : nat) (groups : list (list (bytes * bytes))) : list bytes :=
  match groups with
  | [] => []
  | g :: r => part_text g qid (N.of_nat (S j)) false ff :: texts_open qid ff (S j) r
  end.
Lemma texts_open_prefix qid ff : forall groups j k, (k < length groups)%nat ->
  firstn k (texts_from qid ff j groups) = texts_open qid ff j (firstn k groups).
Proof.
  induction groups as [|g r IH]; intros j k Hk; [cbn in Hk; lia|].
  destruct k as [|k]; [reflexivity|]. destruct r as [|g2 r]; [cbn in Hk; lia|].
  change (texts_from qid ff j (g :: g2 :: r)) with (part_text g qid (N.of_nat (S j)) false ff :: texts_from qid ff (S j) (g2 :: r)).
  cbn [firstn texts_open]. f_equal. apply IH. cbn [length] in *. lia.
Qed.

Theorem gs1_parts_then_timeout : forall (groups : list (list (bytes * bytes))) qid ff j vals fuel (u : list udp_event) t f sn cur tr,
  Forall (fun g => g <> [] /\ Forall pair_ok g) groups ->
  Forall (fun d => (length d <= 1024)%nat) (texts_open qid ff j groups) ->
  qid <= usize_max' -> N.of_nat (j + length groups) < 4294967296 ->
  nokey fin vals -> nokey qidk vals -> (length groups < fuel)%nat ->
  exists tr',
    gs1_loop fuel (match j with O => None | S _ => Some qid end) (part_numbers j) None vals
             (mknet (map Datagram (texts_open qid ff j groups) ++ Timeout :: u) t f sn cur tr)
    = (Err PacketReceive, mknet u t f sn cur tr').
Proof.
  induction groups as [|g rest IH]; intros qid ff j vals fuel u t f sn cur tr Hok Hsz Hq Hj Hf Hk Hfu.
  - destruct fuel as [|fu]; [cbn in Hfu; lia|]. cbn [texts_open map app]. eexists. reflexivity.
  - destruct fuel as [|fu]; [cbn in Hfu; lia|].
    inversion Hok as [|? ? [Hgne Hg] Hok']; subst. cbn [texts_open] in Hsz. inversion Hsz as [|? ? Hs1 Hsz']; subst.
    cbn [texts_open map app].
    rewrite (gs1_step_nonlast g qid ff j vals fu _ t f sn cur tr Hgne Hg Hs1 Hq ltac:(cbn [length] in Hj; lia) Hf Hk).
    destruct (pair_ok_parts g Hg) as [_ [_ [Gf Gq]]].
    destruct (IH qid ff (S j) (fold_left ins g vals) fu u t f sn cur (RecvEv None :: tr) Hok' Hsz' Hq ltac:(cbn [length] in Hj; lia)
                 ltac:(apply nokey_fold; assumption) ltac:(apply nokey_fold; assumption) ltac:(cbn [length] in Hfu; lia)) as [tr' E].
    exists tr'. exact E.
Qed.

Lemma Forall_firstn' {A} (P : A -> Prop) : forall k (l : list A), Forall P l -> Forall P (firstn k l).
Proof. induction k as [|k IH]; intros l H; [constructor|]. destruct l as [|x l]; [constructor|]. inversion H; subst. cbn [firstn]. constructor; [assumption|apply IH; assumption]. Qed.

Section Faults.
  Variable port : N.
  Variable s : s1_state.
  Hypothesis Hok : Forall pair_ok (s1_vars s).
  Hypothesis Hq : s1_qid s <= usize_max'.
  Hypothesis Hsz : Forall (fun d => (length d <= 1024)%nat) (s1_script s).
  Hypothesis Hn : N.of_nat (length (s1_script s)) < 4294967296.

  (* the first k parts of the reply arrive, then nothing *)
  Definition silent_after (k : nat) : list udp_event := map Datagram (firstn k (s1_script s)) ++ [Timeout].

  Lemma gs1_attempt_cut k (u : list udp_event) t sn cur tr : (k < length (s1_script s))%nat -> exists sn' tr',
    gs1_values_impl port (mknet (silent_after k ++ u) t [] sn cur tr) = (Err PacketReceive, mknet u t [] sn' cur tr').
  Proof.
    intros Hk. unfold silent_after. unfold s1_script in *.
    assert (Hne : [] ++ s1_vars s <> []) by (unfold s1_vars; discriminate).
    destruct (chunk_pairs_groups (s1_limit s) (s1_vars s) [] Hne) as [groups [G1 [G2 G3]]].
    change (part_of []) with (@nil N) in G1. cbn [app] in G2. rewrite G1 in *.
    change 1 with (N.of_nat 1) in *. rewrite (s1_label_texts (s1_qid s) (s1_final_first s) groups 0) in *.
    assert (Hgok : Forall (fun g => g <> [] /\ Forall pair_ok g) groups).
    { rewrite <- G2 in Hok. clear - Hok G3. induction groups as [|g r IH]; [constructor|]. inversion G3; subst. cbn [concat] in Hok.
      apply Forall_app in Hok. destruct Hok as [Ha Hb]. constructor; [split; assumption|apply IH; assumption]. }
    assert (Hlen : length (texts_from (s1_qid s) (s1_final_first s) 0 groups) = length groups).
    { clear. generalize 0%nat. induction groups as [|g r IH]; intros j; [reflexivity|]. destruct r; [reflexivity|].
      change (texts_from (s1_qid s) (s1_final_first s) j (g :: l :: r)) with (part_text g (s1_qid s) (N.of_nat (S j)) false (s1_final_first s) :: texts_from (s1_qid s) (s1_final_first s) (S j) (l :: r)).
      cbn [length]. rewrite IH. reflexivity. }
    rewrite Hlen in Hk, Hn.
    assert (Hsz' : Forall (fun d => (length d <= 1024)%nat) (texts_open (s1_qid s) (s1_final_first s) 0 (firstn k groups))).
    { rewrite <- texts_open_prefix by exact Hk. apply Forall_firstn'. exact Hsz. }
    rewrite (texts_open_prefix _ _ groups 0 k Hk).
    unfold gs1_values_impl. erewrite mbind_ok by apply send_ok. cbn [n_udp]. rewrite <- app_assoc. cbn [app].
    assert (Hfl : (length (firstn k groups) <= k)%nat) by apply firstn_le_length.
    match goal with |- context [gs1_loop ?fu None [] None []] =>
      destruct (gs1_parts_then_timeout (firstn k groups) (s1_qid s) (s1_final_first s) 0 [] fu u t [] (sn + 1) cur (SendEv port gs1_request :: tr)
                  (Forall_firstn' _ k groups Hgok) Hsz' Hq) as [tr' E] end; try reflexivity.
    - cbn [Nat.add]. lia.
    - cbn [length]. rewrite !app_length, !map_length. cbn [length].
      assert (X : length (texts_open (s1_qid s) (s1_final_first s) 0 (firstn k groups)) = length (firstn k groups)).
      { clear. generalize 0%nat. induction (firstn k groups) as [|g r IH]; intros j; [reflexivity|]. cbn [texts_open length]. rewrite IH. reflexivity. }
      rewrite X. lia.
    - cbn [part_numbers seq map] in E. rewrite E. do 2 eexists. reflexivity.
  Qed.

  Lemma gs1_cuts_are_timeouts : forall ks (u : list udp_event) t sn cur tr, Forall (fun k => (k < length (s1_script s))%nat) ks -> exists sn' tr',
    timeouts_then (gs1_values_impl port) (length ks) (mknet (flat_map silent_after ks ++ u) t [] sn cur tr) (mknet u t [] sn' cur tr').
  Proof.
    induction ks as [|k ks IH]; intros u t sn cur tr Hks; [do 2 eexists; constructor|].
    inversion Hks as [|? ? Hk Hks']; subst. cbn [flat_map length]. rewrite <- app_assoc.
    destruct (gs1_attempt_cut k (flat_map silent_after ks ++ u) t sn cur tr Hk) as [sn1 [tr1 E1]].
    destruct (IH u t sn1 cur tr1 Hks') as [sn2 [tr2 T]]. exists sn2, tr2. eapply tt_step; [exact E1|reflexivity|exact T].
  Qed.

  Theorem gs1_cut_replies_retried : forall t ks,
    settings_ok t -> Forall (fun k => (k < length (s1_script s))%nat) ks -> (length ks <= N.to_nat (ts_retries_or_default t))%nat ->
    wf_s1 s = true -> nodupb (map fst (s1_vars s)) = true ->
    fst (gs1_query port t (net_init (flat_map silent_after ks ++ map Datagram (s1_script s)) [] [])) = Ok (s1_expected s).
  Proof.
    intros t ks Hs Hks Hk Hwf Hnd. unfold gs1_query, gs1_query_vars, net_init.
    destruct (udp_new_same_script port t (mknet (flat_map silent_after ks ++ map Datagram (s1_script s)) [] [] 0 None []) Hs) as [n1 [E1 [U1 [F1 S1]]]].
    destruct n1 as [u1 t1 f1 sn1 cur1 tr1]. cbn [n_udp n_fail n_sends] in U1, F1, S1. subst u1 f1.
    unfold mbind at 1. unfold mbind at 1. rewrite E1.
    destruct (gs1_cuts_are_timeouts ks (map Datagram (s1_script s)) t1 sn1 cur1 tr1 Hks) as [sn2 [tr2 T]].
    destruct (gs1_attempt_ok port s Hok Hq Hsz Hn t1 sn2 cur1 tr2) as [n' E].
    rewrite (retry_first_reply_wins _ _ _ _ _ _ Hk T) by (unfold is_timeout; rewrite E; reflexivity).
    rewrite E. unfold mlift. cbn [fst].
    rewrite fold_ins_fresh; [|apply forallb_forall; intros; reflexivity|exact Hnd]. cbn [app]. apply gs1_build_ok. exact Hwf.
  Qed.
End Faults.
