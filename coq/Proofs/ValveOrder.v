(* C08 (Valve): the reassembled response depends only on the set of split
   packets received, not on their arrival order; a duplicated packet number is
   an error. *)
From GD Require Import Base.Prelude Model.Strings Model.Buffer Model.Net Model.Valve.
From Coq Require Import Permutation ZifyBool ZifyNat ZifyN.

Notation key := sp_number.

Inductive srt : list split_packet -> Prop :=
| srt_nil : srt []
| srt_cons : forall p l, (forall q, In q l -> key p <= key q) -> srt l -> srt (p :: l).

Lemma insert_in : forall p l q, In q (insert_split p l) -> q = p \/ In q l.
Proof.
  induction l as [|s l IH]; intros q H; cbn [insert_split] in H.
  - destruct H as [H|[]]; auto.
  - destruct (key p <? key s); cbn [In] in *.
    + destruct H as [H|H]; auto.
    + destruct H as [H|H]; [right; left; exact H|]. apply IH in H. destruct H; auto.
Qed.

Lemma insert_srt : forall p l, srt l -> srt (insert_split p l).
Proof.
  induction l as [|s l IH]; intro H; cbn [insert_split].
  - constructor; [intros q []|constructor].
  - inversion H as [|s' l' Hle Hs]; subst. destruct (key p <? key s) eqn:E.
    + constructor; [|exact H]. intros q [<-|Hq]; [lia|]. specialize (Hle q Hq). lia.
    + constructor; [|apply IH; exact Hs]. intros q Hq. apply insert_in in Hq. destruct Hq as [->|Hq]; [lia|auto].
Qed.

Lemma sort_srt : forall l, srt (sort_splits l).
Proof. induction l as [|p l IH]; cbn; [constructor|apply insert_srt; exact IH]. Qed.

Lemma insert_commute : forall p q l, key p <> key q ->
  insert_split p (insert_split q l) = insert_split q (insert_split p l).
Proof.
  intros p q l Hk. induction l as [|s l IH]; cbn [insert_split].
  - destruct (key p <? key q) eqn:E1, (key q <? key p) eqn:E2; try reflexivity; lia.
  - destruct (key q <? key s) eqn:Eq, (key p <? key s) eqn:Ep; cbn [insert_split]; rewrite ?Eq, ?Ep.
    + destruct (key p <? key q) eqn:E1, (key q <? key p) eqn:E2; try reflexivity; lia.
    + destruct (key p <? key q) eqn:E1; [lia|]. reflexivity.
    + destruct (key q <? key p) eqn:E2; [lia|]. reflexivity.
    + rewrite IH. reflexivity.
Qed.

Lemma sort_perm_eq : forall l l', Permutation l l' -> NoDup (map key l) -> sort_splits l = sort_splits l'.
Proof.
  intros l l' HP. induction HP as [|x l l' HP IH|x y l|l l' l'' HP1 IH1 HP2 IH2]; intro Hnd.
  - reflexivity.
  - cbn [sort_splits fold_right]. cbn [map] in Hnd. inversion Hnd; subst.
    change (fold_right insert_split [] l) with (sort_splits l).
    change (fold_right insert_split [] l') with (sort_splits l'). rewrite IH by assumption. reflexivity.
  - cbn [sort_splits fold_right]. apply insert_commute.
    cbn [map] in Hnd. inversion Hnd as [|a b Hn _]; subst. intro Heq. apply Hn. left. symmetry. exact Heq.
  - rewrite IH1 by exact Hnd. apply IH2.
    apply (Permutation_NoDup (l := map key l)); [apply Permutation_map; exact HP1|exact Hnd].
Qed.

Lemma insert_perm : forall p l, Permutation (insert_split p l) (p :: l).
Proof.
  induction l as [|s l IH]; cbn [insert_split]; [reflexivity|].
  destruct (key p <? key s); [reflexivity|].
  rewrite IH. apply perm_swap.
Qed.
Lemma sort_perm : forall l, Permutation (sort_splits l) l.
Proof.
  induction l as [|p l IH]; cbn; [reflexivity|].
  change (fold_right insert_split [] l) with (sort_splits l).
  rewrite insert_perm. constructor. exact IH.
Qed.

(* numbered 0,1,2,... implies pairwise distinct numbers *)
Lemma numbered_keys : forall l i, numbered_from i l = true ->
  forall p, In p l -> i <= key p.
Proof.
  induction l as [|s l IH]; intros i H p Hp; [destruct Hp|].
  cbn [numbered_from] in H. apply andb_prop in H. destruct H as [H1 H2].
  destruct Hp as [<-|Hp]; [lia|]. specialize (IH (i + 1) H2 p Hp). lia.
Qed.
Lemma numbered_nodup : forall l i, numbered_from i l = true -> NoDup (map key l).
Proof.
  induction l as [|s l IH]; intros i H; cbn [map]; [constructor|].
  cbn [numbered_from] in H. apply andb_prop in H. destruct H as [H1 H2]. constructor; [|exact (IH _ H2)].
  intro Hin. apply in_map_iff in Hin. destruct Hin as [p [Hk Hp]].
  pose proof (numbered_keys l (i + 1) H2 p Hp). lia.
Qed.

Section WithBz.
  Variable bz : bytes -> N -> outcome bytes.

  (* any arrival order of the same set of packets gives the same result *)
  Theorem reassemble_perm : forall l l', Permutation l l' -> NoDup (map key l) ->
    reassemble bz l = reassemble bz l'.
  Proof. intros l l' HP Hnd. unfold reassemble. rewrite (sort_perm_eq l l' HP Hnd). reflexivity. Qed.

  (* a duplicated packet number is an error, never a different success *)
  Theorem reassemble_dup : forall l, ~ NoDup (map key l) -> forall n, reassemble bz l n = (Err PacketBad, n).
  Proof.
    intros l Hd n. unfold reassemble.
    destruct (numbered_from 0 (sort_splits l)) eqn:E; [|reflexivity].
    exfalso. apply Hd. apply numbered_nodup in E.
    apply (Permutation_NoDup (l := map key (sort_splits l))); [apply Permutation_map, sort_perm|exact E].
  Qed.

  (* a missing packet (numbers not 0..k-1) is an error too *)
  Theorem reassemble_gap : forall l n, numbered_from 0 (sort_splits l) = false -> reassemble bz l n = (Err PacketBad, n).
  Proof. intros l n H. unfold reassemble. rewrite H. reflexivity. Qed.
End WithBz.
