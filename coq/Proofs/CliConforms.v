(* C19: the conformance test used on the tool's XML output (xml_conforms: "this document is what
   the writer prints for this value, for some order of the members of its maps") accepts the
   writer model's own rendering of every value - so a document it rejects is not that rendering. *)
From GD Require Import Base.Prelude Model.Strings Model.View Model.Cli Proofs.CliProofs.
Require Import String.
From Coq Require Import ZifyBool ZifyNat ZifyN Lia.

Lemma take_pref_app p r : take_pref p (p ++ r) = [r].
Proof. unfold take_pref. rewrite drop_prefix_app. reflexivity. Qed.
Lemma in_flat_map_intro {A B} (f : A -> list B) l a b : In a l -> In b (f a) -> In b (flat_map f l).
Proof. intros H1 H2. apply in_flat_map. exists a. split; assumption. Qed.

(* more fuel never loses a result *)
Lemma fold_flat_mono {A} (f g : A -> bytes -> list bytes) (l : list A) :
  (forall a s r, In a l -> In r (f a s) -> In r (g a s)) ->
  forall init init' r, (forall x, In x init -> In x init') ->
  In r (fold_left (fun rems item => flat_map (f item) rems) l init) ->
  In r (fold_left (fun rems item => flat_map (g item) rems) l init').
Proof.
  induction l as [|a l IH]; intros H init init' r Hi Hr; cbn [fold_left] in *; [apply Hi; exact Hr|].
  eapply IH; [intros a0 s r0 Ha; apply H; right; exact Ha| |exact Hr].
  intros x Hx. apply in_flat_map in Hx. destruct Hx as [s [Hs Hx]]. apply in_flat_map. exists s. split; [apply Hi; exact Hs|].
  apply H; [left; reflexivity|exact Hx].
Qed.

Lemma match_mono : forall f,
  (forall key v s r, In r (xml_match f key v s) -> In r (xml_match (S f) key v s))
  /\ (forall l s r, In r (xml_match_members f l s) -> In r (xml_match_members (S f) l s)).
Proof.
  induction f as [|f [IH1 IH2]]; [split; intros; contradiction|]. split.
  - intros key v s r H. cbn [xml_match] in H |- *. destruct (raw_number v); [exact H|].
    destruct v as [| b | z | t | l | l]; try exact H.
    + set (K := Some (match key with Some k => k | None => str "item" end)) in *.
      apply (fold_flat_mono (fun item => xml_match f K item) (fun item => xml_match (S f) K item) l) with (init := [s]);
        [intros a s0 r0 _ Hr; apply IH1; exact Hr|intros x Hx; exact Hx|exact H].
    + destruct key as [k|].
      * apply in_flat_map in H. destruct H as [x [Hx Hr]]. apply in_flat_map. exists x. split; [|exact Hr].
        apply in_flat_map in Hx. destruct Hx as [y [Hy Hx]]. apply in_flat_map. exists y. split; [exact Hy|apply IH2; exact Hx].
      * apply in_flat_map in H. destruct H as [y [Hy Hx]]. apply in_flat_map. exists y. split; [exact Hy|apply IH2; exact Hx].
  - intros l s r H. cbn [xml_match_members] in H |- *. destruct l as [|x l]; [exact H|].
    apply in_flat_map in H. destruct H as [i [Hi Hr]]. apply in_flat_map. exists i. split; [exact Hi|].
    destruct (nth_error (x :: l) i) as [[k v]|]; [|contradiction].
    apply in_flat_map in Hr. destruct Hr as [s1 [Hs1 Hr]]. apply in_flat_map. exists s1. split; [apply IH1; exact Hs1|apply IH2; exact Hr].
Qed.
Lemma match_mono_le f g key v s r : (f <= g)%nat -> In r (xml_match f key v s) -> In r (xml_match g key v s).
Proof. intros Hle. induction Hle as [|g Hle IH]; [auto|]. intros Hin. apply (proj1 (match_mono _)). auto. Qed.
Lemma members_mono_le f g l s r : (f <= g)%nat -> In r (xml_match_members f l s) -> In r (xml_match_members g l s).
Proof. intros Hle. induction Hle as [|g Hle IH]; [auto|]. intros Hin. apply (proj2 (match_mono _)). auto. Qed.

(* numbers that are not integers are printed as number text *)
Definition is_num (c : N) : bool := ((48 <=? c) && (c <=? 57)) || (c =? 43) || (c =? 45) || (c =? 46) || (c =? 101) || (c =? 69).
Definition num_text (t : bytes) : bool := forallb is_num t && negb (match t with [] => true | _ => false end).
Fixpoint raw_ok (v : jv) : bool :=
  match raw_number v with
  | Some t => num_text t
  | None =>
      match v with
      | JObj l => forallb (fun kv => raw_ok (snd kv)) l
      | JList l => forallb raw_ok l
      | _ => true
      end
  end.

Lemma span_num t r : num_text t = true -> (match r with c :: _ => is_num c = false | [] => True end) ->
  span_until (fun c => negb (is_num c)) (t ++ r) = (t, r).
Proof.
  unfold num_text. intros H Hr. apply andb_prop in H. destruct H as [H _].
  induction t as [|c t IH]; cbn [app].
  - destruct r as [|c r]; [reflexivity|]. cbn [span_until]. rewrite Hr. reflexivity.
  - cbn [forallb] in H. apply andb_prop in H. destruct H as [Hc Ht]. cbn [span_until]. rewrite Hc. cbn [negb]. rewrite (IH Ht). reflexivity.
Qed.
Lemma escape_num t : forallb is_num t = true -> xml_escape t = t.
Proof.
  induction t as [|c t IH]; intro H; [reflexivity|]. cbn [forallb] in H. apply andb_prop in H. destruct H as [Hc Ht].
  unfold xml_escape in *. cbn [flat_map]. rewrite (IH Ht). unfold xml_escape_char, is_num in *.
  replace (c =? 60) with false by lia. replace (c =? 62) with false by lia. replace (c =? 38) with false by lia.
  replace (c =? 39) with false by lia. replace (c =? 34) with false by lia. reflexivity.
Qed.

(* the writer's own rendering is matched, leaving exactly what follows it *)
Theorem match_complete : forall v k rest, raw_ok v = true ->
  In rest (xml_match (msize v) (Some k) v (json_to_xml (Some k) v ++ rest)).
Proof.
  apply (jv_ind' (fun v => forall k rest, raw_ok v = true -> In rest (xml_match (msize v) (Some k) v (json_to_xml (Some k) v ++ rest)))).
  - intros k rest _. cbn [msize xml_match raw_number json_to_xml]. rewrite take_pref_app. left. reflexivity.
  - intros b k rest _. cbn [msize xml_match raw_number json_to_xml]. rewrite take_pref_app. left. reflexivity.
  - intros z k rest _. cbn [msize xml_match raw_number json_to_xml]. rewrite take_pref_app. left. reflexivity.
  - intros s k rest _. cbn [msize xml_match raw_number json_to_xml]. rewrite take_pref_app. left. reflexivity.
  - (* list *)
    intros l IH k rest Hok. cbn [raw_ok raw_number] in Hok. cbn [msize]. cbn [xml_match raw_number json_to_xml].
    assert (G : forall f init, (list_sum (map msize l) <= f)%nat -> In (flat_map (json_to_xml (Some k)) l ++ rest) init ->
                In rest (fold_left (fun rems item => flat_map (xml_match f (Some k) item) rems) l init)).
    { clear - IH Hok. induction l as [|x l IHl]; intros f init Hf Hin; cbn [fold_left flat_map app] in *; [exact Hin|].
      inversion IH as [|? ? Hx Hl]; subst. cbn [forallb] in Hok. apply andb_prop in Hok. destruct Hok as [Ox Ol].
      change (list_sum (map msize (x :: l))) with (msize x + list_sum (map msize l))%nat in Hf. apply (IHl Hl Ol); [lia|].
      apply in_flat_map. exists (json_to_xml (Some k) x ++ flat_map (json_to_xml (Some k)) l ++ rest). split; [rewrite <- app_assoc in Hin; exact Hin|].
      apply (match_mono_le (msize x)); [lia|]. apply Hx. exact Ox. }
    apply G; [lia|left; reflexivity].
  - (* object *)
    intros l IH k rest Hok.
    destruct (raw_number (JObj l)) as [t|] eqn:E.
    + (* a number in its raw form *)
      cbn [raw_ok] in Hok. rewrite E in Hok. cbn [msize]. cbn [Nat.add]. cbn [xml_match json_to_xml]. rewrite E.
      pose proof Hok as Hn. unfold num_text in Hn. apply andb_prop in Hn. destruct Hn as [Hn Hne].
      rewrite (escape_num t Hn). fold is_num.
      assert (Hb : forall r, (match r with c :: _ => is_num c = false | [] => True end) ->
                   (if existsb (fun c => (c =? 46) || (c =? 101) || (c =? 69)) t
                    then match span_until (fun c => negb (is_num c)) (t ++ r) with ([], _) => [] | (_, r') => [r'] end
                    else take_pref t (t ++ r)) = [r]).
      { intros r Hr. destruct (existsb _ t); [|apply take_pref_app]. rewrite (span_num t r Hok Hr). destruct t; [discriminate|reflexivity]. }
      unfold wrap. rewrite <- !app_assoc, take_pref_app. cbn [flat_map app]. rewrite app_nil_r.
      rewrite Hb by (unfold tag_close; reflexivity). cbn [flat_map app]. rewrite take_pref_app. left. reflexivity.
    + cbn [raw_ok] in Hok. rewrite E in Hok.
      assert (G : forall f rest', (List.length l + list_sum (map (fun kv => msize (snd kv)) l) + 1 <= f)%nat ->
                  In rest' (xml_match_members f l (flat_map (fun kv => json_to_xml (Some (str (fst kv))) (snd kv)) l ++ rest'))).
      { clear - IH Hok. induction l as [|[kx vx] l IHl]; intros f rest' Hf.
        - destruct f as [|f]; [cbn in Hf; lia|]. cbn. left. reflexivity.
        - inversion IH as [|? ? Hx Hl]; subst. cbn [forallb snd] in Hok. apply andb_prop in Hok. destruct Hok as [Ox Ol].
          cbn [List.length map snd] in Hf.
          change (list_sum (msize vx :: map (fun kv => msize (snd kv)) l)) with (msize vx + list_sum (map (fun kv => msize (snd kv)) l))%nat in Hf.
          destruct f as [|f]; [lia|]. cbn [xml_match_members].
          apply in_flat_map. exists 0%nat. split; [cbn [List.length seq]; left; reflexivity|]. cbn [nth_error remove_nth].
          cbn [flat_map fst snd]. rewrite <- app_assoc.
          apply in_flat_map. exists (flat_map (fun kv => json_to_xml (Some (str (fst kv))) (snd kv)) l ++ rest'). split.
          + apply (match_mono_le (msize vx)); [lia|]. apply (Hx (str kx)). exact Ox.
          + apply (IHl Hl Ol). lia. }
      rewrite json_obj by exact E. unfold wrap. cbn [msize]. cbn [Nat.add]. cbn [xml_match]. rewrite E.
      rewrite <- !app_assoc, take_pref_app. cbn [flat_map]. rewrite app_nil_r.
      apply in_flat_map. exists (tag_close k ++ rest). split; [apply G; lia|]. rewrite take_pref_app. left. reflexivity.
Qed.

(* the whole document *)
Theorem conforms_own_rendering l : raw_number (JObj l) = None -> raw_ok (JObj l) = true ->
  xml_conforms (xml_document (JObj l)) (JObj l) = true.
Proof.
  intros E Hok. unfold xml_conforms, xml_document. rewrite app_assoc, take_pref_app. cbn [flat_map]. rewrite app_nil_r.
  apply existsb_exists. exists []. split; [|reflexivity].
  apply in_flat_map. exists (tag_close (str "data")). split; [|rewrite <- (app_nil_r (tag_close (str "data"))) at 2; rewrite take_pref_app; left; reflexivity].
  (* the top-level object has no element of its own: its members directly *)
  cbn [raw_ok] in Hok. rewrite E in Hok.
  rewrite json_obj by exact E. unfold wrap. cbn [msize]. cbn [Nat.add]. cbn [xml_match]. rewrite E. cbn [flat_map]. rewrite app_nil_r.
  assert (G : forall (l0 : list (string * jv)) f rest', forallb (fun kv => raw_ok (snd kv)) l0 = true ->
              (List.length l0 + list_sum (map (fun kv => msize (snd kv)) l0) + 1 <= f)%nat ->
              In rest' (xml_match_members f l0 (flat_map (fun kv => json_to_xml (Some (str (fst kv))) (snd kv)) l0 ++ rest'))).
  { induction l0 as [|[kx vx] l0 IHl]; intros f rest' Hk Hf.
    - destruct f as [|f]; [cbn in Hf; lia|]. cbn. left. reflexivity.
    - cbn [forallb snd] in Hk. apply andb_prop in Hk. destruct Hk as [Ox Ol]. cbn [List.length map snd] in Hf.
      change (list_sum (msize vx :: map (fun kv => msize (snd kv)) l0)) with (msize vx + list_sum (map (fun kv => msize (snd kv)) l0))%nat in Hf.
      destruct f as [|f]; [lia|]. cbn [xml_match_members].
      apply in_flat_map. exists 0%nat. split; [cbn [List.length seq]; left; reflexivity|]. cbn [nth_error remove_nth].
      cbn [flat_map fst snd]. rewrite <- app_assoc.
      apply in_flat_map. exists (flat_map (fun kv => json_to_xml (Some (str (fst kv))) (snd kv)) l0 ++ rest'). split.
      + apply (match_mono_le (msize vx)); [lia|]. apply match_complete. exact Ox.
      + apply IHl; [exact Ol|lia]. }
  apply G; [exact Hok|lia].
Qed.
