(* C15: the translated accessor tables mean what the specification says. *)
From GD Require Import Base.Prelude Model.View Gen.CommonImpls Model.ViewInst Spec.ViewSpec.
Require Import String Permutation.
Local Open Scope string_scope.

(* ---- the translation is complete: same types on both sides ---- *)
Lemma no_translation_problems : translation_problems = [].
Proof. reflexivity. Qed.
Lemma responses_covered : map fst response_impls = map fst spec_responses.
Proof. reflexivity. Qed.
Lemma players_covered : map fst player_impls = map fst spec_players.
Proof. reflexivity. Qed.
Lemma player_types_agree :
  map (fun kt => ti_player (snd kt)) response_impls = map (fun ks => sp_player (snd ks)) spec_responses.
Proof. reflexivity. Qed.

Ltac each_entry H :=
  repeat (destruct H as [H | H]; [inversion H; subst; clear H | ]); [.. | destruct H].
Ltac each_name H :=
  repeat (destruct H as [H | H]; [subst | ]); [.. | destruct H].

(* ---- accessors ---- *)
Lemma response_view_agrees key s :
  In (key, s) spec_responses ->
  forall a, In a (map fst response_kinds) ->
  forall r, i_response_acc key a r = eval_s (spec_acc s a) r.
Proof.
  intros H a Ha r. cbv [spec_responses] in H. cbn [map fst response_kinds] in Ha.
  each_entry H; each_name Ha; reflexivity.
Qed.

Lemma player_view_agrees key s :
  In (key, s) spec_players ->
  forall a, In a (map fst player_kinds) ->
  forall p, i_player_acc key a p = eval_s (spec_acc s a) p.
Proof.
  intros H a Ha p. cbv [spec_players] in H. cbn [map fst player_kinds] in Ha.
  each_entry H; each_name Ha; reflexivity.
Qed.

(* ---- as_original ---- *)
Lemma response_orig_agrees key s :
  In (key, s) spec_responses -> orig_of response_impls key = Some (sp_orig s).
Proof. intros H. cbv [spec_responses] in H. each_entry H; reflexivity. Qed.
Lemma player_orig_agrees key s :
  In (key, s) spec_players -> orig_of player_impls key = Some (sp_orig s).
Proof. intros H. cbv [spec_players] in H. each_entry H; reflexivity. Qed.

(* ---- the JSON form ---- *)
Ltac nodup := repeat (constructor; [cbn; intuition discriminate | ]); constructor.
Lemma json_keys_perm : Permutation (map fst response_json_body) json_keys.
Proof.
  apply NoDup_Permutation; [nodup | nodup | ].
  intros x; cbn; split; intros H; intuition.
Qed.
Lemma player_json_keys_perm : Permutation (map fst player_json_body) player_json_keys.
Proof.
  apply NoDup_Permutation; [nodup | nodup | ].
  intros x; cbn; split; intros H; intuition.
Qed.

Lemma all_some_ext {A B} (f g : A -> option B) l :
  (forall x, In x l -> f x = g x) -> all_some (map f l) = all_some (map g l).
Proof.
  induction l as [|x l IH]; intros H; cbn [map all_some]; [reflexivity|].
  rewrite (H x (or_introl eq_refl)), IH; [reflexivity|].
  intros y Hy; apply H; right; exact Hy.
Qed.

Definition pks := map fst player_json_body.
Definition ks := map fst response_json_body.

Lemma player_json_agrees key s :
  In (key, s) spec_players ->
  forall p, i_player_json key p = spec_player_json pks s p.
Proof.
  intros H p. unfold i_player_json, player_json, spec_player_json, pks.
  rewrite map_map.
  erewrite all_some_ext; [reflexivity|].
  intros fe Hfe. cbv [player_json_body] in Hfe.
  each_name Hfe; cbn [fst snd jexpr_player opt_pair spec_player_field];
    (change (player_acc player_defaults player_impls key) with (i_player_acc key);
     rewrite (player_view_agrees key s H); [reflexivity | cbn; tauto]).
Qed.

Lemma players_json_agree key s l :
  In (key, s) spec_players ->
  all_some (map (i_player_json key) l) = all_some (map (spec_player_json pks s) l).
Proof. intros H. apply all_some_ext. intros p _. apply player_json_agrees, H. Qed.

Lemma response_json_agrees key s :
  In (key, s) spec_responses ->
  forall r, i_response_json key r = spec_json ks pks s r.
Proof.
  intros H r. unfold i_response_json, response_json, spec_json, ks.
  rewrite map_map.
  erewrite all_some_ext; [reflexivity|].
  intros fe Hfe. cbv [response_json_body] in Hfe.
  each_name Hfe; cbn [fst snd jexpr_response opt_pair];
    change (response_acc response_defaults response_impls key) with (i_response_acc key);
    rewrite (response_view_agrees key s H) by (cbn; tauto);
    [reflexivity .. | ].
  (* players *)
  unfold spec_field. cbn [String.eqb Ascii.eqb Bool.eqb andb].
  cbv [spec_responses] in H.
  each_entry H; cbn [sp_player];
    (match goal with
     | |- context [eval_s ?e _] => let e' := eval vm_compute in e in change e with e'
     end;
     destruct (eval_s _ r) as [[| | | |l|]|] eqn:E; try reflexivity;
     try (cbn in E; discriminate);
     match goal with
     | |- context [assoc ?k response_impls] =>
         let t := eval vm_compute in (assoc k response_impls) in
         change (assoc k response_impls) with t
     end;
     match goal with
     | |- context [assoc ?k spec_players] =>
         let t := eval vm_compute in (assoc k spec_players) in
         change (assoc k spec_players) with t
     end;
     cbn [ti_player];
     first [ reflexivity
           | change (player_json player_defaults player_json_body player_impls) with i_player_json;
             erewrite players_json_agree; [reflexivity | cbv [spec_players]; tauto] ]).
Qed.
