(* Reads one hex-encoded case per line, runs the extracted model, prints the
   canonical text result. *)
open Model

let rec pos_of_int i =
  if i = 1 then XH else if i land 1 = 1 then XI (pos_of_int (i lsr 1)) else XO (pos_of_int (i lsr 1))
let n_of_int i = if i = 0 then N0 else Npos (pos_of_int i)
let rec int_of_pos = function XH -> 1 | XO p -> 2 * int_of_pos p | XI p -> 2 * int_of_pos p + 1
let int_of_n = function N0 -> 0 | Npos p -> int_of_pos p

let hexval c =
  match c with
  | '0' .. '9' -> Char.code c - 48
  | 'a' .. 'f' -> Char.code c - 87
  | 'A' .. 'F' -> Char.code c - 55
  | _ -> failwith "bad hex"

let bytes_table = Array.init 256 n_of_int

let () =
  let out = Buffer.create 65536 in
  (try
     while true do
       let line = input_line stdin in
       let n = String.length line / 2 in
       let rec build i acc =
         if i < 0 then acc
         else build (i - 1) (bytes_table.(hexval line.[2 * i] * 16 + hexval line.[2 * i + 1]) :: acc)
       in
       let res = run_case (build (n - 1) []) in
       Buffer.clear out;
       List.iter (fun x -> Buffer.add_char out (Char.chr (int_of_n x land 255))) res;
       print_string (Buffer.contents out);
       print_char '\n'
     done
   with End_of_file -> ());
  flush stdout
