#!/usr/bin/env python3
"""Translator for C15: reads every `impl CommonResponse / CommonPlayer for T`
in /repo's current source (plus the trait's default bodies and the struct
definitions the accessors read) and writes

  /verif/coq/Gen/CommonImpls.v      the accessor bodies as terms of a closed
                                    expression language (Model/View.v)
  /verif/.build/gen/common_schema.json   the struct shapes, for the value generator

Anything outside the closed grammar becomes `VUnsupported "<text>"`: the
theorems in Proofs/ViewProofs.v then no longer check."""
import json, os, re, sys

REPO = os.environ.get("VERIF_REPO", "/repo")
SRC = REPO + "/crates/lib/src/"
OUT_V = "/verif/coq/Gen/CommonImpls.v"
OUT_J = "/verif/.build/gen/common_schema.json"

# (key, file, rust type, player key or None)
RESPONSES = [
    ("valve", "protocols/valve/types.rs", "Response", "valve_player"),
    ("quake1", "protocols/quake/types.rs", "Response", "quake1_player"),
    ("quake2", "protocols/quake/types.rs", "Response", "quake2_player"),
    ("unreal2", "protocols/unreal2/types.rs", "Response", "unreal2_player"),
    ("gamespy1", "protocols/gamespy/protocols/one/types.rs", "Response", "gamespy1_player"),
    ("gamespy2", "protocols/gamespy/protocols/two/types.rs", "Response", "gamespy2_player"),
    ("gamespy3", "protocols/gamespy/protocols/three/types.rs", "Response", "gamespy3_player"),
    ("epic", "protocols/epic/types.rs", "Response", "epic_player"),
    ("mindustry", "games/mindustry/types.rs", "ServerData", None),
    ("minecraft_java", "games/minecraft/types.rs", "JavaResponse", "minecraft_player"),
    ("minecraft_bedrock", "games/minecraft/types.rs", "BedrockResponse", None),
    ("theship", "games/theship/types.rs", "Response", "theship_player"),
    ("ffow", "games/ffow/types.rs", "Response", None),
    ("jc2m", "games/jc2m/types.rs", "Response", "jc2m_player"),
    ("savage2", "games/savage2/types.rs", "Response", None),
    ("eco", "games/eco/types.rs", "Response", "eco_player"),
    ("minetest", "games/minetest/types.rs", "Response", "minetest_player"),
]
PLAYERS = [
    ("valve_player", "protocols/valve/types.rs", "ServerPlayer"),
    ("quake1_player", "protocols/quake/one.rs", "Player"),
    ("quake2_player", "protocols/quake/two.rs", "Player"),
    ("unreal2_player", "protocols/unreal2/types.rs", "Player"),
    ("gamespy1_player", "protocols/gamespy/protocols/one/types.rs", "Player"),
    ("gamespy2_player", "protocols/gamespy/protocols/two/types.rs", "Player"),
    ("gamespy3_player", "protocols/gamespy/protocols/three/types.rs", "Player"),
    ("epic_player", "protocols/epic/types.rs", "Player"),
    ("minecraft_player", "games/minecraft/types.rs", "Player"),
    ("theship_player", "games/theship/types.rs", "TheShipPlayer"),
    ("jc2m_player", "games/jc2m/types.rs", "Player"),
    ("eco_player", "games/eco/types.rs", "Player"),
    ("minetest_player", "games/minetest/types.rs", "Player"),
]
# generic Response<P> instances
GENERIC_ARGS = {"quake1": ("protocols/quake/one.rs", "Player"), "quake2": ("protocols/quake/two.rs", "Player")}

NUMS = {"u8": "U8", "u16": "U16", "u32": "U32", "u64": "U64", "usize": "U64",
        "i8": "I8", "i16": "I16", "i32": "I32", "i64": "I64", "isize": "I64"}


def strip_comments(s):
    out, i, n = [], 0, len(s)
    while i < n:
        if s.startswith("//", i):
            j = s.find("\n", i)
            i = n if j < 0 else j
        elif s.startswith("/*", i):
            j = s.find("*/", i + 2)
            i = n if j < 0 else j + 2
        elif s[i] == '"':
            j = i + 1
            while j < n and s[j] != '"':
                j += 2 if s[j] == "\\" else 1
            out.append(s[i:j + 1])
            i = j + 1
        else:
            out.append(s[i])
            i += 1
    return "".join(out)


def match_brace(s, i):
    """s[i] == '{' -> index of the matching '}'"""
    depth = 0
    j = i
    while j < len(s):
        c = s[j]
        if c == '"':
            j += 1
            while j < len(s) and s[j] != '"':
                j += 2 if s[j] == "\\" else 1
        elif c == "{":
            depth += 1
        elif c == "}":
            depth -= 1
            if depth == 0:
                return j
        j += 1
    raise ValueError("unbalanced braces")


_files = {}


def source(rel):
    if rel not in _files:
        _files[rel] = strip_comments(open(SRC + rel).read())
    return _files[rel]


def strip_attrs(s):
    # remove #[...] attributes (balanced brackets)
    out, i = [], 0
    while i < len(s):
        if s.startswith("#[", i):
            d, j = 0, i + 1
            while j < len(s):
                if s[j] == "[":
                    d += 1
                elif s[j] == "]":
                    d -= 1
                    if d == 0:
                        break
                j += 1
            i = j + 1
        else:
            out.append(s[i])
            i += 1
    return "".join(out)


def split_top(s, sep=","):
    parts, d, cur = [], 0, []
    for c in s:
        if c in "<([{":
            d += 1
        elif c in ">)]}":
            d -= 1
        if c == sep and d == 0:
            parts.append("".join(cur))
            cur = []
        else:
            cur.append(c)
    if "".join(cur).strip():
        parts.append("".join(cur))
    return parts


def find_items(rel):
    """struct and enum definitions of a file: name -> ('struct', [(field, type)]) | ('enum', [variant text])"""
    s = source(rel)
    items = {}
    for m in re.finditer(r"\bpub\s+(struct|enum)\s+(\w+)\s*(<[^>{]*>)?\s*\{", s):
        kind, name = m.group(1), m.group(2)
        i = m.end() - 1
        j = match_brace(s, i)
        body = strip_attrs(s[i + 1:j])
        if kind == "struct":
            fields = []
            for part in split_top(body):
                part = part.strip()
                if not part:
                    continue
                fm = re.match(r"(?:pub(?:\([^)]*\))?\s+)?(\w+)\s*:\s*(.+)$", part, re.S)
                if fm:
                    fields.append((fm.group(1), re.sub(r"\s+", "", fm.group(2))))
            items.setdefault(name, ("struct", fields, m.group(3)))
        else:
            vs = [re.sub(r"\s+", "", p) for p in split_top(body) if p.strip()]
            items.setdefault(name, ("enum", vs, None))
    return items


ALL_TYPE_FILES = sorted(set([r[1] for r in RESPONSES] + [p[1] for p in PLAYERS]))


def resolve(name, rel):
    """definition of a named type used in file rel"""
    it = find_items(rel)
    if name in it:
        return rel, it[name]
    s = source(rel)
    cands = [f for f in ALL_TYPE_FILES if f != rel and name in find_items(f)]
    for f in cands:
        mod = f.split("/")[-2] if f.endswith("types.rs") else f.split("/")[-1][:-3]
        for u in re.findall(r"\buse\s+[^;]*;", s):
            if re.search(r"\b%s\b" % mod, u) and re.search(r"\b%s\b" % name, u):
                return f, find_items(f)[name]
    if len(cands) == 1:
        return cands[0], find_items(cands[0])[name]
    return None, None


def shape(ty, rel, depth=0, subst=None):
    """JSON-able description of a Rust type for the value generator and for the typing of paths"""
    subst = subst or {}
    ty = ty.replace("std::collections::", "").replace("crate::protocols::quake::one::", "")
    if ty in subst:
        return subst[ty]
    if ty in NUMS:
        return {"k": "num", "t": NUMS[ty]}
    if ty in ("f32", "f64"):
        return {"k": "float"}
    if ty == "bool":
        return {"k": "bool"}
    if ty in ("String", "&str", "&'staticstr"):
        return {"k": "str"}
    if ty in ("Value", "serde_json::Value"):
        return {"k": "any"}
    m = re.match(r"Option<(.+)>$", ty)
    if m:
        return {"k": "opt", "of": shape(m.group(1), rel, depth, subst)}
    m = re.match(r"Vec<(.+)>$", ty)
    if m:
        return {"k": "vec", "of": shape(m.group(1), rel, depth, subst)}
    m = re.match(r"HashSet<(.+)>$", ty)
    if m:
        return {"k": "set", "of": shape(m.group(1), rel, depth, subst)}
    m = re.match(r"HashMap<String,(.+)>$", ty)
    if m:
        return {"k": "map", "of": shape(m.group(1), rel, depth, subst)}
    name = ty.split("::")[-1]
    f, it = resolve(name, rel)
    if it is None or depth > 6:
        return {"k": "unknown", "rust": ty}
    if it[0] == "struct":
        return {"k": "struct", "name": name, "file": f,
                "fields": [[fn, shape(ft, f, depth + 1, subst)] for fn, ft in it[1]]}
    vs = []
    for v in it[1]:
        vm = re.match(r"(\w+)(?:\((.+)\))?(?:=.*)?$", v)
        if vm and vm.group(2) is None:
            vs.append([vm.group(1), None])
        elif vm:
            vs.append([vm.group(1), shape(vm.group(2), f, depth + 1, subst)])
    return {"k": "enum", "name": name, "file": f, "variants": vs}


def impl_block(rel, trait, ty):
    s = source(rel)
    m = re.search(r"\bimpl\s*(<[^>]*>)?\s*(?:[\w:]+::)?%s\s+for\s+%s\s*(<[^>{]*>)?\s*\{" % (trait, ty), s)
    if not m:
        return None
    i = m.end() - 1
    return s[i + 1:match_brace(s, i)]


def fns_of(block):
    """fn name -> (return type text, body text without whitespace); body None when the fn has no body"""
    res = {}
    for m in re.finditer(r"\bfn\s+(\w+)\s*\(([^)]*)\)\s*(?:->\s*([^;{]+?))?\s*([{;])", block):
        name = m.group(1)
        ret = re.sub(r"\s+", "", m.group(3) or "")
        if m.group(4) == ";":
            res[name] = (ret, None)
            continue
        i = m.end() - 1
        j = match_brace(block, i)
        res[name] = (ret, re.sub(r"\s+", "", block[i + 1:j]))
    return res


PATH = r"self((?:\.\w+)+)"


def path_of(txt):
    return txt.strip(".").split(".")


def field_shape(root, path):
    cur = root
    for p in path:
        if cur.get("k") != "struct":
            return None
        nxt = [sh for fn, sh in cur["fields"] if fn == p]
        if not nxt:
            return None
        cur = nxt[0]
    return cur


def cstr(s):
    return '"' + s.replace('"', '""') + '"'


def cpath(p):
    return "[" + "; ".join(cstr(x) for x in p) + "]"


RET_NUM = {"u32": "U32", "Option<u32>": "U32", "Option<i32>": "I32", "i32": "I32"}


def fty(sh):
    """Coq fty term for a shape"""
    if sh is None:
        return None
    k = sh["k"]
    if k == "str":
        return "FStr"
    if k == "bool":
        return "FBool"
    if k == "num":
        return "(FNum %s)" % sh["t"]
    if k == "opt":
        inner = sh["of"]["k"]
        if inner == "str":
            return "FOptStr"
        if inner == "bool":
            return "FOptBool"
        if inner == "num":
            return "(FOptNum %s)" % sh["of"]["t"]
        if inner == "vec":
            return "FOptVec"
    if k == "vec":
        return "FVec"
    if k == "enum":
        return "FEnum"
    return "FOther"


def translate_expr(body, ret, root, rel):
    """closed grammar of accessor bodies"""
    def unsupported():
        return "(VUnsupported %s)" % cstr(body[:120])
    if body == "None":
        return "VNone"
    m = re.fullmatch(r"Some\(&" + PATH + r"\)", body)
    if m:
        p = path_of(m.group(1))
        t = fty(field_shape(root, p))
        return "(VSomeRef %s %s)" % (cpath(p), t) if t else unsupported()
    m = re.fullmatch(r"&" + PATH, body)
    if m:
        p = path_of(m.group(1))
        t = fty(field_shape(root, p))
        return "(VRef %s %s)" % (cpath(p), t) if t else unsupported()
    m = re.fullmatch(r"Some\(" + PATH + r"\)", body)
    if m:
        p = path_of(m.group(1))
        t = fty(field_shape(root, p))
        return "(VSomeCopy %s %s)" % (cpath(p), t) if t else unsupported()
    m = re.fullmatch(PATH, body)
    if m:
        p = path_of(m.group(1))
        t = fty(field_shape(root, p))
        return "(VCopy %s %s)" % (cpath(p), t) if t else unsupported()
    m = re.fullmatch(r"Some\(" + PATH + r"\.into\(\)\)", body)
    if m and ret in RET_NUM:
        p = path_of(m.group(1))
        sh = field_shape(root, p)
        if sh and sh["k"] == "num":
            return "(VSomeInto %s %s %s)" % (cpath(p), sh["t"], RET_NUM[ret])
        return unsupported()
    m = re.fullmatch(PATH + r"\.into\(\)", body)
    if m and ret in RET_NUM:
        p = path_of(m.group(1))
        sh = field_shape(root, p)
        if sh and sh["k"] == "num":
            return "(VInto %s %s %s)" % (cpath(p), sh["t"], RET_NUM[ret])
        return unsupported()
    m = re.fullmatch(PATH + r"\.try_into\(\)\.unwrap_or\(0\)", body)
    if m and ret in RET_NUM:
        p = path_of(m.group(1))
        sh = field_shape(root, p)
        if sh and sh["k"] == "num":
            return "(VTryIntoOr0 %s %s %s)" % (cpath(p), sh["t"], RET_NUM[ret])
        return unsupported()
    m = re.fullmatch(PATH + r"\.as_deref\(\)", body)
    if m:
        p = path_of(m.group(1))
        t = fty(field_shape(root, p))
        return "(VAsDeref %s %s)" % (cpath(p), t) if t else unsupported()
    m = re.fullmatch(r"Some\(" + PATH + r"\.as_str\(\)\)", body)
    if m:
        p = path_of(m.group(1))
        sh = field_shape(root, p)
        if sh and sh["k"] == "enum":
            tbl = enum_as_str(sh)
            if tbl is not None:
                return "(VSomeEnumStr %s [%s])" % (cpath(p), "; ".join("(%s, %s)" % (cstr(a), cstr(b)) for a, b in tbl))
        if sh and sh["k"] == "str":
            return "(VSomeRef %s FStr)" % cpath(p)
        return unsupported()
    dynp = r"(?:&dyn(?:crate::protocols::types::)?CommonPlayer|_)"
    m = re.fullmatch(r"Some\(" + PATH + r"\.iter\(\)\.map\(\|(\w+)\|(\w+)as" + dynp + r"\)\.collect\(\),?\)", body)
    if m and m.group(2) == m.group(3):
        p = path_of(m.group(1))
        t = fty(field_shape(root, p))
        return "(VPlayersAll %s %s)" % (cpath(p), t) if t else unsupported()
    m = re.fullmatch(PATH + r"\.as_ref\(\)\.map\(\|(\w+)\|(\w+)\.iter\(\)\.map\(\|(\w+)\|(\w+)as" + dynp + r"\)\.collect\(\)\)", body)
    if m and m.group(2) == m.group(3) and m.group(4) == m.group(5):
        p = path_of(m.group(1))
        t = fty(field_shape(root, p))
        return "(VPlayersOpt %s %s)" % (cpath(p), t) if t else unsupported()
    return unsupported()


def enum_as_str(sh):
    """the match arms of `fn as_str(&self)` of an enum: [(variant, text)]"""
    s = source(sh["file"])
    m = re.search(r"\bimpl\s+%s\s*\{" % sh["name"], s)
    if not m:
        return None
    i = m.end() - 1
    block = s[i + 1:match_brace(s, i)]
    fs = fns_of(block)
    if "as_str" not in fs or fs["as_str"][1] is None:
        return None
    body = fs["as_str"][1]
    mm = re.fullmatch(r"matchself\{(.*)\}", body)
    if not mm:
        return None
    arms = []
    for arm in split_top(mm.group(1).replace("=>", "\x01")):
        if not arm:
            continue
        am = re.fullmatch(r"(?:Self|%s)::(\w+)\x01\"([^\"]*)\"" % sh["name"], arm)
        if not am:
            return None
        arms.append((am.group(1), am.group(2)))
    return arms


def translate_orig(body, rel, key):
    """as_original: Variant(self) possibly through a versioned wrapper"""
    b = re.sub(r"(?:crate::protocols::(?:types::)?)", "", body)
    m = re.fullmatch(r"Generic(Response|Player)::(\w+)\(self\)", b)
    if m:
        return "(OSelf [%s])" % cstr(m.group(2))
    m = re.fullmatch(r"Generic(Response|Player)::(\w+)\((?:\w+::)*Versioned(?:Response|Player)::(\w+)\(self\)\)", b)
    if m:
        return "(OSelf [%s; %s])" % (cstr(m.group(2)), cstr(m.group(3)))
    m = re.fullmatch(r"GenericResponse::(\w+)\(P::version\(self\)\)", b)
    if m and key in GENERIC_ARGS:
        prel, pty = GENERIC_ARGS[key]
        blk = impl_block(prel, "QuakePlayerType", pty)
        if blk:
            fs = fns_of(blk)
            vb = fs.get("version", (None, None))[1]
            pm = re.search(r"fn\s+version\s*\(\s*(\w+)\s*:", blk)
            if vb and pm:
                vm = re.fullmatch(r"(?:\w+::)*VersionedResponse::(\w+)\(%s\)" % pm.group(1), vb)
                if vm:
                    return "(OSelf [%s; %s])" % (cstr(m.group(1)), cstr(vm.group(1)))
    return "(OUnsupported %s)" % cstr(body[:120])


def translate_json_body(body, accs):
    """CommonResponseJson { f: self.f(), ..., players: self.players().map(|ps| ps.iter().map(|p| p.as_json()).collect()) }"""
    m = re.fullmatch(r"Common(?:Response|Player)Json\{(.*)\}", body)
    if not m:
        return None
    out = []
    for part in split_top(m.group(1)):
        if not part:
            continue
        fm = re.fullmatch(r"(\w+):(.*)", part)
        if not fm:
            return None
        f, e = fm.group(1), fm.group(2)
        am = re.fullmatch(r"self\.(\w+)\(\)", e)
        if am:
            out.append((f, "(JAcc %s)" % cstr(am.group(1))))
            continue
        pm = re.fullmatch(r"self\.(\w+)\(\)\.map\(\|(\w+)\|(\w+)\.iter\(\)\.map\(\|(\w+)\|(\w+)\.as_json\(\)\)\.collect\(\)\)", e)
        if pm and pm.group(2) == pm.group(3) and pm.group(4) == pm.group(5):
            out.append((f, "(JPlayersJson %s)" % cstr(pm.group(1))))
            continue
        out.append((f, "(JUnsupported %s)" % cstr(e[:120])))
    return out


def main():
    problems = []
    lines = ["(* GENERATED by tools/translate_common.py from /repo's source: do not edit. *)",
             "From GD Require Import Base.Prelude Model.View.", "Require Import String.", "Local Open Scope string_scope.", ""]
    schema = {"responses": {}, "players": {}}

    # every impl in the source must be listed
    listed = set((r[1], r[2]) for r in RESPONSES) | set((p[1], p[2]) for p in PLAYERS)
    for root, _, files in os.walk(SRC):
        for f in files:
            if not f.endswith(".rs"):
                continue
            rel = os.path.relpath(os.path.join(root, f), SRC)
            s = strip_comments(open(os.path.join(root, f)).read())
            for m in re.finditer(r"\bimpl\s*(?:<[^>]*>)?\s*(?:[\w:]+::)?(CommonResponse|CommonPlayer)\s+for\s+(\w+)", s):
                if (rel, m.group(2)) not in listed:
                    problems.append("impl %s for %s in %s is not in the translator's list" % (m.group(1), m.group(2), rel))

    # trait defaults
    tsrc = source("protocols/types.rs")
    defaults = {}
    for trait in ("CommonResponse", "CommonPlayer"):
        m = re.search(r"\bpub\s+trait\s+%s\s*\{" % trait, tsrc)
        i = m.end() - 1
        block = tsrc[i + 1:match_brace(tsrc, i)]
        fs = fns_of(block)
        defaults[trait] = fs
    def emit_defaults(trait, cname):
        ents = []
        for name, (ret, body) in defaults[trait].items():
            if name in ("as_original", "as_json"):
                continue
            if body is None:
                ents.append("(%s, VRequired)" % cstr(name))
            else:
                ents.append("(%s, %s)" % (cstr(name), translate_expr(body, ret, {"k": "struct", "fields": []}, "protocols/types.rs")))
        lines.append("Definition %s : list (string * vexpr) :=\n  [%s]." % (cname, ";\n   ".join(ents)))
    emit_defaults("CommonResponse", "response_defaults")
    emit_defaults("CommonPlayer", "player_defaults")
    for trait, cname in (("CommonResponse", "response_json_body"), ("CommonPlayer", "player_json_body")):
        jb = translate_json_body(defaults[trait]["as_json"][1] or "", None)
        if jb is None:
            jb = [("?", "(JUnsupported %s)" % cstr((defaults[trait]["as_json"][1] or "")[:120]))]
        lines.append("Definition %s : list (string * jexpr) :=\n  [%s]." % (cname, ";\n   ".join("(%s, %s)" % (cstr(f), e) for f, e in jb)))
    lines.append("")

    def do_type(key, rel, ty, trait, pkey=None):
        subst = {}
        if key in GENERIC_ARGS:
            prel, pty = GENERIC_ARGS[key]
            psh = shape(pty, prel)
            subst = {"P": psh}
        it = find_items(rel).get(ty)
        if it is None or it[0] != "struct":
            problems.append("struct %s not found in %s" % (ty, rel))
            return None
        root = {"k": "struct", "name": ty, "file": rel, "fields": [[fn, shape(ft, rel, 0, subst)] for fn, ft in it[1]]}
        blk = impl_block(rel, trait, ty)
        if blk is None:
            problems.append("impl %s for %s not found in %s" % (trait, ty, rel))
            return None
        fs = fns_of(blk)
        ents = []
        orig = "(OUnsupported \"missing\")"
        for name, (ret, body) in fs.items():
            if name == "as_original":
                orig = translate_orig(body, rel, key)
            elif name == "as_json":
                ents.append("(\"as_json\", VUnsupported \"as_json overridden\")")
            else:
                dret = defaults[trait].get(name, (ret, None))[0]
                ents.append("(%s, %s)" % (cstr(name), translate_expr(body, dret, root, rel)))
        return root, ents, orig

    rents = []
    for key, rel, ty, pkey in RESPONSES:
        r = do_type(key, rel, ty, "CommonResponse", pkey)
        if r is None:
            continue
        root, ents, orig = r
        schema["responses"][key] = {"shape": root, "player": pkey}
        rents.append("(%s, mkimpl\n   [%s]\n   %s %s)" % (cstr(key), ";\n    ".join(ents), orig, cstr(pkey or "")))
    lines.append("Definition response_impls : list (string * timpl) :=\n [%s]." % ";\n  ".join(rents))
    pents = []
    for key, rel, ty in PLAYERS:
        r = do_type(key, rel, ty, "CommonPlayer")
        if r is None:
            continue
        root, ents, orig = r
        schema["players"][key] = {"shape": root}
        pents.append("(%s, mkimpl\n   [%s]\n   %s \"\")" % (cstr(key), ";\n    ".join(ents), orig))
    lines.append("Definition player_impls : list (string * timpl) :=\n [%s]." % ";\n  ".join(pents))
    lines.append("")
    lines.append("Definition translation_problems : list string :=\n  [%s]." % "; ".join(cstr(p) for p in problems))
    text = "\n".join(lines) + "\n"
    os.makedirs(os.path.dirname(OUT_V), exist_ok=True)
    os.makedirs(os.path.dirname(OUT_J), exist_ok=True)
    if not os.path.exists(OUT_V) or open(OUT_V).read() != text:
        open(OUT_V, "w").write(text)
    json.dump(schema, open(OUT_J, "w"), indent=1)
    for p in problems:
        print("translate_common: " + p)


if __name__ == "__main__":
    main()
