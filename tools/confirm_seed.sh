#!/bin/bash
# confirm_seed.sh <ID> <m>: confirm a seeded change in its scratch worktree
# (demo passes without, fails with; suite still passes), then store it under /verif/seeded/<ID>-<m>/.
ID=$1; M=$2; W=/tmp/seed/$ID; O=/tmp/seed/$ID-out/$M
cd $W || exit 2
BASE=/tmp/seed/$ID-out/baseline.diff
reset_tree() { git checkout -q -- . && git clean -fdq -e target; [ -f $BASE ] && git apply $BASE; true; }
reset_tree
DEMO=$(python3 -c "import json;print(json.load(open('$O/meta.json'))['demo_cmd'])")
DEMO=${DEMO#cd /tmp/seed/$ID && }
git apply $O/demo.diff || { echo "demo.diff does not apply"; exit 2; }
( eval "$DEMO" ) > $O/confirm_demo_clean.log 2>&1; A=$?
git apply $O/patch.diff || { echo "patch.diff does not apply"; exit 2; }
( eval "$DEMO" ) > $O/confirm_demo_patched.log 2>&1; B=$?
reset_tree
git apply $O/patch.diff
cargo test --workspace --offline --no-fail-fast > $O/confirm_suite.log 2>&1
FAILED=$(grep -E "^test .* \.\.\. FAILED" $O/confirm_suite.log | grep -v "errors::kind::tests::test_display" | wc -l)
PASSED=$(grep -E "^test result" $O/confirm_suite.log | awk '{s+=$4} END {print s}')
git checkout -q -- . && git clean -fdq -e target
echo "$ID $M: demo clean exit=$A, demo patched exit=$B, suite other failures=$FAILED passed=$PASSED"
if [ "$A" = 0 ] && [ "$B" != 0 ] && [ "$FAILED" = 0 ] && [ "$PASSED" -ge 57 ]; then
  D=/verif/seeded/$ID-$M; mkdir -p $D
  cp $O/patch.diff $O/demo.diff $D/; [ -f $BASE ] && cp $BASE $D/baseline.diff
  python3 - <<PY
import json
m=json.load(open('$O/meta.json'))
m['confirmed']={'worktree_base':'$(git -C $W rev-parse --short HEAD)','demo_without_patch_exit':$A,'demo_with_patch_exit':$B,'suite_passed':$PASSED,'suite_other_failures':$FAILED,
 'ran':['git apply demo.diff; $DEMO  (passes)','git apply patch.diff; $DEMO  (fails)','git apply patch.diff; cargo test --workspace --offline --no-fail-fast  (only the known test_display failure)']}
json.dump(m,open('$D/meta.json','w'),indent=1)
PY
  echo CONFIRMED
else
  echo NOT-CONFIRMED
fi
