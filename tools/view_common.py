"""Value generator for C15: response values of every type, shaped after the
struct definitions that tools/translate_common.py read from /repo."""
import json
from vlib import *

SCHEMA = BUILD + "/gen/common_schema.json"
RANGES = {"U8": (0, 2**8 - 1), "U16": (0, 2**16 - 1), "U32": (0, 2**32 - 1), "U64": (0, 2**64 - 1),
          "I8": (-2**7, 2**7 - 1), "I16": (-2**15, 2**15 - 1), "I32": (-2**31, 2**31 - 1), "I64": (-2**63, 2**63 - 1)}
WORDS = ["", "a", "de_dust2", "Server #1", "café", "日本", "x y", "q\"uote", "back\\slash", "0", "None", "name", "map"]


class Float:
    def __init__(self, n):
        self.n = n


def gen_num(t, rng):
    lo, hi = RANGES[t]
    k = rng.below(10)
    if k == 0:
        return lo
    if k == 1:
        return hi
    if k == 2:
        return (hi + 1) // 2          # just past the signed range of the same width
    if k == 3:
        return min(hi, 32768 + rng.below(30000))
    if k == 4:
        return max(lo, -1 - rng.below(100)) if lo < 0 else rng.below(min(hi, 300) + 1)
    return lo + rng.below(min(hi - lo, 100000) + 1) if k < 8 else lo + rng.below(hi - lo + 1)


def gen_str(rng, hint):
    k = rng.below(8)
    if k == 0:
        return rng.choice(WORDS)
    return "%s-%d" % (hint, rng.below(1000))


def gen_value(sh, rng, hint="v", depth=0):
    k = sh["k"]
    if k == "num":
        return gen_num(sh["t"], rng)
    if k == "float":
        return Float(rng.below(1000) - 100)
    if k == "bool":
        return rng.chance(1, 2)
    if k == "str":
        return gen_str(rng, hint)
    if k == "any":
        return None
    if k == "opt":
        return None if rng.chance(1, 3) else gen_value(sh["of"], rng, hint, depth)
    if k in ("vec", "set"):
        n = 0 if rng.chance(1, 4) else 1 + rng.below(4)
        vals = [gen_value(sh["of"], rng, "%s%d" % (hint, i), depth + 1) for i in range(n)]
        if k == "set":
            seen, out = set(), []
            for v in vals:
                if json.dumps(v, default=str) not in seen:
                    seen.add(json.dumps(v, default=str))
                    out.append(v)
            vals = out
        return vals
    if k == "map":
        return dict(("k%d" % i, gen_value(sh["of"], rng, hint, depth + 1)) for i in range(rng.below(3)))
    if k == "struct":
        return dict((fn, gen_value(fs, rng, fn, depth + 1)) for fn, fs in sh["fields"])
    if k == "enum":
        v = rng.choice(sh["variants"])
        if v[1] is None:
            return v[0]
        return {v[0]: gen_value(v[1], rng, hint, depth + 1)}
    raise ValueError("no generator for shape %r" % (sh,))


def enc_tree(v):
    if v is None:
        return b"\x00"
    if v is False:
        return b"\x01"
    if v is True:
        return b"\x02"
    if isinstance(v, Float):
        return b"\x07" + (b"\x01" if v.n < 0 else b"\x00") + abs(v.n).to_bytes(8, "big")
    if isinstance(v, int):
        return b"\x03" + (b"\x01" if v < 0 else b"\x00") + abs(v).to_bytes(8, "big")
    if isinstance(v, str):
        b = v.encode()
        return b"\x04" + len(b).to_bytes(2, "big") + b
    if isinstance(v, list):
        return b"\x05" + len(v).to_bytes(2, "big") + b"".join(enc_tree(x) for x in v)
    if isinstance(v, dict):
        out = b"\x06" + len(v).to_bytes(2, "big")
        for k, x in v.items():
            kb = k.encode()
            out += len(kb).to_bytes(2, "big") + kb + enc_tree(x)
        return out
    raise ValueError(v)


def view_case(fam, key, value):
    kb = key.encode()
    return (bytes([fam]) + len(kb).to_bytes(2, "big") + kb + enc_tree(value)).hex()


def plain(v):
    if isinstance(v, Float):
        return float(v.n)
    if isinstance(v, list):
        return [plain(x) for x in v]
    if isinstance(v, dict):
        return dict((k, plain(x)) for k, x in v.items())
    return v
