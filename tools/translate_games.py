#!/usr/bin/env python3
"""Translator for C14.

  pre   reads every game_query_mod! invocation of games/{valve,gamespy,quake,unreal2}.rs
        and the default ports / engines of the hand-written game modules, writes
        coq/Gen/ModulesTable.v and harness/src/gen_modules.rs (a table id -> module query fn)
  post  asks the built harness for the real GAMES static (gd-harness --dump-games:
        id, default port, Protocol, request settings, serialised by the crate's own serde
        derives) and writes coq/Gen/GamesTable.v and .build/gen/games.json
"""
import json, os, re, subprocess, sys
sys.path.insert(0, os.path.dirname(os.path.abspath(__file__)))
from translate_common import strip_comments, split_top, match_brace, cstr

REPO = os.environ.get("VERIF_REPO", "/repo")
SRC = REPO + "/crates/lib/src/"
GEN = "/verif/coq/Gen/"
HARNESS = "/verif/.build/harness-target/debug/gd-harness"


def write_if_changed(path, text):
    os.makedirs(os.path.dirname(path), exist_ok=True)
    if not os.path.exists(path) or open(path).read() != text:
        open(path, "w").write(text)


def split_args(s):
    """top-level comma split that respects string literals"""
    parts, cur, d, i = [], [], 0, 0
    while i < len(s):
        c = s[i]
        if c == '"':
            j = i + 1
            while s[j] != '"':
                j += 2 if s[j] == "\\" else 1
            cur.append(s[i:j + 1])
            i = j + 1
            continue
        if c in "([{":
            d += 1
        elif c in ")]}":
            d -= 1
        if c == "," and d == 0:
            parts.append("".join(cur).strip())
            cur = []
        else:
            cur.append(c)
        i += 1
    if "".join(cur).strip():
        parts.append("".join(cur).strip())
    return parts


def lit(s):
    """a Rust string literal as a Coq string"""
    s = s.strip()
    if not (s.startswith('"') and s.endswith('"')) or "\\" in s:
        return cstr("?" + s)
    return cstr(s[1:-1])


def num(s):
    s = s.replace("_", "").strip()
    return int(s) if re.fullmatch(r"\d+", s) else None


def parse_engine(e):
    e = re.sub(r"\s+", "", e)
    m = re.fullmatch(r"Engine::new\(([\d_]+)\)", e)
    if m:
        return "(Source (Some (%d, None)))" % num(m.group(1))
    m = re.fullmatch(r"Engine::new_with_dedicated\(([\d_]+),([\d_]+)\)", e)
    if m:
        return "(Source (Some (%d, Some %d)))" % (num(m.group(1)), num(m.group(2)))
    m = re.fullmatch(r"Engine::(?:new_gold_src|GoldSrc)\((true|false)\)", e)
    if m:
        return "(GoldSrc %s)" % m.group(1)
    if e == "Engine::Source(None)":
        return "(Source None)"
    return None


TOG = {"Skip": "Skip", "Try": "Try", "Enforce": "Enforce"}


def parse_gather(g):
    g = re.sub(r"\s+", "", g)
    if g == "GatheringSettings::default()":
        return "(mk_gather Try Try true)"
    m = re.fullmatch(r"GatheringSettings\{players:GatherToggle::(\w+),rules:GatherToggle::(\w+),check_app_id:(true|false),?\}", g)
    if m and m.group(1) in TOG and m.group(2) in TOG:
        return "(mk_gather %s %s %s)" % (m.group(1), m.group(2), m.group(3))
    return None


def invocations(rel):
    s = strip_comments(open(SRC + rel).read())
    out = []
    for m in re.finditer(r"\bgame_query_mod!\s*\(", s):
        i = m.end() - 1
        d, j = 0, i
        while True:
            c = s[j]
            if c == '"':
                j += 1
                while s[j] != '"':
                    j += 2 if s[j] == "\\" else 1
            elif c == "(":
                d += 1
            elif c == ")":
                d -= 1
                if d == 0:
                    break
            j += 1
        out.append(split_args(s[i + 1:j]))
    return out


VER = {"one": 1, "two": 2, "three": 3}


def pre():
    problems, rows, rust = [], [], []
    for a in invocations("games/valve.rs"):
        if len(a) not in (4, 5):
            problems.append("valve module row with %d arguments: %s" % (len(a), a[:1]))
            continue
        e, p = parse_engine(a[2]), num(a[3])
        g = parse_gather(a[4]) if len(a) == 5 else "(mk_gather Try Try true)"
        if e is None or p is None or g is None:
            problems.append("valve module row outside the grammar: " + ", ".join(a)[:160])
            continue
        rows.append("MValve %s %s %s %d %s" % (cstr(a[0]), lit(a[1]), e, p, g))
        rust.append('        "%s" => Some(run_scripted(script, |r: &gamedig::protocols::valve::game::Response| canon(r), || gamedig::games::%s::query(ip, port))),' % (a[0], a[0]))
    for fam, rel in (("gamespy", "games/gamespy.rs"), ("quake", "games/quake.rs")):
        for a in invocations(rel):
            if len(a) != 4 or a[2] not in VER or num(a[3]) is None:
                problems.append("%s module row outside the grammar: %s" % (fam, ", ".join(a)[:160]))
                continue
            rows.append("%s %s %s %d %d" % ("MGamespy" if fam == "gamespy" else "MQuake", cstr(a[0]), lit(a[1]), VER[a[2]], num(a[3])))
            rust.append('        "%s" => Some(run_scripted(script, |r| canon(r), || gamedig::games::%s::query(ip, port))),' % (a[0], a[0]))
    for a in invocations("games/unreal2.rs"):
        if len(a) != 3 or num(a[2]) is None:
            problems.append("unreal2 module row outside the grammar: " + ", ".join(a)[:160])
            continue
        rows.append("MUnreal2 %s %s %d" % (cstr(a[0]), lit(a[1]), num(a[2])))
        rust.append('        "%s" => Some(run_scripted(script, crate::query::canon_u2, || gamedig::games::%s::query(ip, port))),' % (a[0], a[0]))

    # hand-written modules: default ports (and engines) as literals in their sources
    hand = []

    def grab(key, rel, pat, what):
        s = strip_comments(open(SRC + rel).read())
        m = re.search(pat, s)
        if not m:
            problems.append("%s: %s not found in %s" % (key, what, rel))
            return None
        return m.group(1)
    for key, rel in (("theship", "games/theship/protocol.rs"), ("ffow", "games/ffow/protocol.rs"), ("jc2m", "games/jc2m/protocol.rs"),
                     ("savage2", "games/savage2/protocol.rs"), ("eco", "games/eco/protocol.rs"), ("battalion1944", "games/battalion1944.rs")):
        p = grab(key, rel, r"port\.unwrap_or\(([\d_]+)\)", "default port")
        if p:
            hand.append((key, num(p)))
    p = grab("mindustry", "games/mindustry/mod.rs", r"DEFAULT_PORT\s*:\s*u16\s*=\s*([\d_]+)", "DEFAULT_PORT")
    if p:
        hand.append(("mindustry", num(p)))
    for key, fn in (("minecraft_java", "port_or_java_default"), ("minecraft_bedrock", "port_or_bedrock_default")):
        p = grab(key, "games/minecraft/mod.rs", r"fn\s+%s\s*\([^)]*\)\s*->\s*u16\s*\{\s*port\.unwrap_or\(([\d_]+)\)" % fn, fn)
        if p:
            hand.append((key, num(p)))
    hand_engines = []
    for key, rel in (("theship", "games/theship/protocol.rs"), ("battalion1944", "games/battalion1944.rs")):
        s = strip_comments(open(SRC + rel).read())
        m = re.search(r"valve::query\(\s*&SocketAddr::new\(\*address,\s*port\.unwrap_or\([\d_]+\)\),\s*(Engine::\w+\([^)]*\)),\s*(\w+),", s)
        e = parse_engine(m.group(1)) if m else None
        if e is None or m.group(2) != "None":
            problems.append("%s: valve::query call outside the grammar" % key)
        else:
            hand_engines.append((key, e))

    v = ["(* GENERATED by tools/translate_games.py pre from /repo's source: do not edit. *)",
         "From GD Require Import Base.Prelude Model.Net Model.Valve Model.Dispatch.", "Require Import String.", "Local Open Scope string_scope.", "",
         "Definition modules : list mrow :=\n  [%s]." % ";\n   ".join(rows),
         "Definition hand_ports : list (string * N) :=\n  [%s]." % "; ".join("(%s, %d)" % (cstr(k), p) for k, p in hand),
         "Definition hand_engines : list (string * engine) :=\n  [%s]." % "; ".join("(%s, %s)" % (cstr(k), e) for k, e in hand_engines),
         "Definition module_translation_problems : list string :=\n  [%s]." % "; ".join(cstr(p) for p in problems), ""]
    write_if_changed(GEN + "ModulesTable.v", "\n".join(v))
    os.makedirs("/verif/.build/gen", exist_ok=True)
    mods = []
    for row in rows:
        m = re.match(r'(M\w+) "([^"]*)" "((?:[^"]|"")*)"', row)
        mods.append({"kind": m.group(1), "id": m.group(2), "name": m.group(3).replace('""', '"')})
    json.dump({"modules": mods, "hand_ports": dict(hand)}, open("/verif/.build/gen/modules.json", "w"), indent=1)
    r = ["// GENERATED by tools/translate_games.py pre from /repo's source: do not edit.",
         "pub fn call_module(id: &str, ip: &std::net::IpAddr, port: Option<u16>, script: gamedig::verif_hook::Script) -> Option<String> {",
         "    use crate::query::run_scripted;", "    use crate::ser::canon;", "    match id {"] + rust + ["        _ => None,", "    }", "}", ""]
    write_if_changed("/verif/harness/src/gen_modules.rs", "\n".join(r))
    for p in problems:
        print("translate_games: " + p)


def coq_toggle(t):
    return {"Skip": "Skip", "Try": "Try", "Enforce": "Enforce"}[t]


def coq_opt(v, f):
    return "None" if v is None else "(Some %s)" % f(v)


def post():
    out = subprocess.run([HARNESS, "--dump-games"], stdout=subprocess.PIPE, check=True).stdout.decode()
    games = [json.loads(l) for l in out.split("\n") if l.strip()]
    games.sort(key=lambda g: g["id"])
    problems, rows = [], []
    for g in games:
        pr = g["protocol"]
        if "Valve" in pr:
            e = pr["Valve"]
            if "Source" in e:
                s = e["Source"]
                ce = "(Source None)" if s is None else "(Source (Some (%d, %s)))" % (s[0], coq_opt(s[1], str))
            else:
                ce = "(GoldSrc %s)" % ("true" if e["GoldSrc"] else "false")
            cp = "(PValve %s)" % ce
        elif "Gamespy" in pr:
            cp = "(PGamespy %d)" % VER[pr["Gamespy"].lower()]
        elif "Quake" in pr:
            cp = "(PQuake %d)" % VER[pr["Quake"].lower()]
        elif pr == "Unreal2":
            cp = "PUnreal2"
        elif isinstance(pr, dict) and "PROPRIETARY" in pr:
            p = pr["PROPRIETARY"]
            if isinstance(p, str):
                cp = "(PProp %s \"\")" % cstr(p)
            else:
                k = list(p.keys())[0]
                sub = p[k]
                cp = "(PProp %s %s)" % (cstr(k), cstr(json.dumps(sub, separators=(",", ":")) if sub is not None else "auto"))
        else:
            problems.append("game %s: protocol outside the grammar: %s" % (g["id"], json.dumps(pr)[:80]))
            continue
        x = g["request_settings"]
        cx = "(mk_xs %s %s %s %s %s)" % (coq_opt(x["gather_players"], coq_toggle), coq_opt(x["gather_rules"], coq_toggle),
                                         coq_opt(x["check_app_id"], lambda b: "true" if b else "false"),
                                         coq_opt(x["hostname"], lambda h: "(str %s)" % cstr(h)),
                                         coq_opt(x["protocol_version"], lambda z: "(%d)%%Z" % z))
        rows.append("mkdef %s %s %d %s %s" % (cstr(g["id"]), cstr(g["name"]), g["default_port"], cp, cx))
    v = ["(* GENERATED by tools/translate_games.py post from the GAMES static of the built crate: do not edit. *)",
         "From GD Require Import Base.Prelude Model.Net Model.Valve Model.Dispatch.", "Require Import String.", "Local Open Scope string_scope.", "",
         "Definition games : list gdef :=\n  [%s]." % ";\n   ".join(rows),
         "Definition games_translation_problems : list string :=\n  [%s]." % "; ".join(cstr(p) for p in problems), ""]
    write_if_changed(GEN + "GamesTable.v", "\n".join(v))
    os.makedirs("/verif/.build/gen", exist_ok=True)
    json.dump(games, open("/verif/.build/gen/games.json", "w"), indent=1)
    for p in problems:
        print("translate_games: " + p)


if __name__ == "__main__":
    {"pre": pre, "post": post}[sys.argv[1]]()
