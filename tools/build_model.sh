#!/bin/bash
# Build the Coq development (full .vo), extract the model, compile the driver.
set -e
cd /verif/coq
[ -f Makefile ] && [ Makefile -nt _CoqProject ] || coq_makefile -f _CoqProject -o Makefile >/dev/null
timeout 3000 make -j16 "$@" 2>&1 | grep -E "Error|error|^File " -A8 || true
test "${PIPESTATUS[0]}" = 0
mkdir -p /verif/.build/extract
cd /verif/.build/extract
if [ ! -f model.ml ] || [ /verif/coq/Model/Case.vo -nt model.ml ] || [ /verif/extract/driver.ml -nt driver ]; then
  timeout 600 coqc -Q /verif/coq GD /verif/coq/Extract/Extract.v -o /verif/.build/extract/Extract.vo 2>&1 | grep -v "^Warning\|extraction-opaque\|output-directory\|^\[" || true
  cp /verif/extract/driver.ml .
  ocamlfind ocamlopt -w -a -package str model.mli model.ml driver.ml -o driver
fi
