"""Common machinery for the checks: build, audit, run model and implementation
on the same cases, diff, decide, write evidence."""
import fcntl, hashlib, json, os, re, subprocess, sys, time

VERIF = "/verif"
REPO = "/repo"
BUILD = VERIF + "/.build"
DRIVER = BUILD + "/extract/driver"
HARNESS = BUILD + "/harness-target/debug/gd-harness"
NCPU = 16

MASK = (1 << 64) - 1


class Rng:
    """splitmix64; every random choice of a run derives from VERIF_SEED."""

    def __init__(self, seed):
        self.s = seed & MASK

    def next(self):
        self.s = (self.s + 0x9E3779B97F4A7C15) & MASK
        z = self.s
        z = ((z ^ (z >> 30)) * 0xBF58476D1CE4E5B9) & MASK
        z = ((z ^ (z >> 27)) * 0x94D049BB133111EB) & MASK
        return z ^ (z >> 31)

    def below(self, n):
        return self.next() % n if n > 0 else 0

    def choice(self, seq):
        return seq[self.below(len(seq))]

    def chance(self, num, den):
        return self.below(den) < num

    def bytes(self, n, alphabet=None):
        if alphabet is None:
            return bytes(self.below(256) for _ in range(n))
        return bytes(self.choice(alphabet) for _ in range(n))

    def fork(self, tag):
        h = hashlib.sha256(("%d/%s" % (self.s, tag)).encode()).digest()
        return Rng(int.from_bytes(h[:8], "big"))


def seed_from_env():
    try:
        return int(os.environ.get("VERIF_SEED", "1"))
    except ValueError:
        return 1


def sh(cmd, timeout=3600, cwd=None, env=None):
    e = dict(os.environ)
    e["CARGO_NET_OFFLINE"] = "true"
    if env:
        e.update(env)
    p = subprocess.run(cmd, shell=True, cwd=cwd, env=e, stdout=subprocess.PIPE,
                       stderr=subprocess.STDOUT, timeout=timeout)
    return p.returncode, p.stdout.decode("utf-8", "replace")


class BuildError(Exception):
    def __init__(self, what, log):
        self.what, self.log = what, log


def build_all(coq_targets):
    """Build (under a lock) the Coq development up to the given targets, the
    extracted driver and the harness against /repo's current working tree.
    Returns dict with build info; raises BuildError(kind, log)."""
    os.makedirs(BUILD, exist_ok=True)
    info = {}
    with open(BUILD + "/lock", "w") as lk:
        fcntl.flock(lk, fcntl.LOCK_EX)
        t0 = time.time()
        gen = VERIF + "/tools/regen.sh"
        if os.path.exists(gen):
            rc, out = sh("bash " + gen, timeout=1800)
            if rc != 0:
                raise BuildError("translate", out)
        rc, out = sh("cargo build --offline 2>&1 | grep -E '^(error|Finished)' -A12", cwd=VERIF + "/harness", timeout=3000)
        if not os.path.exists(HARNESS) or "error" in out.split("Finished")[0]:
            raise BuildError("harness", out)
        info["harness_build_s"] = round(time.time() - t0, 1)
        if os.path.exists(gen):
            rc, out = sh("bash " + gen + " post", timeout=600)
            if rc != 0:
                raise BuildError("translate", out)
        t0 = time.time()
        rc, out = sh("bash %s/tools/build_model.sh %s" % (VERIF, " ".join(["Model/Case.vo"] + coq_targets)), timeout=3400)
        info["coq_build_s"] = round(time.time() - t0, 1)
        if rc != 0:
            raise BuildError("coq", out)
    return info


FORBIDDEN = re.compile(
    r"\b(Admitted|admit|Axiom|Axioms|Parameter|Parameters|Conjecture|Conjectures|Admit Obligations|bypass_check)\b|Unset\s+Guard|Unset\s+Positivity|Unset\s+Universe|type-in-type|impredicative-set")


def strip_comments(src):
    out, depth, i = [], 0, 0
    while i < len(src):
        if src.startswith("(*", i):
            depth += 1
            i += 2
        elif src.startswith("*)", i) and depth > 0:
            depth -= 1
            i += 2
        else:
            if depth == 0:
                out.append(src[i])
            i += 1
    return "".join(out)


def audit_sources():
    """grep the whole development for escape hatches. Variables/Hypotheses are
    only allowed inside Sections."""
    bad = []
    for root, _, files in os.walk(VERIF + "/coq"):
        for f in files:
            if not f.endswith(".v"):
                continue
            p = os.path.join(root, f)
            src = strip_comments(open(p).read())
            for m in FORBIDDEN.finditer(src):
                bad.append("%s: %s" % (p, m.group(0)))
            depth = 0
            for line in src.split("\n"):
                s = line.strip()
                if re.match(r"Section\b", s):
                    depth += 1
                elif re.match(r"End\b", s) and depth > 0:
                    depth -= 1
                elif depth == 0 and re.match(r"(Variable|Variables|Hypothesis|Hypotheses|Context)\b", s):
                    bad.append("%s: top-level %s" % (p, s[:40]))
    return bad


ALLOWED_AXIOMS = set()  # expected: every property theorem closed under the global context


def audit_props(prop_file):
    """Compile Props/<id>.v alone (it is cheap: only `exact`) and parse its
    Print Assumptions output. Returns (theorems, assumptions_by_theorem, problems)."""
    path = "%s/coq/Props/%s.v" % (VERIF, prop_file)
    src = strip_comments(open(path).read())
    theorems = re.findall(r"^\s*Theorem\s+(\w+)", src, re.M)
    printed = re.findall(r"Print Assumptions\s+(\w+)\s*\.", src)
    problems = []
    for t in theorems:
        if t not in printed:
            problems.append("theorem %s has no Print Assumptions" % t)
    # only Theorem ... Proof. exact ... Qed. / Check / Print Assumptions / Example allowed
    rc, out = sh("coqc -Q . GD Props/%s.v" % prop_file, cwd=VERIF + "/coq", timeout=1200)
    if rc != 0:
        problems.append("Props/%s.v does not compile: %s" % (prop_file, out[-800:]))
        return theorems, {}, problems
    assum = {}
    blocks = re.split(r"(?m)^(?=Closed under the global context|Axioms:)", out)
    idx = 0
    for b in blocks:
        if b.startswith("Closed under the global context"):
            assum[printed[idx]] = []
            idx += 1
        elif b.startswith("Axioms:"):
            names = re.findall(r"(?m)^([A-Za-z_][\w.']*)\s*:", b[len("Axioms:"):])
            assum[printed[idx]] = names
            for n in names:
                if n not in ALLOWED_AXIOMS:
                    problems.append("theorem %s depends on axiom %s" % (printed[idx], n))
            idx += 1
    if idx != len(printed):
        problems.append("could not match Print Assumptions output (%d of %d)" % (idx, len(printed)))
    return theorems, assum, problems


def _run_lines(cmd, lines, env=None):
    e = dict(os.environ)
    if env:
        e.update(env)
    # an evaluation that does not come back within the hour is a crash of the model on these cases
    import signal
    proc = subprocess.Popen(cmd, shell=True, stdin=subprocess.PIPE, stdout=subprocess.PIPE, stderr=subprocess.PIPE, env=e,
                            start_new_session=True)
    try:
        so, se = proc.communicate(("\n".join(lines) + "\n").encode(), timeout=3600)
    except subprocess.TimeoutExpired:
        try:
            os.killpg(proc.pid, signal.SIGKILL)
        except Exception:
            pass
        proc.communicate()
        return -9, [], "timeout"

    class _P:
        pass
    p = _P()
    p.returncode, p.stdout, p.stderr = proc.returncode, so, se
    out = p.stdout.decode("utf-8", "replace").split("\n")
    if out and out[-1] == "":
        out.pop()
    return p.returncode, out, p.stderr.decode("utf-8", "replace")


HANG_SECONDS = 12


def _run_watch(cmd, lines, env, idle):
    """Run cmd feeding lines; read result lines as they come. If no line
    arrives for `idle` seconds the process is killed: the case in flight hangs.
    Returns (output lines, 'ok' | 'hang' | 'died')."""
    import threading, select
    e = dict(os.environ)
    if env:
        e.update(env)
    p = subprocess.Popen(cmd, shell=True, stdin=subprocess.PIPE, stdout=subprocess.PIPE, stderr=subprocess.DEVNULL, env=e)

    def feed():
        try:
            p.stdin.write(("\n".join(lines) + "\n").encode())
            p.stdin.close()
        except Exception:
            pass
    t = threading.Thread(target=feed, daemon=True)
    t.start()
    out, buf, why = [], b"", "ok"
    fd = p.stdout.fileno()
    while True:
        r, _, _ = select.select([fd], [], [], idle)
        if not r:
            why = "hang"
            p.kill()
            break
        chunk = os.read(fd, 1 << 20)
        if not chunk:
            break
        buf += chunk
        if b"\n" in chunk:
            parts = buf.split(b"\n")
            buf = parts.pop()
            out.extend(x.decode("utf-8", "replace") for x in parts)
    p.wait()
    if why == "ok" and len(out) < len(lines):
        why = "died"
    return out, why


def run_model(hexcases):
    """Run the extracted model on all cases (sharded over the cores)."""
    from concurrent.futures import ThreadPoolExecutor
    n = len(hexcases)
    if n == 0:
        return []
    k = min(NCPU, max(1, n // 200 + 1))
    shards = [hexcases[i::k] for i in range(k)]

    def work(sh_):
        rc, out, err = _run_lines("ulimit -s unlimited 2>/dev/null; " + DRIVER, sh_)
        if rc != 0 or len(out) != len(sh_):
            # find the case that kills the driver (stack overflow etc.)
            res = []
            for c in sh_:
                rc1, o1, _ = _run_lines("ulimit -s unlimited 2>/dev/null; " + DRIVER, [c])
                res.append(o1[0] if rc1 == 0 and len(o1) == 1 else "MODEL-CRASH")
            return res
        return out

    with ThreadPoolExecutor(k) as ex:
        outs = list(ex.map(work, shards))
    res = [None] * n
    for j, o in enumerate(outs):
        res[j::k] = o
    return res


def run_impl(hexcases, env=None, per_shard=200):
    """Run the harness (real code). A worker that dies mid-batch (abort) yields
    ABORT for the case in flight and is restarted after it."""
    from concurrent.futures import ThreadPoolExecutor
    n = len(hexcases)
    if n == 0:
        return []
    k = min(NCPU, max(1, n // per_shard + 1))
    shards = [hexcases[i::k] for i in range(k)]

    def work(sh_):
        res = []
        pos = 0
        hangs = 0
        while pos < len(sh_):
            if hangs >= 2:
                # two hangs are enough to decide; do not wait for the rest of this shard
                res.extend(["NOT-RUN"] * (len(sh_) - pos))
                break
            out, why = _run_watch("ulimit -v 8000000; " + HARNESS, sh_[pos:], env, HANG_SECONDS)
            res.extend(out[:len(sh_) - pos])
            pos += len(out)
            if pos < len(sh_):
                if why == "hang":
                    hangs += 1
                res.append("HANG" if why == "hang" else "ABORT")
                pos += 1
        return res[:len(sh_)]

    with ThreadPoolExecutor(k) as ex:
        outs = list(ex.map(work, shards))
    res = [None] * n
    for j, o in enumerate(outs):
        res[j::k] = o
    return res


def load_known():
    p = VERIF + "/known_findings.json"
    if not os.path.exists(p):
        return []
    return json.load(open(p))["findings"]


def write_replay(prop, name, obj):
    d = "%s/replays/%s" % (VERIF, prop)
    os.makedirs(d, exist_ok=True)
    path = "%s/%s.json" % (d, name)
    json.dump(obj, open(path, "w"), indent=1)
    return path


def write_evidence(prop, ev):
    os.makedirs(VERIF + "/evidence", exist_ok=True)
    json.dump(ev, open("%s/evidence/%s.json" % (VERIF, prop), "w"), indent=1)
