"""Generic check flow (DESIGN section 6) used by every property module.

A property module provides:
  ID, COQ_TARGETS, PROPS_FILE, TRUSTED (list of str), RULE (str)
  gen_cases(tier, rng) -> list of dict {id, hex, meta}
  oracle(case, impl_line) -> None | (signature, description)   # property predicate on the implementation
  nontrivial(case, model_line) -> bool
  optional: extra_runs(tier, rng, ctx) -> list of failures [(signature, description, replayobj)] + coverage dict
  optional: spec_expected(case, model_line): for round-trip oracles
"""
import json, os, sys, time
from vlib import *


def strip_side(line):
    return line.split("\t#", 1)[0] if line is not None else line


def side(line):
    return line.split("\t#", 1)[1] if line and "\t#" in line else ""


def run_property(mod, tier):
    t0 = time.time()
    seed = seed_from_env()
    rng = Rng(seed).fork(mod.ID + "/" + tier)
    pid = mod.ID
    notes = []
    failures = []      # (signature, description, replay object)
    unproved = []      # names of theorems / ties that no longer check

    # 1. build
    proofs_ok = True
    try:
        binfo = build_all(mod.COQ_TARGETS)
    except BuildError as e:
        binfo = {"error": e.what}
        if e.what in ("coq", "translate"):
            proofs_ok = False
            unproved.append("coq build of %s failed: %s" % (" ".join(mod.COQ_TARGETS), e.log[-1500:]))
            # the model itself must still build to search for a failing input
            try:
                build_all([])
            except BuildError as e2:
                unproved.append("model build failed: " + e2.log[-1500:])
                return finish(mod, tier, seed, t0, [], [], [], failures, unproved, {}, binfo, notes, None, None)
        else:
            unproved.append("harness does not build against /repo: " + e.log[-1500:])
            return finish(mod, tier, seed, t0, [], [], [], failures, unproved, {}, binfo, notes, None, None)

    # 2. audit
    theorems, assum = [], {}
    bad = audit_sources()
    if bad:
        unproved.append("forbidden construct in the development: " + "; ".join(bad[:5]))
    if proofs_ok:
        theorems, assum, problems = audit_props(mod.PROPS_FILE)
        for p in problems:
            unproved.append(p)

    # 3. cases: corpus first, then generated
    cases = []
    cdir = "%s/corpus/%s" % (VERIF, pid)
    if os.path.isdir(cdir):
        for f in sorted(os.listdir(cdir)):
            for i, line in enumerate(open(os.path.join(cdir, f))):
                line = line.strip()
                if line and not line.startswith("#"):
                    cases.append({"id": "corpus/%s:%d" % (f, i), "hex": line.split()[0], "meta": {"stream": "corpus"}})
    cases += mod.gen_cases(tier, rng)
    hexes = [c["hex"] for c in cases]
    model_out = run_model(hexes)
    impl_out = run_impl(hexes, per_shard=getattr(mod, "CASES_PER_SHARD", 200))

    mismatches = []
    abstained = 0
    for c, m, i in zip(cases, model_out, impl_out):
        if i == "NOT-RUN":
            continue
        ii = strip_side(i)
        f = mod.oracle(c, ii, side(i))
        if f is not None:
            failures.append((f[0], f[1], {"case": c, "model": m, "impl": i}))
        if m is not None and (m.startswith("ORACLE-MISS") or m.startswith("MODEL-ABSTAINS")):
            abstained += 1      # the model needs a bzip2 oracle answer the case does not carry
        elif m != ii:
            mismatches.append((c, m, i))
    if mismatches:
        # the model no longer describes the code. Is there an input among them
        # on which the property itself fails (already in failures)? Otherwise
        # report the broken correspondence.
        # (a failure that is a recorded known finding explains nothing: on the unchanged tree the model
        # agrees with the implementation on those inputs too)
        known_sigs = [k for k in load_known() if k["property"] == mod.ID and k.get("status") == "known"]
        def is_known(sig):
            return any(k["signature"] == sig or (k.get("signature_prefix") and sig.startswith(k["signature_prefix"])) for k in known_sigs)
        failing_ids = set(f[2]["case"]["id"] for f in failures if not is_known(f[0]))
        if not any(c["id"] in failing_ids for c, _, _ in mismatches):
            if getattr(mod, "MISMATCH_IS_FAILURE", False):
                c, m, i = min(mismatches, key=lambda x: len(x[0]["hex"]))
                failures.append(("model-mismatch", "implementation differs from the reference model: model=%s impl=%s" % (m[:200], i[:200]),
                                 {"case": c, "model": m, "impl": i}))
            else:
                c, m, i = min(mismatches, key=lambda x: len(x[0]["hex"]))
                unproved.append({"correspondence": "model and implementation differ on %d of %d cases" % (len(mismatches), len(cases)),
                                 "case": c, "model": m, "impl": i})

    extra_cov = {"model_abstained_oracle_miss": abstained}
    if hasattr(mod, "extra_runs"):
        fs, ec = mod.extra_runs(tier, rng, {"cases": cases, "model": model_out, "impl": impl_out})
        extra_cov.update(ec)
        failures += fs

    return finish(mod, tier, seed, t0, cases, model_out, impl_out, failures, unproved, extra_cov, binfo, notes, theorems, assum, mismatches)


def finish(mod, tier, seed, t0, cases, model_out, impl_out, failures, unproved, extra_cov, binfo, notes, theorems, assum, mismatches=()):
    pid = mod.ID
    known = [k for k in load_known() if k["property"] == pid and k.get("status") == "known"]
    exit_code = 0
    lines = []
    reported_known = set()
    nviol = 0
    seen_sig = set()
    for sig, desc, rep in failures:
        k = next((k for k in known if k["signature"] == sig or (k.get("signature_prefix") and sig.startswith(k["signature_prefix"]))), None)
        if k is not None:
            if k["signature"] not in reported_known:
                reported_known.add(k["signature"])
                lines.append("KNOWN-FINDING: property=%s %s" % (pid, k["what"]))
            continue
        if sig in seen_sig:
            continue
        seen_sig.add(sig)
        name = "fail-" + hashlib.sha256((sig + json.dumps(rep, sort_keys=True, default=str)).encode()).hexdigest()[:12]
        path = write_replay(pid, name, {"property": pid, "signature": sig, "what": desc, "replay": rep,
                                        "how": "echo <case.hex> | %s   (model: %s)" % (HARNESS, DRIVER)})
        lines.append("VIOLATION property=%s replay=%s" % (pid, path))
        nviol += 1
        exit_code = 1
    # a known finding that is listed must be reported even when the run did not
    # hit it only if its witness is in the corpus (it always is); nothing to do here.
    if unproved and nviol == 0:
        path = write_replay(pid, "unproved", {"property": pid, "no_longer_checks": unproved,
                                              "note": "no input on which the property fails was found; the property is no longer shown to hold"})
        lines.append("VIOLATION property=%s replay=%s no-failing-input-found" % (pid, path))
        nviol += 1
        exit_code = 1
    elif not unproved:
        # a replay from an earlier run in which a proof or the tie did not check is stale now
        try:
            os.remove(os.path.join("/verif/replays", pid, "unproved.json"))
        except OSError:
            pass
    nontriv = set()
    for c, m in zip(cases, model_out):
        if m is not None and mod.nontrivial(c, m):
            nontriv.add(c["hex"])
    streams = {}
    for c in cases:
        s = c["meta"].get("stream", "?")
        streams[s] = streams.get(s, 0) + 1
    outcome_classes = {}
    for i in impl_out:
        k = classify(i)
        outcome_classes[k] = outcome_classes.get(k, 0) + 1
    samples = []
    step = max(1, len(cases) // 6)
    for j in range(0, len(cases), step):
        samples.append({"id": cases[j]["id"], "case_hex": cases[j]["hex"][:400], "model": (model_out[j] or "")[:300], "impl": (impl_out[j] or "")[:300]})
    nthm = len(theorems or [])
    ev = {
        "property_id": pid, "tier": tier, "seed": seed, "level": "proof",
        "coverage": {
            "obligations": max(nthm, 1),
            "discharged": nthm if not any(isinstance(u, str) and ("coq build" in u or "does not compile" in u) for u in unproved) else 0,
            "checker_cmd": "cd /verif/coq && make -j16 " + " ".join(mod.COQ_TARGETS) + "  (coqc 8.16.1, full .vo; Print Assumptions parsed per theorem)",
            "trusted_base": mod.TRUSTED,
            "theorems": theorems or [],
            "assumptions": {k: (v or "Closed under the global context") for k, v in (assum or {}).items()},
            "evaluations": len(cases) + extra_cov.get("evaluations", 0),
            "distinct_nontrivial": len(nontriv) + extra_cov.get("distinct_nontrivial", 0),
            "rule": mod.RULE,
            "traces_validated_against_impl": len(cases),
            "disagreements_checked": len(mismatches or ()),
            "input_streams": streams,
            "impl_outcome_classes": outcome_classes,
            "samples": samples[:8],
            "exhaustive": False,
            "build": binfo,
        },
        "assumptions": mod.TRUSTED,
        "wall_s": round(time.time() - t0, 1),
        "violations": nviol,
    }
    ev["coverage"].update({k: v for k, v in extra_cov.items() if k not in ("evaluations", "distinct_nontrivial")})
    write_evidence(pid, ev)
    for l in lines:
        print(l)
    print("%s %s: %d cases, %d mismatches, %d failures, %d theorems, %.1fs, exit %d" % (
        pid, tier, len(cases), len(mismatches or ()), len(failures), nthm, time.time() - t0, exit_code))
    return exit_code


def classify(line):
    if line is None:
        return "none"
    if "PANIC" in line:
        return "panic"
    if line.startswith("ABORT") or line == "ABORT":
        return "abort"
    if "Err(" in line and "Ok(" not in line:
        return "err-only"
    if "Err(" in line:
        return "ok+err"
    return "ok"


def replay(mod, path):
    """Re-run the case(s) of a replay file on model and implementation."""
    obj = json.load(open(path))
    build_all([])
    rep = obj.get("replay") or {}
    cases = []
    if "case" in rep:
        cases.append(rep["case"])
    for u in obj.get("no_longer_checks", []):
        if isinstance(u, dict) and "case" in u:
            cases.append(u["case"])
    rc = 0
    for c in cases:
        m = run_model([c["hex"]])[0]
        i = run_impl([c["hex"]], env={"VERIF_PANIC_MSG": "1"})[0]
        f = mod.oracle(c, strip_side(i), side(i))
        print("case  %s\nmodel %s\nimpl  %s\noracle %s" % (c["hex"], m, i, f))
        if f is not None or m != strip_side(i):
            rc = 1
    if not cases:
        print(json.dumps(obj, indent=1)[:3000])
        rc = 1
    return rc
