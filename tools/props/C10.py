"""C10 - retries: at most r+1 attempts, only after timeouts, same result."""
import itertools
from valve_common import *
from quake_common import quake_specs, quake_case

ID = "C10"
PROPS_FILE = "C10"
COQ_TARGETS = ["Props/C10.vo"]
TRUSTED = [
    "Coq 8.16.1 kernel; theorems closed under the global context",
    "extraction (ExtrOcamlBasic), extract/driver.ml, Rust harness + scripted transport hook (timeouts and send failures are script events)",
    "the expected outcome of a fault vector is computed by the check from the property text (tools/props/valve_common.py unit_outcome)",
]
RULE = ("for r in 0..3 and each request unit of the exchange (info / players / rules) every aligned fault vector silent^j (or failed sends) followed by a valid or malformed "
        "reply, j <= r+1, injected at that unit while the others answer at once; non-trivial = at least one fault injected; distinct by case bytes")


def gen_cases(tier, rng):
    cases = []
    nseeds = 6 if tier == "quick" else 40
    seeds = [rng.next() >> 1 for _ in range(nseeds * 2)]
    done = 0
    for seed in seeds:
        var = variants(seed, compressed=False)
        full = var[(1, 1)]
        if not full["expected"].startswith("Ok("):
            continue
        done += 1
        if done > nseeds:
            break
        groups = reply_groups(full)
        if len(groups) != 3:
            continue
        for r in range(4):
            ts = {"retries": r}
            for unit in range(3):
                vecs = []
                for j in range(r + 2):
                    for tk in ("silent", "sendfail", "chsilent"):
                        pre = [tk] * j
                        if j <= r:
                            vecs.append(pre + ["valid"]); vecs.append(pre + ["malformed"])
                        else:
                            vecs.append(pre)
                    if j >= 2:
                        vecs.append((["silent", "sendfail"] * j)[:j] + (["valid"] if j <= r else []))
                for vi, vec in enumerate(vecs):
                    vectors = [["valid"], ["valid"], ["valid"]]
                    vectors[unit] = vec
                    # gather: Try for both sections (toggle 1)
                    evs, fails = build_fault_script(groups, vectors)
                    o, made, last = unit_outcome(vec, r)
                    if unit == 0:
                        if o == "ok":
                            exp = full["expected"]
                        elif o == "malformed":
                            exp = "Err(PacketUnderflow)"
                        else:
                            exp = "Err(PacketSend)" if last == "sendfail" else "Err(PacketReceive)"
                    else:
                        present = (1 if (unit != 1 or o == "ok") else 0, 1 if (unit != 2 or o == "ok") else 0)
                        exp = var[present]["expected"]
                    cases.append({"id": "fault/%d/r%d/u%d/%d" % (seed, r, unit, vi),
                                  "hex": assemble(with_ts(full["settings"], ts), evs, full["bz"], fails),
                                  "meta": {"stream": "valve-faults", "expected": exp, "vec": vec, "r": r, "unit": unit, "attempts": made,
                                           "events": [None if e is None else e.hex() for e in evs], "tags": {"e": full["tags"]["e"]}}})
    # Quake: one request unit
    qs = quake_specs([(rng.next() >> 1, 1 + (i % 3)) for i in range(9 if tier == "quick" else 60)])
    for q in qs:
        if not q["expected"].startswith("Some("):
            continue
        ok = "Ok(" + q["expected"][5:-1] + ")"
        for r in range(4):
            for j in range(r + 2):
                for tk in ("silent", "sendfail", "mixed"):
                    pre = [("silent" if (i % 2 == 0) else "sendfail") if tk == "mixed" else tk for i in range(j)]
                    for final in (["valid", "malformed"] if j <= r else [None]):
                        vec = pre + ([final] if final else [])
                        evs, fails, sends = [], [], 0
                        for a in vec:
                            if a == "silent":
                                evs.append(None)
                            elif a == "sendfail":
                                fails.append(sends)
                            elif a == "malformed":
                                evs.append(b"\xff\xff")
                            else:
                                evs.append(q["dg"])
                            sends += 1
                        o, made, last = unit_outcome(vec, r)
                        exp = ok if o == "ok" else ("Err(PacketUnderflow)" if o == "malformed" else ("Err(PacketSend)" if last == "sendfail" else "Err(PacketReceive)"))
                        cases.append({"id": "qfault/%d/r%d/%s" % (q["seed"], r, "-".join(vec)),
                                      "hex": quake_case(27960, q["ver"], {"retries": r}, evs, fails),
                                      "meta": {"stream": "quake-faults", "expected": exp, "vec": vec, "r": r, "unit": 0, "attempts": made, "quake": True}})
    return cases


def oracle(case, impl, side):
    res, trace = split_result(impl)
    m = case["meta"]
    if "PANIC" in (res or "") or res == "ABORT":
        return ("panic", "panicked: " + side[:200])
    if res != m["expected"]:
        return ("retry-result", "fault vector %s at unit %d with r=%d: got %s expected %s" % (m["vec"], m["unit"], m["r"], res[:200], m["expected"][:200]))
    if m.get("quake"):
        n = sum(1 for t in trace.split(";") if t.startswith("S"))
        if n != m["attempts"] or n > m["r"] + 1:
            return ("retry-attempts", "quake fault vector %s with r=%d: %d attempts, expected %d" % (m["vec"], m["r"], n, m["attempts"]))
        return None
    n = count_attempts(m["tags"], [None if e is None else bytes.fromhex(e) for e in m["events"]], trace, KINDS[m["unit"]])
    if n != m["attempts"] or n > m["r"] + 1:
        return ("retry-attempts", "fault vector %s at unit %d with r=%d: %d attempts, expected %d" % (m["vec"], m["unit"], m["r"], n, m["attempts"]))
    return None


def nontrivial(case, model):
    return case["meta"]["vec"] != ["valid"]
