"""C10 - retries: at most r+1 attempts, only after timeouts, same result."""
import itertools
from valve_common import *
from quake_common import quake_specs, quake_case
from gs_common import gs_specs, gs_case, LIMIT as GS_LIMIT
from u2_common import u2_specs, u2_case
from vlib import run_model

ID = "C10"
PROPS_FILE = "C10"
COQ_TARGETS = ["Props/C10.vo"]
TRUSTED = [
    "Coq 8.16.1 kernel; theorems closed under the global context",
    "extraction (ExtrOcamlBasic), extract/driver.ml, Rust harness + scripted transport hook (timeouts and send failures are script events)",
    "the expected outcome of a fault vector is computed by the check from the property text (tools/props/valve_common.py unit_outcome)",
]
RULE = ("for r in 0..3 and each request unit of the exchange (Valve info / players / rules, Unreal 2 info / mutators+rules / players under Try and Enforce, the whole exchange for Quake, GameSpy 1/2/3, JC2-MP, Mindustry, Bedrock) "
        "every aligned fault vector of j timeout-class attempts (no reply, failed send, challenge then silence, some parts of a multi-packet reply then silence, handshake answered then failed data request) followed by a valid or malformed "
        "reply, j <= r+1, injected at that unit while the others answer at once, and for Valve also 1..r+1 faults at two or at all three units of the same query; non-trivial = at least one fault injected; distinct by case bytes")


def gen_cases(tier, rng):
    cases = []
    nseeds = 6 if tier == "quick" else 40
    seeds = [rng.next() >> 1 for _ in range(nseeds * 2)]
    done = 0
    for seed in seeds:
        var = variants(seed, compressed=False)
        full = var[(1, 1)]
        if not full["expected"].startswith("Ok("):
            continue
        done += 1
        if done > nseeds:
            break
        groups = reply_groups(full)
        if len(groups) != 3:
            continue
        for r in range(4):
            ts = {"retries": r}
            for unit in range(3):
                vecs = []
                for j in range(r + 2):
                    for tk in ("silent", "sendfail", "chsilent"):
                        pre = [tk] * j
                        if j <= r:
                            vecs.append(pre + ["valid"]); vecs.append(pre + ["malformed"])
                        else:
                            vecs.append(pre)
                    if j >= 2:
                        vecs.append((["silent", "sendfail"] * j)[:j] + (["valid"] if j <= r else []))
                for vi, vec in enumerate(vecs):
                    vectors = [["valid"], ["valid"], ["valid"]]
                    vectors[unit] = vec
                    # gather: Try for both sections (toggle 1)
                    evs, fails = build_fault_script(groups, vectors)
                    o, made, last = unit_outcome(vec, r)
                    if unit == 0:
                        if o == "ok":
                            exp = full["expected"]
                        elif o == "malformed":
                            exp = "Err(PacketUnderflow)"
                        else:
                            exp = "Err(PacketSend)" if last == "sendfail" else "Err(PacketReceive)"
                    else:
                        present = (1 if (unit != 1 or o == "ok") else 0, 1 if (unit != 2 or o == "ok") else 0)
                        exp = var[present]["expected"]
                    cases.append({"id": "fault/%d/r%d/u%d/%d" % (seed, r, unit, vi),
                                  "hex": assemble(with_ts(full["settings"], ts), evs, full["bz"], fails),
                                  "meta": {"stream": "valve-faults", "expected": exp, "vec": vec, "r": r, "unit": unit, "attempts": made,
                                           "events": [None if e is None else e.hex() for e in evs], "tags": {"e": full["tags"]["e"]}}})
            # faults at two or three request positions of the same query: every unit has its own r+1 attempts
            if r >= 1:
                combos = []
                for units in ((0, 1), (0, 2), (1, 2), (0, 1, 2)):
                    for tk in ("silent", "sendfail"):
                        for js in itertools.product(range(1, r + 2), repeat=len(units)):
                            if js[0] > r and units[0] == 0:
                                continue       # the info request exhausted: nothing follows
                            combos.append((units, tk, js))
                for ci, (units, tk, js) in enumerate(combos):
                    vectors = [["valid"], ["valid"], ["valid"]]
                    outs = {}
                    for u, j in zip(units, js):
                        vectors[u] = [tk] * j + (["valid"] if j <= r else [])
                        outs[u] = unit_outcome(vectors[u], r)[0]
                    evs, fails = build_fault_script(groups, vectors)
                    present = (1 if outs.get(1, "ok") == "ok" else 0, 1 if outs.get(2, "ok") == "ok" else 0)
                    cases.append({"id": "fault2/%d/r%d/%d" % (seed, r, ci),
                                  "hex": assemble(with_ts(full["settings"], ts), evs, full["bz"], fails),
                                  "meta": {"stream": "valve-faults-several-units", "expected": var[present]["expected"], "vec": [vectors[u] for u in units], "r": r,
                                           "unit": list(units), "attempts": sum(len(v) for v in vectors),
                                           "events": [None if e is None else e.hex() for e in evs], "tags": {"e": full["tags"]["e"]}}})
    # Quake: one request unit
    qs = quake_specs([(rng.next() >> 1, 1 + (i % 3)) for i in range(9 if tier == "quick" else 60)])
    for q in qs:
        if not q["expected"].startswith("Some("):
            continue
        ok = "Ok(" + q["expected"][5:-1] + ")"
        for r in range(4):
            for j in range(r + 2):
                for tk in ("silent", "sendfail", "mixed"):
                    pre = [("silent" if (i % 2 == 0) else "sendfail") if tk == "mixed" else tk for i in range(j)]
                    for final in (["valid", "malformed"] if j <= r else [None]):
                        vec = pre + ([final] if final else [])
                        evs, fails, sends = [], [], 0
                        for a in vec:
                            if a == "silent":
                                evs.append(None)
                            elif a == "sendfail":
                                fails.append(sends)
                            elif a == "malformed":
                                evs.append(b"\xff\xff")
                            else:
                                evs.append(q["dg"])
                            sends += 1
                        o, made, last = unit_outcome(vec, r)
                        exp = ok if o == "ok" else ("Err(PacketUnderflow)" if o == "malformed" else ("Err(PacketSend)" if last == "sendfail" else "Err(PacketReceive)"))
                        cases.append({"id": "qfault/%d/r%d/%s" % (q["seed"], r, "-".join(vec)),
                                      "hex": quake_case(27960, q["ver"], {"retries": r}, evs, fails),
                                      "meta": {"stream": "quake-faults", "expected": exp, "vec": vec, "r": r, "unit": 0, "attempts": made, "quake": True}})
    cases += whole_exchange_rows(tier, rng)
    cases += unreal2_rows(tier, rng)
    return cases


# ---- protocols whose whole exchange is the retried unit -------------------------------------
# GameSpy 1 / 2 (one request, one or more reply parts), GameSpy 3 and JC2M (handshake + data request,
# one or more packets), Mindustry and Minecraft Bedrock (one request, one reply).
GARBAGE = {"gs1": b"\\queryid\\1.1.1\\final\\", "gs2": b"\x01\x00\x00\x00\x01", "gs3": b"\x42\x00\x00\x00\x01", "jc2m": b"\x42\x00\x00\x00\x01",
           "mindustry": b"\x05ab", "bedrock": b"\x1d" + bytes(40)}


def attempt_script(kind, E, sends_after, garbage):
    """one attempt -> (events consumed, local index of the failing send or None, sends made)"""
    if kind[0] == "valid":
        return list(E), None, len(sends_after)
    if kind[0] == "sendfail":
        k = kind[1]
        return list(E[:sends_after[k]]), k, k + 1
    p = kind[1]
    made = sum(1 for a in sends_after if a <= p)
    return list(E[:p]) + [None if kind[0] == "silent" else garbage], None, made


def fault_vectors(r, n_events, n_sends):
    """vectors of attempts: j timeout-class attempts then (j <= r) a valid or malformed one"""
    out = []
    for j in range(r + 2):
        pres = [[("silent", 0)] * j, [("sendfail", 0)] * j]
        if j >= 1:
            mixed = []
            for i in range(j):
                if i % 2 == 0 and n_events > 1:
                    mixed.append(("silent", 1 + (i // 2) % (n_events - 1)))   # some parts arrive, then silence
                elif n_sends > 1:
                    mixed.append(("sendfail", 1 + (i // 2) % (n_sends - 1)))  # the handshake is answered, the data request cannot be sent
                else:
                    mixed.append(("sendfail", 0) if i % 2 else ("silent", 0))
            pres.append(mixed)
        for pre in pres:
            if j <= r:
                finals = [("valid",), ("malformed", 0)]
                if n_events > 1:
                    finals.append(("malformed", n_events - 1))
                for f in finals:
                    out.append(pre + [f])
            else:
                out.append(pre)
    uniq = []
    for v in out:
        if v not in uniq:
            uniq.append(v)
    return uniq


def whole_exchange_rows(tier, rng):
    n = 2 if tier == "quick" else 12
    protos = []
    for ver in (1, 2, 3):
        got = 0
        for sp in gs_specs(ver, [rng.fork("gs%d/%d" % (ver, i)).next() >> 1 for i in range(n * 4)]):
            if not sp["fits"] or sp["expected"].startswith("Err(") or got >= n:
                continue
            got += 1
            ok = sp["expected"] if sp["expected"].startswith("Ok(") else "Ok(" + sp["expected"] + ")"
            sends_after = [0, 1] if ver == 3 else [0]
            protos.append(("gs%d" % ver, sp["seed"], sp["events"], sends_after, ok,
                           lambda ts, evs, fails, ver=ver: gs_case(ver, 2000 + ver, 0, ts, evs, fails)))
    for game, name, sends_after in ((2, "jc2m", [0, 1]), (3, "mindustry", [0])):
        seeds = [rng.fork("g%d/%d" % (game, i)).next() % (1 << 48) for i in range(n * 3)]
        outs = run_model([(bytes([150, game]) + s.to_bytes(8, "big")).hex() for s in seeds])
        got = 0
        for s, o in zip(seeds, outs):
            parts = o.split("|")
            tags = dict(kv.split("=", 1) for kv in parts[-1].split(";"))
            evs = [bytes.fromhex(x) for x in parts[0].split(",")] if parts[0] else []
            expected = "|".join(parts[1:-1])
            if int(tags["max"]) > (2048, 500)[game - 2] or tags.get("wf") == "false" or expected.startswith("Err(") or got >= n:
                continue
            got += 1
            if not expected.startswith("Ok("):
                expected = "Ok(" + expected + ")"
            protos.append((name, s, evs, sends_after, expected,
                           lambda ts, evs, fails, game=game: (bytes([50, game]) + (7777).to_bytes(2, "big") + enc_ts(ts) + enc_events(evs) + b"\x00\x00"
                                                              + bytes([len(fails)]) + b"".join(i.to_bytes(2, "big") for i in fails)).hex()))
    # Minecraft Bedrock
    seeds = [rng.fork("mc/%d" % i).next() % (1 << 48) for i in range(n * 6)]
    outs = run_model([(bytes([133]) + s.to_bytes(8, "big") + bytes([2])).hex() for s in seeds])
    got = 0
    for s, o in zip(seeds, outs):
        if o == "SKIP" or o.startswith("BADCASE") or got >= n:
            continue
        parts = o.split("|")
        udp = [None if x == "T" else bytes.fromhex(x) for x in parts[0].split(",")] if parts[0] else []
        expected = "|".join(parts[2:-2])
        if not expected.startswith("Ok(") or len(udp) != 1 or udp[0] is None:
            continue
        got += 1

        def mk(ts, evs, fails):
            scr = len(evs).to_bytes(2, "big") + b"".join(b"\x00" if e is None else b"\x01" + len(e).to_bytes(4, "big") + e for e in evs)
            scr += b"\x00\x00" + bytes([len(fails)]) + b"".join(i.to_bytes(2, "big") for i in fails)
            return (bytes([33, 2]) + (19132).to_bytes(2, "big") + b"\x00" + enc_ts(ts) + scr + b"\x00").hex()
        protos.append(("bedrock", s, udp, [0], expected, mk))
    cases = []
    for name, seed, E, sends_after, ok, mk in protos:
        if not E:
            continue
        for r in range(4):
            for vi, vec in enumerate(fault_vectors(r, len(E), len(sends_after))):
                evs, fails, sends = [], [], 0
                for a in vec:
                    ev, fk, made = attempt_script(a, E, sends_after, GARBAGE[name])
                    evs += ev
                    if fk is not None:
                        fails.append(sends + fk)
                    sends += made
                kinds = [a[0] for a in vec]
                o, made, last = unit_outcome(kinds, r)
                exp = ok if o == "ok" else (None if o == "malformed" else ("Err(PacketSend)" if last == "sendfail" else "Err(PacketReceive)"))
                cases.append({"id": "xfault/%s/%d/r%d/%d" % (name, seed, r, vi), "hex": mk({"retries": r}, evs, fails),
                              "meta": {"stream": name + "-faults", "expected": exp, "outcome": o, "vec": ["%s@%s" % (a[0], a[1]) if len(a) > 1 else a[0] for a in vec],
                                       "r": r, "unit": 0, "attempts": made, "whole": True}})
    return cases


# ---- Unreal 2: each of the three requests (send + first reply) is a retried unit -----------
U2_REQ = ["7900000000", "7900000001", "7900000002"]
U2_BAD = [b"\x80\x00\x00\x00\x00\x01", b"\x80\x00\x00\x00\x01\x05\x41", b"\x80\x00\x00\x00\x02\x01"]


def unreal2_rows(tier, rng):
    cases = []
    for seed in [rng.fork("u2/%d" % i).next() >> 1 for i in range(2 if tier == "quick" else 12)]:
        exp = {(tp, tm): u2_specs([seed], (tp, tm))[0] for tp in (0, 1) for tm in (0, 1)}
        evs = exp[(1, 1)]["events"]
        if None not in evs:
            continue
        ti = evs.index(None)
        info, mr_dgs, pl_dgs = evs[0], evs[1:ti], evs[ti + 1:]
        if not mr_dgs or not pl_dgs:
            continue
        for gather in ((2, 2), (1, 1)):
            for r in range(4):
                for unit in range(3):
                    for j in range(r + 2):
                        for tk in ("silent", "sendfail", "mixed"):
                            if tk == "mixed" and j < 2:
                                continue
                            pre = [("silent" if i % 2 == 0 else "sendfail") if tk == "mixed" else tk for i in range(j)]
                            for final in (["valid", "malformed"] if j <= r else [None]):
                                vec = pre + ([final] if final else [])
                                script, fails, sends = [], [], 0
                                for u in range(3):
                                    uvec = vec if u == unit else ["valid"]
                                    stop = False
                                    for a in uvec:
                                        if a == "silent":
                                            script.append(None)
                                        elif a == "sendfail":
                                            fails.append(sends)
                                        elif a == "malformed":
                                            script.append(U2_BAD[u])
                                        else:
                                            script += [info] if u == 0 else ((mr_dgs + [None]) if u == 1 else pl_dgs)
                                        sends += 1
                                    if u == unit:
                                        o, made, last = unit_outcome(vec, r)
                                        if o != "ok" and (u == 0 or gather == (2, 2)):
                                            stop = True
                                    if stop:
                                        break
                                o, made, last = unit_outcome(vec, r)
                                if o == "ok":
                                    want = "Ok(" + exp[(1, 1)]["expected"] + ")"
                                elif unit == 0 or gather == (2, 2):
                                    want = None if o == "malformed" else ("Err(PacketSend)" if last == "sendfail" else "Err(PacketReceive)")
                                else:
                                    want = "Ok(" + exp[(0 if unit == 2 else 1, 0 if unit == 1 else 1)]["expected"] + ")"
                                cases.append({"id": "u2fault/%d/g%d%d/r%d/u%d/%s" % (seed, gather[0], gather[1], r, unit, "-".join(vec)),
                                              "hex": u2_case(7778, gather, {"retries": r}, script, fails),
                                              "meta": {"stream": "unreal2-faults", "expected": want, "outcome": o, "vec": vec, "r": r, "unit": unit, "attempts": made,
                                                       "u2req": U2_REQ[unit]}})
    return cases


def oracle(case, impl, side):
    res, trace = split_result(impl)
    m = case["meta"]
    if "PANIC" in (res or "") or res == "ABORT":
        return ("panic", "panicked: " + side[:200])
    if m.get("whole") or m.get("u2req"):
        sends = [t.split(":", 1)[1] for t in trace.split(";") if t.startswith("S")]
        if m["expected"] is None:
            if not res.startswith("Err(") or res in ("Err(PacketReceive)", "Err(PacketSend)"):
                return ("retry-result", "%s fault vector %s at unit %d with r=%d: a malformed reply must end the query with its own error, got %s" % (m["stream"], m["vec"], m["unit"], m["r"], res[:200]))
        elif res != m["expected"]:
            return ("retry-result", "%s fault vector %s at unit %d with r=%d: got %s expected %s" % (m["stream"], m["vec"], m["unit"], m["r"], res[:200], m["expected"][:200]))
        first = m.get("u2req") or (sends[0] if sends else "")
        n = sum(1 for x in sends if x == first)
        if n != m["attempts"] or n > m["r"] + 1:
            return ("retry-attempts", "%s fault vector %s at unit %d with r=%d: %d attempts, expected %d" % (m["stream"], m["vec"], m["unit"], m["r"], n, m["attempts"]))
        return None
    if m["stream"] == "valve-faults-several-units":
        if res != m["expected"]:
            return ("retry-result", "fault vectors %s at units %s with r=%d: got %s expected %s" % (m["vec"], m["unit"], m["r"], res[:200], m["expected"][:200]))
        evs = [None if e is None else bytes.fromhex(e) for e in m["events"]]
        for u, vec in zip(m["unit"], m["vec"]):
            n = count_attempts(m["tags"], evs, trace, KINDS[u])
            if n != len(vec) or n > m["r"] + 1:
                return ("retry-attempts", "fault vectors %s at units %s with r=%d: unit %d got %d attempts, expected %d" % (m["vec"], m["unit"], m["r"], u, n, len(vec)))
        return None
    if res != m["expected"]:
        return ("retry-result", "fault vector %s at unit %d with r=%d: got %s expected %s" % (m["vec"], m["unit"], m["r"], res[:200], m["expected"][:200]))
    if m.get("quake"):
        n = sum(1 for t in trace.split(";") if t.startswith("S"))
        if n != m["attempts"] or n > m["r"] + 1:
            return ("retry-attempts", "quake fault vector %s with r=%d: %d attempts, expected %d" % (m["vec"], m["r"], n, m["attempts"]))
        return None
    n = count_attempts(m["tags"], [None if e is None else bytes.fromhex(e) for e in m["events"]], trace, KINDS[m["unit"]])
    if n != m["attempts"] or n > m["r"] + 1:
        return ("retry-attempts", "fault vector %s at unit %d with r=%d: %d attempts, expected %d" % (m["vec"], m["unit"], m["r"], n, m["attempts"]))
    return None


def nontrivial(case, model):
    return case["meta"]["vec"] not in (["valid"], [["valid"]])
