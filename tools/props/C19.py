"""C19 - the CLI prints a well-formed, faithful document or a clean error (partial)."""
import base64, json, os, re, socket, struct, subprocess, threading, time
from vlib import *
from valve_common import enc_events, enc_ts
from view_common import enc_tree
from gs_common import gs_specs
from quake_common import quake_specs

ID = "C19"
PROPS_FILE = "C19"
COQ_TARGETS = ["Props/C19.vo"]
CLI_TARGET = BUILD + "/cli-target"
CLI = CLI_TARGET + "/debug/gamedig_cli"
TRUSTED = [
    "Coq 8.16.1 kernel; theorems closed under the global context",
    "hand-written model Model/Cli.v of output_result_xml / json_to_xml (crates/cli/src/main.rs) over quick-xml 0.37's Writer and escape, and a parser for the documents it produces; tied to the binary by comparing, for every run, the binary's XML output byte for byte with the model's rendering of the value the binary printed as JSON",
    "the real gamedig_cli binary (built from /repo's working tree into /verif/.build/cli-target) is run as a process against a Python loopback UDP server that replays generated reply scripts; clap argument parsing, serde_json, bson and Debug formatting are exercised, not modelled; JSON and BSON outputs are judged by Python's json and a small BSON reader, and compared value by value",
    "TCP and HTTP games (Minecraft, Eco) are not run; exit status and stderr of invalid invocations are observed on the binary only",
]
RULE = ("games of each UDP protocol family (valve: teamfortress2, quake: q3a, gamespy 1/2/3: unrealtournament / hce / crysiswars, GameSpy 1 replies with variables named like members of the response, unreal 2: unrealtournament2004, savage2, jc2m, mindustry) x generated reply scripts whose strings mix markup characters, quotes, control characters and non-ASCII "
        "x output modes generic / protocol-specific x formats debug, json-pretty, json, xml, bson-hex, bson-base64; invalid invocations: unknown game, unresolvable host, unreachable server, invalid values of --port, --format, --output-mode, --read-timeout / --write-timeout / --connect-timeout (0, negative, fractional, tiny, huge, text), --retries; "
        "non-trivial = a document was printed; distinct by (game, script, mode, format)")
FORMATS = ["debug", "json-pretty", "json", "xml", "bson-hex", "bson-base64"]
MODES = ["generic", "protocol-specific"]


class Server:
    """loopback UDP server answering the i-th datagram with script[i] (None = stay silent)"""

    def __init__(self, script):
        self.script = script
        self.sock = socket.socket(socket.AF_INET, socket.SOCK_DGRAM)
        self.sock.bind(("127.0.0.1", 0))
        self.sock.settimeout(0.05)
        self.port = self.sock.getsockname()[1]
        self.stop = False
        self.t = threading.Thread(target=self.run, daemon=True)
        self.t.start()

    def run(self):
        # wait for the first request, then hand out the script: a datagram every 40 ms
        # (the client reads them as it needs them), a None entry = silence for longer
        # than the client's one-second read timeout
        frm = None
        while not self.stop and frm is None:
            try:
                _, frm = self.sock.recvfrom(70000)
            except socket.timeout:
                continue
            except OSError:
                return
        for ev in self.script:
            if self.stop:
                return
            if ev is None:
                t = time.time()
                while time.time() - t < 1.2 and not self.stop:
                    time.sleep(0.05)
            else:
                try:
                    self.sock.sendto(ev, frm)
                except OSError:
                    return
                time.sleep(0.04)

    def close(self):
        self.stop = True
        self.t.join()
        self.sock.close()


class Raw(str):
    pass


def _members_once(pairs):
    d = {}
    for k, v in pairs:
        if k in d:
            raise ValueError("an object has the member %r twice" % k)
        d[k] = v
    return d


def parse_json(text):
    return json.loads(text, parse_float=Raw, parse_int=lambda s: int(s) if abs(int(s)) < 2**63 else Raw(s), object_pairs_hook=_members_once)


def top_strings(j):
    """name and map as a document states them at its top level (below the protocol tags of the protocol-specific output)"""
    while isinstance(j, dict) and len(j) == 1 and isinstance(list(j.values())[0], dict):
        j = list(j.values())[0]
    if not isinstance(j, dict):
        return {}
    return dict((k, j[k]) for k in ("name", "map") if isinstance(j.get(k), str))


def tree_of(v):
    if isinstance(v, Raw):
        return {"$raw": str(v)}
    if isinstance(v, list):
        return [tree_of(x) for x in v]
    if isinstance(v, dict):
        return dict((k, tree_of(x)) for k, x in v.items())
    return v


def read_bson(b):
    """BSON document -> python value; raises on anything malformed"""
    def doc(b, i, as_list):
        (n,) = struct.unpack_from("<i", b, i)
        end = i + n
        if n < 5 or end > len(b) or b[end - 1] != 0:
            raise ValueError("bad document length")
        i += 4
        out = [] if as_list else {}
        while i < end - 1:
            t = b[i]; i += 1
            j = b.index(0, i); key = b[i:j].decode("utf-8"); i = j + 1
            if t == 0x02:
                (ln,) = struct.unpack_from("<i", b, i); i += 4
                if ln < 1 or b[i + ln - 1] != 0:
                    raise ValueError("bad string")
                v = b[i:i + ln - 1].decode("utf-8"); i += ln
            elif t == 0x10:
                (v,) = struct.unpack_from("<i", b, i); i += 4
            elif t == 0x12:
                (v,) = struct.unpack_from("<q", b, i); i += 8
            elif t == 0x01:
                (v,) = struct.unpack_from("<d", b, i); i += 8
            elif t == 0x08:
                v = b[i] != 0; i += 1
            elif t == 0x0A:
                v = None
            elif t == 0x03:
                v, i = doc(b, i, False)
            elif t == 0x04:
                v, i = doc(b, i, True)
            else:
                raise ValueError("element type %02x" % t)
            if as_list:
                out.append(v)
            else:
                out[key] = v
        if i != end - 1:
            raise ValueError("document overrun")
        return out, end
    v, end = doc(b, 0, False)
    if end != len(b):
        raise ValueError("trailing bytes")
    return v


def same_value(j, b):
    """JSON value (with Raw numbers) vs BSON value"""
    if isinstance(j, Raw):
        try:
            if not isinstance(b, (int, float)) or isinstance(b, bool):
                return False
            if float(j) == float(b):
                return True
            # an f32 field: JSON prints its shortest f32 rendering, BSON its widening to f64
            f32 = lambda x: struct.unpack("<f", struct.pack("<f", x))[0]
            return f32(float(j)) == f32(float(b))
        except (ValueError, OverflowError, struct.error):
            return False
    if j is None and isinstance(b, float) and b != b:
        return True      # JSON has no NaN: serde_json writes null
    if isinstance(j, bool) or j is None or isinstance(j, str):
        return type(j) == type(b) and j == b
    if isinstance(j, int):
        return isinstance(b, int) and not isinstance(b, bool) and j == b
    if isinstance(j, list):
        return isinstance(b, list) and len(j) == len(b) and all(same_value(x, y) for x, y in zip(j, b))
    if isinstance(j, dict):
        return isinstance(b, dict) and set(j) == set(b) and all(same_value(j[k], b[k]) for k in j)
    return False


def run_cli(args, timeout=20):
    try:
        p = subprocess.run([CLI] + args, stdout=subprocess.PIPE, stderr=subprocess.PIPE, timeout=timeout)
        return p.returncode, p.stdout, p.stderr.decode("utf-8", "replace")
    except subprocess.TimeoutExpired:
        return None, b"", "TIMEOUT"


def scripts_for(tier, rng):
    """(game id, label, events) with a successful reply according to the model"""
    n = 3 if tier == "quick" else 12
    out = []
    seeds = lambda tag: [rng.fork("%s/%d" % (tag, i)).next() % (1 << 48) for i in range(n * 3)]
    # valve: teamfortress2 = Source(440), default gather
    reqs = [(bytes([114]) + s.to_bytes(8, "big") + b"\x01" + (440).to_bytes(4, "big") + bytes([1, 1, 1])).hex() for s in seeds("valve")]
    vs = [[bytes.fromhex(x) for x in o.split(",")] if o else [] for o in run_model(reqs)]
    chk = run_model([(bytes([10]) + (27015).to_bytes(2, "big") + b"\x01" + (440).to_bytes(4, "big") + b"\x00" + enc_ts(None) + enc_events(ev) + b"\x00\x00\x00\x00").hex() for ev in vs])
    out += [("teamfortress2", "valve%d" % i, ev) for i, (ev, c) in enumerate(zip(vs, chk)) if c.startswith("Ok(")][:n]
    # the same replies with the info reply announcing fewer players than the player reply lists (a player still connecting)
    low = []
    for i, (ev, c) in enumerate(zip(vs, chk)):
        if not c.startswith("Ok("):
            continue
        ev2 = list(ev)
        for j, d in enumerate(ev2):
            if d is not None and d[:5] == b"\xff\xff\xff\xff\x49":
                pos = 6
                for _ in range(4):                      # name, map, folder, game
                    pos = d.index(b"\x00", pos) + 1
                pos += 2                                # app id
                ev2[j] = d[:pos] + bytes([min(d[pos], 1)]) + d[pos + 1:]
        if ev2 != list(ev):
            low.append(("teamfortress2", "valve-lowcount%d" % i, ev2))
    out += low[:n]
    # 64-bit identifiers with the top bit set (Steam id, game id whose low 24 bits are the app id): integers must be printed digit for digit
    for i, (sid, gid) in enumerate(((18446744073709551557, (1 << 63) | 440), (9223372036854775808, 440), (12345678901234567890, (0xfedcba98 << 32) | (7 << 24) | 440))[:(2 if tier == "quick" else 3)]):
        info = (b"\xff\xff\xff\xff\x49\x11" + b"srv\x00map\x00tf\x00Team Fortress\x00" + (440).to_bytes(2, "little") + bytes([3, 16, 0, 0x64, 0x6c, 0, 1])
                + b"1.0\x00" + bytes([0x10 | 0x01]) + sid.to_bytes(8, "little") + gid.to_bytes(8, "little"))
        out.append(("teamfortress2", "valve-bigids%d" % i, [info, b"\xff\xff\xff\xff\x44\x00", b"\xff\xff\xff\xff\x45\x00\x00"]))
    out += [("q3a", "quake%d" % i, [s["dg"]]) for i, s in enumerate(quake_specs([(x, 3) for x in seeds("quake")])) if s["expected"].startswith("Some(")][:n]
    for ver, game in ((1, "unrealtournament"), (2, "hce"), (3, "crysiswars")):
        out += [(game, "gs%d-%d" % (ver, i), s["events"]) for i, s in enumerate(gs_specs(ver, seeds("gs%d" % ver))) if s["fits"]][:n]
    # GameSpy 1: server variables named like the members of the response (they belong to the unused entries, nowhere else)
    k = 0
    for s in gs_specs(1, seeds("gs1")):
        if s["fits"] and s["events"] and s["events"][0] is not None and len(s["events"][0]) < 900 and k < max(1, n // 2):
            extra = b"\\name\\set by the admin\\map\\Rogue\\game_mode\\zz\\players\\none\\tournament\\maybe?"
            out.append(("unrealtournament", "gs1-membernames%d" % k, [extra + s["events"][0]] + list(s["events"][1:])))
            k += 1
    games = run_model([(bytes([150, g]) + s.to_bytes(8, "big")).hex() for g in (1, 2, 3) for s in seeds("g")[:n]])
    names = ["savage2"] * n + ["jc2m"] * n + ["mindustry"] * n
    for i, (nm, o) in enumerate(zip(names, games)):
        parts = o.split("|")
        out.append((nm, "%s%d" % (nm, i), [bytes.fromhex(x) for x in parts[0].split(",")]))
    return out


INVALID = [
    (["query", "-g", "nosuchgame", "-i", "127.0.0.1"], "unknown game"),
    (["query", "-g", "q3a", "-i", "no-such-host.invalid"], "unresolvable host"),
    (["query", "-g", "q3a", "-i", "127.0.0.1", "-p", "1", "--read-timeout", "1", "--retries", "0"], "unreachable server"),
    (["query", "-g", "q3a", "-i", "127.0.0.1", "-p", "70000"], "port out of range"),
    (["query", "-g", "q3a", "-i", "127.0.0.1", "-p", "-1"], "negative port"),
    (["query", "-g", "q3a", "-i", "127.0.0.1", "-f", "yaml"], "unknown format"),
    (["query", "-g", "q3a", "-i", "127.0.0.1", "-o", "verbose"], "unknown output mode"),
    (["query", "-g", "q3a", "-i", "127.0.0.1", "--retries", "x"], "retries not a number"),
    (["query", "-g", "q3a", "-i", "127.0.0.1", "--retries", "-1"], "negative retries"),
    (["query", "-g", "q3a"], "missing address"),
    (["query", "-i", "127.0.0.1"], "missing game"),
    (["frobnicate"], "unknown subcommand"),
]
# unknown game ids of every shape: multi-byte characters at every small byte offset, empty, very long, with separators
for gid in ("zz\u00e9", "\u00e9\u00e9", "a\u4e2d", "ab\U0001f600", "\u0438\u0433\u0440\u0430", "\u00e9", "z\u00e9", "abc\u00e9", "", " ", "CSGO", "q3a ", "x" * 300, "a/b", "\U0001f600"):
    INVALID.append((["query", "-g", gid, "-i", "127.0.0.1"], "unknown game %r" % gid))
for flag in ("--read-timeout", "--write-timeout", "--connect-timeout"):
    for v in ("0", "00", "-1", "1.5", "0.5", "1e-10", "0.0000000004", "1e30", "18446744073709551616", "abc", "", "nan", "inf"):
        INVALID.append((["query", "-g", "q3a", "-i", "127.0.0.1", "-p", "1", "--retries", "0", flag + "=" + v], "%s=%s" % (flag, v)))


def gen_cases(tier, rng):
    return []


def oracle(case, impl, side):
    return None


def nontrivial(case, model):
    return True


def extra_runs(tier, rng, ctx):
    fails = []
    rc, out = sh("cargo build -p gamedig_cli --offline 2>&1 | tail -5", cwd=REPO, env={"CARGO_TARGET_DIR": CLI_TARGET}, timeout=3000)
    if not os.path.exists(CLI) or "error" in out:
        return [("cli-does-not-build", "gamedig_cli does not build: " + out[-600:], {"log": out[-2000:]})], {"evaluations": 0}
    runs, docs = 0, 0
    xml_jobs = []       # (label, tree, xml bytes, replay)
    for game, label, events in scripts_for(tier, rng):
        outs = {}
        for mode in MODES:
            for fmt in FORMATS:
                srv = Server(events)
                args = ["query", "-g", game, "-i", "127.0.0.1", "-p", str(srv.port), "-f", fmt, "-o", mode, "--read-timeout", "1", "--retries", "0"]
                code, so, se = run_cli(args)
                srv.close()
                runs += 1
                rep = {"game": game, "script": [None if e is None else e.hex() for e in events], "args": args[:6] + ["<port>"] + args[7:], "exit": code, "stdout": so[:2000].decode("utf-8", "replace"), "stderr": se[:600]}
                if "panicked" in se or code not in (0, 1, 2):
                    fails.append(("panic:%s" % fmt, "%s %s/%s: the CLI panicked or was killed (exit %s): %s" % (label, mode, fmt, code, se[:300]), rep))
                    continue
                if code != 0 and "UnsignedIntegerExceededRange" in se:
                    fails.append(("bson-unsigned-range", "%s %s/%s: BSON has no unsigned 64-bit integer: %s" % (label, mode, fmt, se[:200]), rep))
                    continue
                if code != 0:
                    fails.append(("query-failed:%s" % game, "%s %s/%s: exit %s on a valid reply: %s" % (label, mode, fmt, code, se[:300]), rep))
                    continue
                if not so.strip():
                    fails.append(("no-document:%s" % fmt, "%s %s/%s: exit 0 but nothing was printed" % (label, mode, fmt), rep))
                    continue
                docs += 1
                outs[(mode, fmt)] = (so, rep)
        # both modes describe the same reply: where both list players by name, the lists are the same
        if ("generic", "json") in outs and ("protocol-specific", "json") in outs:
            try:
                jg = parse_json(outs[("generic", "json")][0].decode("utf-8"))
                js_ = parse_json(outs[("protocol-specific", "json")][0].decode("utf-8"))
                ng, ns = player_names(jg), player_names(js_)
                if ng is not None and ns is not None and ng != ns:
                    fails.append(("generic-differs:players", "%s: the generic output lists players %r, the protocol-specific output %r" % (label, ng[:8], ns[:8]), outs[("generic", "json")][1]))
                tg, ts_ = top_strings(jg), top_strings(js_)
                for k in ("name", "map"):
                    if k in tg and k in ts_ and tg[k] != ts_[k]:
                        fails.append(("generic-differs:" + k, "%s: the generic output says %s = %r, the protocol-specific output %r" % (label, k, tg[k][:60], ts_[k][:60]), outs[("protocol-specific", "json")][1]))
            except (ValueError, UnicodeDecodeError):
                pass
        for mode in MODES:
            if (mode, "json") not in outs:
                continue
            so, rep = outs[(mode, "json")]
            try:
                j = parse_json(so.decode("utf-8"))
            except (ValueError, UnicodeDecodeError) as e:
                fails.append(("json-malformed", "%s %s: json output does not parse: %s" % (label, mode, e), rep))
                continue
            if (mode, "json-pretty") in outs:
                try:
                    jp = parse_json(outs[(mode, "json-pretty")][0].decode("utf-8"))
                    if jp != j:
                        fails.append(("json-pretty-differs", "%s %s: json and json-pretty encode different values" % (label, mode), outs[(mode, "json-pretty")][1]))
                except (ValueError, UnicodeDecodeError) as e:
                    fails.append(("json-malformed", "%s %s: json-pretty output does not parse: %s" % (label, mode, e), outs[(mode, "json-pretty")][1]))
            for fmt in ("bson-hex", "bson-base64"):
                if (mode, fmt) not in outs:
                    continue
                txt = outs[(mode, fmt)][0].decode("ascii", "replace").strip()
                try:
                    raw = bytes.fromhex(txt) if fmt == "bson-hex" else base64.b64decode(txt, validate=True)
                    b = read_bson(raw)
                except Exception as e:
                    fails.append(("bson-malformed:" + fmt, "%s %s: %s output is not a BSON document: %s" % (label, mode, fmt, e), outs[(mode, fmt)][1]))
                    continue
                if not same_value(j, b):
                    fails.append(("bson-differs:" + fmt, "%s %s: %s encodes other values than the json output" % (label, mode, fmt), outs[(mode, fmt)][1]))
            if (mode, "xml") in outs:
                xml = outs[(mode, "xml")][0]
                if xml.endswith(b"\n"):
                    xml = xml[:-1]
                xml_jobs.append(("%s %s" % (label, mode), tree_of(j), xml, outs[(mode, "xml")][1]))
    # the XML outputs against the model
    verdicts = run_model([(bytes([19]) + enc_tree(t) + len(x).to_bytes(4, "big") + x).hex() for _, t, x, _ in xml_jobs])
    for (label, t, x, rep), v in zip(xml_jobs, verdicts):
        tags = dict(kv.split("=") for kv in v.split(";")) if "=" in v else {}
        if tags.get("render") != "same" and label.endswith(" generic"):
            # the generic view has no maps: the order of members is fixed, the rendering must be the model's byte for byte
            fails.append(("xml-writer-model", "%s: the XML printed differs from the model's rendering of the value printed as JSON (%s)" % (label, v), rep))
        if tags.get("conforms") != "yes":
            # whatever the order of the members of the maps, this is not what the writer (as modelled) prints for the value
            fails.append(("xml-writer-model", "%s: the XML printed is not the writer's rendering of the value printed as JSON, for any order of the map members (%s): %s" % (label, v, x[:300]), rep))
        elif tags.get("parse") != "ok":
            # the document is exactly the writer's rendering and still malformed: only a name or a character of the value can be the reason
            bad_key = find_bad_key(t)
            bad_char = find_bad_char(t)
            if bad_key is not None:
                fails.append(("xml-malformed:element-name", "%s: the XML document is not well-formed (a map key is used as an element name: %r): %s" % (label, bad_key, x[:200]), rep))
            elif bad_char:
                fails.append(("xml-malformed:characters", "%s: the XML document is not well-formed (a control character is written literally): %s" % (label, x[:200]), rep))
            else:
                fails.append(("xml-malformed:structure", "%s: the XML document is not well-formed although every name and character of the value is allowed: %s" % (label, x[:300]), rep))
        elif tags.get("faithful") != "yes":
            fails.append(("xml-unfaithful", "%s: the XML document does not encode the values of the json output" % label, rep))
    # invalid invocations
    for args, what in INVALID:
        code, so, se = run_cli(args, timeout=30)
        runs += 1
        rep = {"args": args, "exit": code, "stdout": so[:300].decode("utf-8", "replace"), "stderr": se[:600]}
        if code is None:
            fails.append(("invalid-hangs", "invalid invocation (%s) did not return" % what, rep))
        elif "panicked" in se or code not in (1, 2):
            fails.append(("invalid-panics", "invalid invocation (%s): exit %s, stderr %s" % (what, code, se[:200]), rep))
        elif not se.strip():
            fails.append(("invalid-silent", "invalid invocation (%s): exit %s without an error message" % (what, code), rep))
        elif so.strip():
            fails.append(("invalid-prints-document", "invalid invocation (%s) printed to stdout: %s" % (what, so[:100]), rep))
    return fails, {"evaluations": runs, "distinct_nontrivial": docs, "cli_runs": runs, "documents": docs, "xml_documents": len(xml_jobs), "invalid_invocations": len(INVALID)}


def find_bad_char(t):
    """a character that XML 1.1 does not allow literally, in a string or a key of the value"""
    def bad(text):
        return any((ord(c) < 0x20 and c not in "\t\n\r") or ord(c) == 0x7f for c in text)
    if isinstance(t, dict):
        return any(bad(k) or find_bad_char(v) for k, v in t.items())
    if isinstance(t, list):
        return any(find_bad_char(v) for v in t)
    return isinstance(t, str) and bad(t)


def player_names(j):
    if isinstance(j, dict) and len(j) == 1 and isinstance(list(j.values())[0], dict) and "players" in list(j.values())[0]:
        j = list(j.values())[0]                         # protocol-specific output: {"Valve": {...}}
    p = j.get("players") if isinstance(j, dict) else None
    if isinstance(p, list) and all(isinstance(x, dict) and isinstance(x.get("name"), str) for x in p):
        return [x["name"] for x in p]
    return None


NAME = re.compile(r"[A-Za-z_:\x80-\U0010ffff][A-Za-z0-9_:.\-\x80-\U0010ffff]*\Z")


def find_bad_key(t):
    if isinstance(t, dict):
        for k, v in t.items():
            if k != "$raw" and not NAME.match(k):
                return k
            r = find_bad_key(v)
            if r is not None:
                return r
    if isinstance(t, list):
        for v in t:
            r = find_bad_key(v)
            if r is not None:
                return r
    return None
