"""C01 - hostile server responses never crash or hang a query."""
from valve_common import *
from quake_common import quake_specs, quake_case
from u2_common import u2_specs, u2_case
from gs_common import gs_specs, gs_case

ID = "C01"
PROPS_FILE = "C01"
COQ_TARGETS = ["Props/C01.vo"]
TRUSTED = [
    "Coq 8.16.1 kernel; theorems closed under the global context, under the stated Section hypothesis that the bzip2 oracle returns a value or an error (bzip2-rs is not verified)",
    "extraction (ExtrOcamlBasic), extract/driver.ml, Rust harness (catch_unwind, subprocess restart on abort, socket-operation cap as hang detector) + scripted transport hook",
    "third-party decoders (bzip2-rs, encoding_rs, std from_utf8) are exercised by the malformed stream, not proved panic-free",
    "totality theorems: valve::query (and through it every Valve game wrapper), The Ship, Battalion 1944, FFOW, quake one/two/three, unreal2, gamespy one/two/three (and the variables-only query), JC2-MP, Savage 2, Mindustry, every Minecraft entry point (serde_json::from_str as an oracle that answers); all of them also run through the malformed streams (model = implementation, no panic / abort / hang). Eco / Epic / Minetest (HTTP) are not modelled",
]
RULE = ("malformed stream over Spec-generated valid scripts: truncation at every/ random offsets, extreme values (00, ff, 7f, 80, 16/32-bit extremes) written at random offsets, "
        "GameSpy 3 packets with hostile numbers (beyond the last, repeated, several flagged last), Minecraft Java framing with packet / id / string length VarInts at their extremes (negative, overlong), dropped / duplicated / swapped / empty / oversized (up to 64 KiB) datagrams, timeouts, deleted terminators, bit flips, random packets; all engines and gather settings, retries 0..2; "
        "non-trivial = the model's outcome is an error other than a receive timeout, or Ok after a mutation; distinct by case bytes")
UNCOVERED = ["valve master server (its malformed stream is part of C16)", "eco and minetest (HTTP)"]
GAME_NAMES = ["ffow", "savage2", "jc2m", "mindustry", "theship", "battalion1944"]


def game_case(game, port, ts, events):
    return (bytes([50, game]) + port.to_bytes(2, "big") + enc_ts(ts) + enc_events(events) + b"\x00\x00\x00").hex()


def gen_cases(tier, rng):
    cases = []
    nseeds = 250 if tier == "quick" else 6000
    per = 10 if tier == "quick" else 16
    seeds = [rng.next() >> 1 for _ in range(nseeds)]
    sp = specs(seeds, compressed_every=6)
    r = rng.fork("mut")
    for s in sp:
        base = list(s["dgs"])
        for j in range(per):
            kind, evs = mutate(base, r)
            if r.chance(1, 4):
                k2, evs = mutate(evs, r)
                kind += "+" + k2
            ts = None if r.chance(1, 2) else {"retries": r.below(3)}
            cases.append({"id": "mut/%d/%d" % (s["seed"], j), "hex": assemble(with_ts(s["settings"], ts), evs, s["bz"]),
                          "meta": {"stream": "mut:" + kind.split("@")[0].split("+")[0], "kind": kind}})
    for s in sp:
        for tag, evs in count_field_cases(s):
            cases.append({"id": "count/%d/%s" % (s["seed"], tag), "hex": assemble(s["settings"], evs, s["bz"]),
                          "meta": {"stream": "count-fields", "kind": tag}})
    for s in sp[: len(sp) // 3]:
        for j, (tag, evs) in enumerate(reordered_extreme_cases(s, r)):
            cases.append({"id": "reorder/%d/%d" % (s["seed"], j), "hex": assemble(s["settings"], evs, s["bz"]),
                          "meta": {"stream": "reordered-extreme", "kind": tag}})
    # every truncation of every datagram of a few scripts
    for s in sp[: (6 if tier == "quick" else 150)]:
        for w in range(len(s["dgs"])):
            for ti, evs in enumerate(all_truncations(s["dgs"], w, 1 if len(s["dgs"][w]) <= 96 else 7)):
                cases.append({"id": "trunc/%d/%d/%d" % (s["seed"], w, ti), "hex": assemble(s["settings"], evs, s["bz"]),
                              "meta": {"stream": "all-truncations", "kind": "truncate"}})
    # Quake 1/2/3: mutations, every truncation, random packets
    qn = 120 if tier == "quick" else 3000
    qs = quake_specs([(rng.next() >> 1, 1 + (i % 3)) for i in range(qn)])
    for q in qs:
        for j in range(8 if tier == "quick" else 12):
            kind, evs = mutate([q["dg"]], r)
            ts = None if r.chance(1, 2) else {"retries": r.below(3)}
            cases.append({"id": "qmut/%d/%d" % (q["seed"], j), "hex": quake_case(27960, q["ver"], ts, evs),
                          "meta": {"stream": "quake-mut:" + kind.split("@")[0], "kind": kind}})
    for q in qs[: (9 if tier == "quick" else 150)]:
        for ti, evs in enumerate(all_truncations([q["dg"]], 0, 1)):
            cases.append({"id": "qtrunc/%d/%d" % (q["seed"], ti), "hex": quake_case(27960, q["ver"], None, evs),
                          "meta": {"stream": "quake-truncations", "kind": "truncate"}})
    for i in range(300 if tier == "quick" else 10000):
        v = 1 + r.below(3)
        hdr = [b"n", b"print\n", b"statusResponse\n"][v - 1]
        body = r.bytes(r.choice([0, 1, 3, 9, 30]), [0x5c, 0x0a, 0x20, 0x22, 0x00, 0x41, 0x31, 0x2d, 0xff, 0xc3])
        d = (b"\xff\xff\xff\xff" + hdr + body) if r.chance(3, 4) else r.bytes(r.below(12))
        cases.append({"id": "qrand/%d" % i, "hex": quake_case(27960, v, None, [d]), "meta": {"stream": "quake-random", "kind": "random"}})
    # Unreal 2: mutations, truncations, random packets
    us = u2_specs([rng.next() >> 1 for _ in range(120 if tier == "quick" else 3000)], (1, 2))
    for u in us:
        for j in range(8 if tier == "quick" else 12):
            kind, evs = mutate(u["events"], r)
            g = r.choice([None, (1, 2), (2, 2), (1, 1), (2, 1)])
            ts = None if r.chance(1, 2) else {"retries": r.below(3)}
            cases.append({"id": "umut/%d/%d" % (u["seed"], j), "hex": u2_case(7778, g, ts, evs),
                          "meta": {"stream": "unreal2-mut:" + kind.split("@")[0], "kind": kind}})
    for u in us[: (6 if tier == "quick" else 100)]:
        for w in range(len(u["events"])):
            if u["events"][w] is None:
                continue
            for ti, evs in enumerate(all_truncations(u["events"], w, 1 if len(u["events"][w]) <= 96 else 5)):
                cases.append({"id": "utrunc/%d/%d/%d" % (u["seed"], w, ti), "hex": u2_case(7778, (2, 2), None, evs),
                              "meta": {"stream": "unreal2-truncations", "kind": "truncate"}})
    for i in range(300 if tier == "quick" else 10000):
        evs = []
        for k in range(1 + r.below(3)):
            kindb = r.choice([0, 1, 2, 2, 1, 3, 255])
            evs.append(bytes([0x80, 0, 0, 0, kindb]) + r.bytes(r.choice([0, 1, 4, 9, 30]), [0x00, 0x01, 0x05, 0x7f, 0x80, 0x81, 0x85, 0xff, 0x41, 0x1b, 0xd8, 0xdc]))
        cases.append({"id": "urand/%d" % i, "hex": u2_case(7778, r.choice([None, (2, 2)]), None, evs), "meta": {"stream": "unreal2-random", "kind": "random"}})
    # GameSpy 1/2/3: mutations, every truncation of a few scripts, random packets
    for ver in (1, 2, 3):
        gsp = [g for g in gs_specs(ver, [rng.next() >> 1 for _ in range(80 if tier == "quick" else 2000)]) if g["fits"]]
        for g in gsp:
            for j in range(6 if tier == "quick" else 12):
                kind, evs = mutate(g["events"], r)
                ts = None if r.chance(1, 2) else {"retries": r.below(3)}
                cases.append({"id": "gs%dmut/%d/%d" % (ver, g["seed"], j), "hex": gs_case(ver, 7777, r.below(2) if ver != 2 else 0, ts, evs),
                              "meta": {"stream": "gamespy%d-mut:%s" % (ver, kind.split("@")[0]), "kind": kind}})
        for g in gsp[: (4 if tier == "quick" else 80)]:
            for w in range(len(g["events"])):
                for ti, evs in enumerate(all_truncations(g["events"], w, 1 if len(g["events"][w]) <= 96 else 9)):
                    cases.append({"id": "gs%dtrunc/%d/%d/%d" % (ver, g["seed"], w, ti), "hex": gs_case(ver, 7777, 0, None, evs),
                                  "meta": {"stream": "gamespy%d-truncations" % ver, "kind": "truncate"}})
        for i in range(150 if tier == "quick" else 5000):
            alpha = [0x00, 0x01, 0x02, 0x03, 0x5c, 0x5f, 0x2e, 0x30, 0x39, 0x41, 0x70, 0x74, 0x80, 0xff]
            head = [b"\\", b"\x00\x00\x00\x00\x01", b"\x00\x00\x00\x00\x01splitnum\x00"][ver - 1]
            evs = [(head if r.chance(3, 4) else b"") + r.bytes(r.choice([0, 1, 3, 9, 40]), alpha) for _ in range(1 + r.below(3))]
            if ver == 3:
                evs = [b"\x09\x00\x00\x00\x01" + r.bytes(r.below(13), [0x30, 0x31, 0x2d, 0x39, 0x00, 0x41])] + evs
            cases.append({"id": "gs%drand/%d" % (ver, i), "hex": gs_case(ver, 7777, r.below(2) if ver != 2 else 0, None, evs),
                          "meta": {"stream": "gamespy%d-random" % ver, "kind": "random"}})
    # GameSpy 3: splitnum packets with hostile numbers (beyond the one flagged last, repeated, 127, flags on several), in any order
    for i in range(400 if tier == "quick" else 12000):
        ids = [0x00, 0x01, 0x02, 0x03, 0x05, 0x80, 0x81, 0x82, 0x83, 0x7f, 0xff, 0x40]
        evs = [b"\x09\x00\x00\x00\x01" + r.choice([b"0\x00", b"-5\x00", b"2147483647\x00", b"1\x00"])]
        for _ in range(1 + r.below(5)):
            body = r.choice([b"", b"\x00", b"hostname\x00x\x00\x00", b"\x01player_\x00\x00a\x00\x00\x00", b"\x01player_\x00\x05a\x00b\x00\x00\x00",
                             b"\x02team_t\x00\x00t\x00\x00\x00", r.bytes(r.below(12), [0x00, 0x01, 0x02, 0x5f, 0x41, 0x70, 0xff])])
            evs.append(b"\x00\x00\x00\x00\x01splitnum\x00" + bytes([r.choice(ids), r.choice([0, 1, 255])]) + body)
        cases.append({"id": "gs3ids/%d" % i, "hex": gs_case(3, 7777, r.below(2), None if r.chance(2, 3) else {"retries": r.below(2)}, evs),
                      "meta": {"stream": "gamespy3-packet-numbers", "kind": "random"}})
    # single-game protocols: mutations and every truncation of a few replies
    for game in range(6):
        seeds_g = [rng.next() >> 1 for _ in range(60 if tier == "quick" else 1500)]
        outs = run_model([(bytes([150, game]) + x.to_bytes(8, "big")).hex() for x in seeds_g])
        scripts_g = []
        for x, o in zip(seeds_g, outs):
            parts = o.split("|")
            evs0 = [bytes.fromhex(h) for h in parts[0].split(",")] if parts[0] else []
            if evs0 and max(len(e) for e in evs0) <= 1400:
                scripts_g.append((x, evs0))
        for x, evs0 in scripts_g:
            for j in range(6 if tier == "quick" else 12):
                kind, evs = mutate(evs0, r)
                ts = None if r.chance(1, 2) else {"retries": r.below(3)}
                cases.append({"id": "%smut/%d/%d" % (GAME_NAMES[game], x, j), "hex": game_case(game, 5000, ts, evs),
                              "meta": {"stream": "%s-mut:%s" % (GAME_NAMES[game], kind.split("@")[0]), "kind": kind}})
        for x, evs0 in scripts_g[: (3 if tier == "quick" else 60)]:
            for w in range(len(evs0)):
                for ti, evs in enumerate(all_truncations(evs0, w, 1 if len(evs0[w]) <= 96 else 9)):
                    cases.append({"id": "%strunc/%d/%d/%d" % (GAME_NAMES[game], x, w, ti), "hex": game_case(game, 5000, None, evs),
                                  "meta": {"stream": GAME_NAMES[game] + "-truncations", "kind": "truncate"}})
    # Minecraft (all five formats and the auto query): the malformed stream of C03
    import C03
    for c in C03.gen_cases(tier, rng.fork("mc")):
        if c["meta"]["stream"] == "malformed":
            cases.append({"id": "mc/" + c["id"], "hex": c["hex"], "meta": {"stream": "minecraft-malformed", "kind": "mutated"}})
    cases += mc_framing_cases(tier, r)
    # random packets over the boundary alphabet
    for i in range(300 if tier == "quick" else 20000):
        n = 1 + r.below(3)
        evs = [r.bytes(r.choice([0, 1, 4, 5, 6, 9, 12, 20, 60]), [0x00, 0x01, 0x7f, 0x80, 0xfe, 0xff, 0x41, 0x49, 0x44, 0x45, 0x6d]) for _ in range(n)]
        if r.chance(1, 2) and evs[0]:
            evs[0] = b"\xff\xff\xff\xff" + evs[0]
        elif r.chance(1, 2):
            evs[0] = b"\xfe\xff\xff\xff" + evs[0]
        s = sp[i % len(sp)]
        cases.append({"id": "rand/%d" % i, "hex": assemble(s["settings"], evs, b"\x00"), "meta": {"stream": "random-packets", "kind": "random"}})
    return cases


def mc_framing_cases(tier, r):
    """Minecraft Java framing: packet length, packet id and string length VarInts at their extremes (negative, overlong, huge)"""
    import C03
    cases = []
    # Minecraft Java framing: packet length, packet id and string length VarInts at their extremes (negative, overlong, huge)
    def vi(v):
        v &= 0xffffffff
        out = b""
        while True:
            b7 = v & 0x7f
            v >>= 7
            if v:
                out += bytes([b7 | 0x80])
            else:
                return out + bytes([b7])
    VEXT = [vi(0), vi(1), vi(2), vi(127), vi(128), vi(16383), vi(2097151), vi(0x04000000), vi(0x20000000), vi(0x7fffffff), vi(-1), vi(-2), vi(-2147483648), b"\xff\xff\xff\xff\xff", b"\x80\x80\x80\x80\x80\x01",
            b"\xff\xff\xff\xff\x7f", b"\x80", b"\xff\xff"]
    jtxt = b'{"version":{"name":"x","protocol":5},"players":{"max":2,"online":1},"description":"d"}'
    for i in range(500 if tier == "quick" else 15000):
        a, b_, c_ = r.choice(VEXT), r.choice(VEXT[:2] + VEXT), r.choice(VEXT)
        body = r.choice([jtxt, jtxt[:r.below(len(jtxt))], b"", b"{}", r.bytes(r.below(9), [0x00, 0x22, 0x7b, 0x7d, 0xff])])
        pick = r.below(4)
        if pick == 0:
            stream = vi(len(b_ + c_ + body)) + b_ + c_ + body          # honest outer length, hostile inner fields
        elif pick == 1:
            stream = a + vi(0) + c_ + body                              # hostile outer length
        elif pick == 2:
            stream = vi(len(vi(0) + vi(len(body)) + body)) + vi(0) + c_ + body   # only the string length is hostile
        else:
            stream = a + b_ + c_ + body
        variant = r.choice([0, 1, 1])
        js = C03.java_json_of(stream)
        cases.append({"id": "mcframe/%d" % i, "hex": C03.mc_case(variant, 25565, [], [(stream, r.chance(1, 8))], [js] if js is not None else []),
                      "meta": {"stream": "minecraft-java-framing", "kind": "random"}})
    return cases


def oracle(case, impl, side):
    res, _ = split_result(impl)
    if res is None:
        return ("no-output", "no output")
    if res == "HANG" or impl == "HANG":
        return ("hang", "the query does not return (no output for 12 s; the harness was killed)")
    if "PANIC" in res:
        loc = side.split("panicked at ")[-1].split(":")[0] if "panicked at " in side else "?"
        if "VERIF_HANG" in side:
            return ("hang", "query does not return once the server has gone silent: " + side[:200])
        return ("panic:" + loc, "query panicked (%s)" % side[:300])
    if res == "ABORT" or impl == "ABORT":
        return ("abort", "process aborted")
    if not (res.startswith("Ok(") or res.startswith("Err(")):
        return ("bad-outcome", res[:100])
    return None


def nontrivial(case, model):
    res, _ = split_result(model)
    return res is not None and (res.startswith("Ok(") or (res.startswith("Err(") and res != "Err(PacketReceive)"))


def extra_runs(tier, rng, ctx):
    return [], {"uncovered_entry_points": UNCOVERED,
                "covered_entry_points_with_theorem": ["valve::query", "quake::one::query", "quake::two::query", "quake::three::query", "unreal2::query"],
                "covered_entry_points_by_correspondence_only": ["gamespy one/two/three query and query_vars", "minecraft java / bedrock / legacy / auto",
                                                               "ffow", "savage2", "jc2m", "mindustry", "theship", "battalion1944",
                                                               "generic dispatch (C14 runs every game through it)"]}
