"""C05 - Quake 1/2/3 status replies yield all variables and players."""
from quake_common import *

ID = "C05"
PROPS_FILE = "C05"
COQ_TARGETS = ["Props/C05.vo"]
TRUSTED = [
    "Coq 8.16.1 kernel; theorems closed under the global context",
    "extraction, driver, Rust harness + scripted transport hook",
    "Spec/QuakeSpec.v: the status reply format (backslash variables, one player line per player, optional terminating NUL), reconstructed from node-gamedig and the QuakeWorld / Quake 2 / Quake 3 sources' behaviour, no normative document exists",
]
RULE = ("server states from the extracted Spec generator for versions 1, 2, 3: any variable set (alternate spellings hostname/sv_hostname, mapname/map, maxclients/sv_maxclients, "
        "version/*version; 0-5 extra variables with UTF-8 values), 0-6 player lines with quoted and unquoted names (names with spaces, backslashes, multi-byte characters), optional address field, "
        "optional terminating NUL; non-trivial = at least one player line; distinct by seed")


def gen_cases(tier, rng):
    n = 1500 if tier == "quick" else 40000
    sv = [(rng.next() >> 1, 1 + rng.below(3)) for _ in range(n)]
    cases = []
    for s in quake_specs(sv):
        cases.append({"id": "q%d/%d" % (s["ver"], s["seed"]), "hex": quake_case(27960, s["ver"], None, [s["dg"]]),
                      "meta": {"stream": "valid-q%d" % s["ver"], "expected": s["expected"], "np": int(s["tags"]["np"])}})
    return cases


def oracle(case, impl, side):
    res, trace = split_result(impl)
    if "PANIC" in (res or ""):
        return ("panic", "panicked on a valid reply: " + side[:200])
    exp = case["meta"]["expected"]
    if not exp.startswith("Some("):
        return None
    want = "Ok(" + exp[5:-1] + ")"
    if res != want:
        return ("decode-mismatch", "response differs from the server state: got %s expected %s" % (res[:300], want[:300]))
    return None


def nontrivial(case, model):
    return case["meta"]["np"] >= 1
