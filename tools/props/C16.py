"""C16 - master-server filters are encoded faithfully and paging is complete."""
import itertools, sys
sys.path.insert(0, "/verif/tools")
from vlib import run_model
from valve_common import enc_events, split_result

ID = "C16"
PROPS_FILE = "C16"
COQ_TARGETS = ["Props/C16.vo"]
TRUSTED = [
    "Coq 8.16.1 kernel; theorems closed under the global context",
    "extraction (ExtrOcamlBasic), extract/driver.ml, Rust harness + scripted transport hook; the harness re-renders the filter string of each request with the chunks of every group sorted (HashMap iteration order is unobservable)",
    "Spec/MasterSpec.v: the filter grammar (denote) and reply pages, written from the Master Server Query Protocol",
    "the expected filter groups of an insertion sequence (a later filter of a kind replaces the earlier, per group) are computed by the check from the property text",
]
RULE = ("groups of 9 to 18 distinct filters (two-digit counts); " "all insertion sequences of length <= 2 (quick) / <= 3 (thorough) over the 18 filter kinds x 3 groups with boundary values (tag lists with empty tags included), random sequences up to 12, all 9 regions; "
        "listings of 1-6 pages of 0-231 entries from the extracted Spec generator with the terminator at any position, a page often beginning with the address the request was seeded with; "
        "non-trivial = at least two insertions or at least two pages; distinct by case bytes")

KEYS = ["secure", "map", "password", "empty", "noplayers", "full", "appid", "napp", "gametype", "name_match", "version_match",
        "collapse_addr_hash", "gameaddr", "white", "proxy", "dedicated", "linux", "gamedir"]
BOOLK = {0, 2, 3, 4, 5, 11, 13, 14, 15, 16}
STRK = {1, 9, 10, 12, 17}
REGIONS = [0, 1, 2, 3, 4, 5, 6, 7, 0xFF]


def filt(kind, val):
    """(encoded filter, expected (key, value) or None)"""
    if kind in BOOLK:
        return bytes([kind, 1 if val else 0]), (KEYS[kind], b"1" if val else b"0")
    if kind in STRK:
        v = val
        return bytes([kind]) + len(v).to_bytes(2, "big") + v, (KEYS[kind], v)
    if kind in (6, 7):
        return bytes([kind]) + val.to_bytes(4, "big"), (KEYS[kind], str(val).encode())
    tags = val
    enc = bytes([8, len(tags)]) + b"".join(len(t).to_bytes(2, "big") + t for t in tags)
    return enc, ((KEYS[8], b",".join(tags)) if tags else None)


def values(kind, r=None):
    if kind in BOOLK:
        return [True, False]
    if kind in STRK:
        return [b"de_dust2", b"", b"a b*"]
    if kind in (6, 7):
        return [0, 440, 4294967295]
    return [[], [b"coop"], [b"a", b"b", b"c"], [b""], [b"", b"x"], [b"a", b""], [b"", b""]]


def master_case(port, region, ops, mode, seed_addr, events, has=True):
    b = bytes([16]) + port.to_bytes(2, "big") + bytes([region, 1 if has else 0, len(ops)])
    for g, enc in ops:
        b += bytes([g]) + enc
    b += bytes([mode]) + bytes(seed_addr[:4]) + seed_addr[4].to_bytes(2, "big")
    b += enc_events(events) + b"\x00\x00" + b"\x00"
    return b.hex()


PAGE1 = bytes.fromhex("ffffffff660a") + bytes([1, 2, 3, 4]) + (27015).to_bytes(2, "big") + bytes(6)


def expected_groups(ops_exp):
    """last insertion of a kind wins, per group; tag filters without tags are not sent"""
    groups = [dict(), dict(), dict()]
    for g, kind, exp in ops_exp:
        groups[g][kind] = exp
    return [sorted(v for v in grp.values() if v is not None) for grp in groups]


def gen_cases(tier, rng):
    cases = []
    depth = 2 if tier == "quick" else 3
    # --- filters: exhaustive insertion sequences over kinds x groups (one value per kind), then values ---
    n = 0
    atoms = [(g, k) for g in range(3) for k in range(18)]
    r = rng.fork("filters")
    for d in range(0, depth + 1):
        for seq in itertools.product(atoms, repeat=d):
            if d == 3 and r.below(4) != 0:      # depth 3: a quarter of 157k
                continue
            ops, exps = [], []
            for (g, k) in seq:
                enc, exp = filt(k, r.choice(values(k)))
                ops.append((g, enc)); exps.append((g, k, exp))
            cases.append({"id": "seq/%d" % n, "hex": master_case(27011, r.choice(REGIONS), ops, 1, (0, 0, 0, 0, 0), [PAGE1]),
                          "meta": {"stream": "filter-sequences", "groups": [[(k, v.hex()) for k, v in grp] for grp in expected_groups(exps)],
                                   "nops": d, "seed": "0.0.0.0:0"}})
            n += 1
    for i in range(1500 if tier == "quick" else 40000):
        d = 1 + r.below(12)
        ops, exps = [], []
        for _ in range(d):
            g, k = r.below(3), r.below(18)
            enc, exp = filt(k, r.choice(values(k)))
            ops.append((g, enc)); exps.append((g, k, exp))
        sa = (r.below(256), r.below(256), r.below(256), r.below(256), r.below(65536))
        has = not r.chance(1, 10)
        cases.append({"id": "rnd/%d" % i, "hex": master_case(27011 + r.below(3), r.choice(REGIONS), ops, 1, sa, [PAGE1], has),
                      "meta": {"stream": "filter-random", "groups": [[(k, v.hex()) for k, v in grp] for grp in expected_groups(exps)] if has else [[], [], []],
                               "nops": d, "seed": "%d.%d.%d.%d:%d" % sa}})
    # --- large groups: 9 to 18 distinct kinds in one group (a two-digit count), others sparsely filled ---
    for i in range(120 if tier == "quick" else 3000):
        big = 1 + r.below(2) if i % 5 else r.below(3)
        kinds = list(range(18))
        for a in range(17, 0, -1):
            b = r.below(a + 1)
            kinds[a], kinds[b] = kinds[b], kinds[a]
        items = []
        for k in kinds[:9 + r.below(10)]:
            enc, exp = filt(k, r.choice(values(k)))
            items.append((big, k, enc, exp))
        for _ in range(r.below(4)):
            g, k = r.below(3), r.below(18)
            enc, exp = filt(k, r.choice(values(k)))
            items.insert(r.below(len(items) + 1), (g, k, enc, exp))
        ops = [(g, enc) for g, k, enc, exp in items]
        exps = [(g, k, exp) for g, k, enc, exp in items]
        cases.append({"id": "big/%d" % i, "hex": master_case(27011, r.choice(REGIONS), ops, 1, (0, 0, 0, 0, 0), [PAGE1]),
                      "meta": {"stream": "filter-large-groups", "groups": [[(k, v.hex()) for k, v in grp] for grp in expected_groups(exps)],
                               "nops": len(ops), "seed": "0.0.0.0:0"}})
    # --- paging: listings from the extracted Spec generator ---
    npag = 400 if tier == "quick" else 8000
    seeds = [rng.next() >> 1 for _ in range(npag)]
    outs = run_model([(bytes([116]) + s.to_bytes(8, "big")).hex() for s in seeds])
    for s, o in zip(seeds, outs):
        dg, exp, sd, tags = o.split("|")
        evs = [bytes.fromhex(x) for x in dg.split(",")]
        cases.append({"id": "pages/%d" % s, "hex": master_case(27011, r.choice(REGIONS), [], 0, (0, 0, 0, 0, 0), evs, r.chance(1, 2)),
                      "meta": {"stream": "paging", "expected": exp, "seeds": sd.split(","), "npages": len(evs)}})
        # the same listing with silence after the last page removed (server goes silent mid-listing) is C01's business
    return cases


def parse_filter_string(fs):
    """independent reading of the request's filter string per the protocol's grammar"""
    if not fs.endswith(b"\x00"):
        return None
    body = fs[:-1]
    if not body:
        return [[], [], []]
    if body[:1] != b"\\":
        return None
    toks = body[1:].split(b"\\")
    if len(toks) % 2:
        return None
    pairs = [(toks[i].decode("latin1"), toks[i + 1]) for i in range(0, len(toks), 2)]
    groups = [[], [], []]
    i = 0
    while i < len(pairs):
        k, v = pairs[i]
        if k in ("nand", "nor"):
            if not v.isdigit():
                return None
            nn = int(v)
            if i + 1 + nn > len(pairs) or nn == 0:
                return None
            groups[1 if k == "nand" else 2] += pairs[i + 1:i + 1 + nn]
            i += 1 + nn
        else:
            groups[0].append((k, v)); i += 1
    return [sorted(g) for g in groups]


def oracle(case, impl, side):
    res, trace = split_result(impl)
    m = case["meta"]
    if "PANIC" in (res or "") or res == "ABORT":
        return ("panic", "panicked: " + side[:200])
    sends = [t.split(":", 1) for t in (trace or "").split(";") if t.startswith("S")]
    if m["stream"].startswith("filter"):
        if len(sends) != 1:
            return ("request-count", "expected one request, saw %d" % len(sends))
        data = bytes.fromhex(sends[0][1])
        if data[:1] != b"1":
            return ("payload-shape", "request does not start with '1'")
        z = data.find(b"\x00", 2)
        if z < 0 or data[2:z].decode("latin1") != m["seed"]:
            return ("payload-seed", "seed address field is %r, expected %s" % (data[2:z], m["seed"]))
        got = parse_filter_string(data[z + 1:])
        want = [[(k, bytes.fromhex(v)) for k, v in grp] for grp in m["groups"]]
        if got is None:
            return ("filter-grammar", "filter string not in the protocol's grammar: %r" % data[z + 1:][:120])
        if got != [sorted(g) for g in want]:
            return ("filter-groups", "filter string %r denotes %r, expected %r" % (data[z + 1:][:120], got, want))
    else:
        if res != m["expected"]:
            return ("paging-result", "complete query returned %s expected %s" % (res[:200], m["expected"][:200]))
        seeds = []
        for _, d in sends:
            data = bytes.fromhex(d)
            z = data.find(b"\x00", 2)
            seeds.append(data[2:z].decode("latin1"))
        if seeds != m["seeds"]:
            return ("paging-seeds", "follow-up requests seeded with %s expected %s" % (seeds[:8], m["seeds"][:8]))
    return None


def nontrivial(case, model):
    m = case["meta"]
    return m.get("nops", 0) >= 2 or m.get("npages", 0) >= 2
