"""C18 - settings are validated; no accepted configuration can panic."""
import itertools
from valve_common import *

ID = "C18"
PROPS_FILE = "C18"
COQ_TARGETS = ["Props/C18.vo"]
TRUSTED = [
    "Coq 8.16.1 kernel; theorems closed under the global context (the usable-without-panic corollary inherits C01's hypothesis on the bzip2 oracle)",
    "extraction, driver, Rust harness: settings are built by TimeoutSettings::new, Default, clap (try_parse_from on a struct that flattens Option<TimeoutSettings> as the CLI does) and serde_json::from_str, then used for a valve query under the scripted transport, whose apply_timeout still runs set_read/write_timeout on a real socket",
    "clap's argument handling and serde's Duration deserialisation are trusted; modelled: the value parsers (str::parse::<u64>, zero refused), defaults, the try_from validation",
    "for retry counts above 10^6 the extracted model abstains (unary fuel); those cases are judged by the oracle on the implementation only",
    "runtime behaviour of extreme durations on real sockets / ureq is exercised here only through set_read_timeout / set_write_timeout (partial)",
]
RULE = ("(read, write, connect) in {None, 0, 1 ns, 1 ms, 1 s, u64::MAX s}^3 x retries in {0, 1, 2, usize::MAX-1, usize::MAX} x construction path {new, Default, clap flags, serde}, "
        "clap flag texts from {absent, 0, 00, +0, 1, +7, 4, 18446744073709551615, 18446744073709551616, empty, x, 1.5, ' 3'}; each accepted setting is then used for a Valve query on a valid reply script, six accepted settings with nanosecond / largest durations and the largest retry counts also for Unreal 2 (three gather settings), Quake 3, GameSpy 1 / 2 / 3 and the single-game queries (FFOW, Savage 2, JC2-MP, Mindustry, The Ship, Battalion 1944) on valid reply scripts, those with an extreme duration also by an HTTP-based query (Eco) against a closed port "
        "(and, for small retry counts, on a silent one; for the largest counts also on a script whose first attempt times out or fails to send); non-trivial = a zero duration or an extreme value is involved; distinct by case bytes")

DURS = [None, (0, 0), (0, 1), (0, 1000000), (1, 0), (18446744073709551615, 0), (18446744073709551615, 999999999)]
RETRIES = [0, 1, 2, 18446744073709551614, 18446744073709551615]
TEXTS = [None, b"0", b"00", b"+0", b"1", b"+7", b"4", b"18446744073709551615", b"18446744073709551616", b"", b"x", b"1.5", b" 3", b"-1"]


def enc_dur(d):
    return b"\x00" if d is None else b"\x01" + d[0].to_bytes(8, "big") + d[1].to_bytes(4, "big")


def enc_text(t):
    return b"\x00" if t is None else b"\x01" + len(t).to_bytes(2, "big") + t


def settings_case(path, port, events):
    return (bytes([18]) + path + port.to_bytes(2, "big") + enc_events(events) + b"\x00\x00\x00").hex()


def expect(durs):
    return "reject" if any(d == (0, 0) for d in durs) else "accept"


def gen_cases(tier, rng):
    # a valid exchange for engine Source(None) with default gather settings
    base = None
    for seed in range(1, 400):
        s = specs([seed], gather=(1, 1, True))[0]
        if s["settings"][3] == 0 and s["expected"].startswith("Ok(") and len(s["dgs"]) <= 8:
            base = s
            break
    valid = list(base["dgs"])
    port = int(base["tags"]["port"])
    cases = []
    r = rng.fork("c18")
    n = 0
    for rd, wr, co in itertools.product(DURS, repeat=3):
        for retries in RETRIES:
            if tier == "quick" and retries in (2,) and r.below(2):
                continue
            for tag in (0, 3):
                path = bytes([tag]) + (enc_dur(rd) + enc_dur(wr) + enc_dur(co) if tag == 0 else enc_dur(co) + enc_dur(rd) + enc_dur(wr)) + retries.to_bytes(8, "big")
                evs = valid if (retries > 2 or r.chance(2, 3)) else []
                cases.append({"id": "p%d/%d" % (tag, n), "hex": settings_case(path, port, evs),
                              "meta": {"stream": "new" if tag == 0 else "serde", "expect": expect([rd, wr, co]), "valid": bool(evs),
                                       "extreme": retries > 2 or any(d is not None and (d[0] == 0 or d[0] > 1) for d in (rd, wr, co))}})
                n += 1
    # the largest retry counts with a first attempt that fails: the retry bookkeeping itself must not overflow
    for retries in (1, 18446744073709551614, 18446744073709551615):
        for fault in ("silent", "sendfail", "silent-twice"):
            path = bytes([0]) + enc_dur((1, 0)) * 3 + retries.to_bytes(8, "big")
            evs = ([None, None] if fault == "silent-twice" else [None] if fault == "silent" else []) + valid
            if fault == "silent-twice" and retries == 1:
                continue
            hexcase = (bytes([18]) + path + port.to_bytes(2, "big") + enc_events(evs) + b"\x00\x00"
                       + (bytes([1]) + (0).to_bytes(2, "big") if fault == "sendfail" else b"\x00")).hex()
            cases.append({"id": "retry-%s/%d" % (fault, retries), "hex": hexcase,
                          "meta": {"stream": "new", "expect": "accept", "valid": True, "extreme": True}})
    # accepted settings used by an HTTP-based query (Eco, against a port nobody listens on): the client must be built and the query must return
    for rd, wr, co in itertools.product(DURS, repeat=3):
        if expect([rd, wr, co]) == "accept" and any(d is not None and d[0] > 1 for d in (rd, wr, co)) or (rd, wr, co) in (((1, 0),) * 3, (None, None, None)):
            hexcase = (bytes([53]) + enc_dur(rd) + enc_dur(wr) + enc_dur(co) + (0).to_bytes(8, "big")).hex()
            cases.append({"id": "http/%d" % n, "hex": hexcase, "meta": {"stream": "http-client", "expect": "accept", "valid": False, "extreme": True, "http": True}})
            n += 1
    cases += other_protocol_rows(tier, rng)
    cases.append({"id": "default", "hex": settings_case(bytes([1]), port, valid), "meta": {"stream": "default", "expect": "accept", "valid": True, "extreme": False}})
    texts = TEXTS if tier != "quick" else TEXTS
    for c, rdt, wrt in itertools.product(texts, repeat=3):
        if tier == "quick" and r.below(3):
            continue
        rt = r.choice([None, None, b"0", b"1", b"2", b"18446744073709551615", b"18446744073709551616", b"x", b""])
        path = bytes([2]) + enc_text(c) + enc_text(rdt) + enc_text(wrt) + enc_text(rt)

        def ok(t):
            if t is None:
                return True
            tt = t[1:] if t[:1] == b"+" else t
            return tt.isdigit() and int(tt) <= 18446744073709551615 and int(tt) != 0 and not t.startswith(b"-")
        rok = rt is None or ((rt[1:] if rt[:1] == b"+" else rt).isdigit() and int(rt) <= 18446744073709551615)
        big = rt is not None and rok and int(rt) > 2
        evs = valid if (big or r.chance(2, 3)) else []
        cases.append({"id": "clap/%d" % n, "hex": settings_case(path, port, evs),
                      "meta": {"stream": "clap", "expect": "accept" if (ok(c) and ok(rdt) and ok(wrt) and rok) else "reject", "valid": bool(evs),
                               "extreme": True, "zero": any(t in (b"0", b"00", b"+0") for t in (c, rdt, wrt))}})
        n += 1
    return cases


EXTREME_TS = [
    {"connect": (0, 1), "read": (0, 1), "write": (0, 1), "retries": 0},
    {"connect": None, "read": (0, 1), "write": None, "retries": 2},
    {"connect": (0, 1000000), "read": (0, 1000000), "write": (0, 1), "retries": 1},
    {"connect": (18446744073709551615, 0), "read": (18446744073709551615, 999999999), "write": (18446744073709551615, 0), "retries": 18446744073709551615},
    {"connect": (1, 0), "read": None, "write": (0, 1), "retries": 18446744073709551614},
    {"connect": None, "read": None, "write": None, "retries": 2},
]


def other_protocol_rows(tier, rng):
    """accepted settings with nanosecond / largest durations and the largest retry counts, used by the other protocol entry points
    (Unreal 2 with and without its optional sections, Quake 3, GameSpy 1 / 2 / 3) on a valid reply script"""
    from u2_common import u2_specs, u2_case
    from quake_common import quake_specs, quake_case
    from gs_common import gs_specs, gs_case
    r = rng.fork("c18-protocols")
    out = []
    k = 2 if tier == "quick" else 12
    seeds = [r.next() >> 1 for _ in range(k)]
    rows = []
    for gather in ((1, 1), (2, 2), (0, 1)):
        for sp in u2_specs(seeds, gather):
            rows.append(("unreal2", lambda ts, sp=sp, gather=gather: u2_case(7778, gather, ts, sp["events"])))
    for sp in quake_specs([(x, 3) for x in seeds]):
        if sp["expected"].startswith("Some("):
            rows.append(("quake3", lambda ts, sp=sp: quake_case(27960, 3, ts, [sp["dg"]])))
    for ver in (1, 2, 3):
        for sp in gs_specs(ver, seeds):
            if sp["fits"]:
                rows.append(("gamespy%d" % ver, lambda ts, sp=sp, ver=ver: gs_case(ver, 7777, 0, ts, sp["events"])))
    # the single-game protocols (FFOW, Savage 2, JC2-MP, Mindustry, The Ship, Battalion 1944): harness family 50
    names = {0: "ffow", 1: "savage2", 2: "jc2m", 3: "mindustry", 4: "theship", 5: "battalion1944"}
    outs = run_model([(bytes([150, g]) + x.to_bytes(8, "big")).hex() for g in range(6) for x in seeds[:2]])
    for (g, x), o in zip([(g, x) for g in range(6) for x in seeds[:2]], outs):
        head = o.split("|")[0]
        evs = [bytes.fromhex(h) for h in head.split(",")] if head else []
        if evs and (g < 4 or o.split("|")[1].startswith("Ok(")):
            rows.append(("game-" + names[g], lambda ts, g=g, evs=evs: (bytes([50, g]) + (5000).to_bytes(2, "big") + enc_ts(ts) + enc_events(evs) + b"\x00\x00\x00").hex()))
    for i, (proto, mk) in enumerate(rows):
        for j, ts in enumerate(EXTREME_TS):
            out.append({"id": "proto/%s/%d/%d" % (proto, i, j), "hex": mk(ts),
                        "meta": {"stream": "other-protocols", "proto": proto, "expect": "accept", "valid": True, "extreme": True}})
    return out


def oracle(case, impl, side):
    m = case["meta"]
    if impl is None:
        return ("no-output", "no output")
    if "PANIC" in impl or impl == "ABORT":
        loc = side.split("panicked at ")[-1].split(":")[0] if "panicked at " in side else "?"
        return ("panic:" + loc, "an accepted configuration panicked when used (%s): %s" % (side[:200], impl[:120]))
    if m.get("proto"):
        res = split_result(impl)[0] or ""
        if not res.startswith("Ok("):
            return ("query-failed:" + m["proto"], "%s query with accepted settings on a valid reply failed: %s" % (m["proto"], impl[:200]))
        return None
    if m.get("http"):
        if not impl.startswith("Ok(settings);Err("):
            return ("http-client", "accepted settings used by an HTTP query against a closed port: %s" % impl[:200])
        return None
    head = impl.split(";", 1)[0]
    if m["expect"] == "reject":
        if not head.startswith("Err(InvalidInput"):
            return ("zero-accepted:" + m["stream"], "a configuration with a zero duration (or an invalid flag) was accepted by the %s path: %s" % (m["stream"], head[:120]))
    else:
        if not head.startswith("Ok("):
            return ("valid-rejected:" + m["stream"], "a valid configuration was rejected by the %s path: %s" % (m["stream"], head[:120]))
        if m["valid"] and not impl.split(";", 1)[1].startswith("Ok("):
            return ("query-failed", "query with accepted settings on a valid reply failed: " + impl[:200])
    return None


def nontrivial(case, model):
    return case["meta"]["extreme"]
