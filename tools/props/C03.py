"""C03 - Minecraft status replies decode exactly; auto-detect order holds."""
import json
from vlib import *
from valve_common import enc_ts, split_result
from view_common import enc_tree, Float

ID = "C03"
PROPS_FILE = "C03"
COQ_TARGETS = ["Props/C03.vo"]
TRUSTED = [
    "Coq 8.16.1 kernel; theorems closed under the global context",
    "hand-written model Model/Minecraft.v of games/minecraft/protocol/*.rs; serde_json::from_str is an oracle: the case carries the parsed value of each JSON text (computed with Python's json, strict mode, keys sorted as serde_json's BTreeMap does); Value indexing / as_str / as_i64 / as_u64 / as_bool / to_string are modelled",
    "Spec/MinecraftSpec.v: status values, their wire forms in the five formats, expected responses, and a world = the set of variants a server speaks (all 32 subsets), generated from the seed inside Coq",
    "correspondence: extraction, driver, harness running the real protocol::{query, query_java, query_bedrock, query_legacy, query_legacy_specific} under the scripted transport (TCP streams are read_to_end)",
]
RULE = ("seed-generated worlds: each of the 32 subsets of {Java, Bedrock, legacy 1.6, 1.4, beta 1.8} x how an unspoken variant fails (refused, garbage, empty stream); statuses with strings over ASCII, multi-byte, control characters, quotes, backslashes, section signs; "
        "Java statuses of 20-60 KB (a large favicon, sizes around 32767 bytes); optional members present / absent / null, sample of 0-3 players, description as text, chat component or absent, member order varied, unknown members, trailing pong packet; Bedrock 6-12 fields with and without trailing separator; u32 counts and i32 protocol numbers at the boundaries; "
        "each world is queried with the auto query and with each specific query it speaks; mutations: framing bytes flipped, streams truncated; the games-level functions with the port omitted against a Bedrock-only server and silence (destination ports of every connection);  non-trivial = a response is expected; distinct by case bytes")


def enc_script(udp, tcp):
    out = len(udp).to_bytes(2, "big")
    for ev in udp:
        out += b"\x00" if ev is None else b"\x01" + len(ev).to_bytes(4, "big") + ev
    out += len(tcp).to_bytes(2, "big")
    for c in tcp:
        if c is None:
            out += b"\x00"
        else:
            out += bytes([2 if c[1] else 1]) + len(c[0]).to_bytes(4, "big") + c[0]
    return out + b"\x00"


def strict_json(text):
    """parsed value as a tree (keys sorted by their UTF-8 bytes), or None when not valid JSON for serde_json"""
    def bad(_):
        raise ValueError("constant")
    try:
        s = text.decode("utf-8")
        v = json.loads(s, parse_constant=bad)
    except (ValueError, RecursionError):
        return None

    def conv(x):
        if isinstance(x, bool) or x is None:
            return x
        if isinstance(x, int):
            return x if -2**63 <= x < 2**64 else {"$float": 1}
        if isinstance(x, float):
            return {"$float": 1}
        if isinstance(x, str):
            x.encode("utf-8")      # lone surrogates raise
            return x
        if isinstance(x, list):
            return [conv(y) for y in x]
        return dict((k, conv(x[k])) for k in sorted(x, key=lambda k: k.encode("utf-8")))
    try:
        return ("ok", conv(v))
    except UnicodeEncodeError:
        return None


def varint(data, i):
    r = 0
    for k in range(5):
        if i >= len(data):
            return None, i
        b = data[i]; i += 1
        r |= (b & 0x7f) << (7 * k)
        if k == 4 and b & 0xf0:
            return None, i
        if not b & 0x80:
            break
    return r & 0xffffffff, i


def java_json_of(stream):
    """the JSON text the client will hand to serde_json for this stream, if it gets that far"""
    n, i = varint(stream, 0)
    if n is None:
        return None
    pid, i = varint(stream, i)
    if pid != 0:
        return None
    ln, i = varint(stream, i)
    if ln is None:
        return None
    if ln >= 2**31:
        ln = ln - 2**32 + 2**64      # i32 as usize
    if len(stream) - i < ln:
        return None
    return stream[i:i + ln]


def mc_case(variant, port, udp, tcp, jsons):
    tbl = bytes([len(jsons)])
    for t in jsons:
        p = strict_json(t)
        tbl += len(t).to_bytes(4, "big") + t + (b"\x00" if p is None else b"\x01" + enc_tree(p[1]))
    return (bytes([33, variant]) + port.to_bytes(2, "big") + b"\x00" + enc_ts(None) + enc_script(udp, tcp) + tbl).hex()


def parse_spec(o):
    parts = o.split("|")
    udp = [None if x == "T" else bytes.fromhex(x) for x in parts[0].split(",")] if parts[0] else []
    tcp = []
    for x in (parts[1].split(",") if parts[1] else []):
        if x == "R":
            tcp.append(None)
        elif x.startswith("s"):
            tcp.append((bytes.fromhex(x[1:]), True))
        else:
            tcp.append((bytes.fromhex(x), False))
    tags = dict(kv.split("=", 1) for kv in parts[-1].split(";"))
    return udp, tcp, "|".join(parts[2:-2]), bytes.fromhex(parts[-2]), tags


def gen_cases(tier, rng):
    n = 160 if tier == "quick" else 8000
    cases = []
    seeds = [rng.fork("w/%d" % i).next() % (1 << 48) for i in range(n)]
    reqs = [(s, v) for s in seeds for v in (0, 1, 2, 4, 5, 6)]
    outs = run_model([(bytes([133]) + s.to_bytes(8, "big") + bytes([v])).hex() for s, v in reqs])
    for (s, v), o in zip(reqs, outs):
        if o == "SKIP" or o.startswith("BADCASE"):
            continue
        udp, tcp, expected, js, tags = parse_spec(o)
        port = 25565 if s % 3 else 1024 + s % 50000
        jsons = [js] if js else []
        cases.append({"id": "mc/%d/%d" % (v, s), "hex": mc_case(v, port, udp, tcp, jsons),
                      "meta": {"stream": ["auto", "java", "bedrock", "legacy", "v1_6", "v1_4", "vb1_8"][v], "expected": expected, "conns": tags["conns"],
                               "ok": expected.startswith("Ok(")}})
        # malformed: flip a framing byte or truncate the stream that is used
        r = rng.fork("mut/%d/%d" % (s, v))
        udp2, tcp2 = list(udp), list(tcp)
        if tcp2 and any(c is not None and c[0] for c in tcp2) and (not udp2 or r.chance(2, 3)):
            idx = [i for i, c in enumerate(tcp2) if c is not None and c[0]]
            i = r.choice(idx)
            d = bytearray(tcp2[i][0])
            if r.chance(1, 2):
                d[r.below(min(len(d), 8))] ^= 1 << r.below(8)
            else:
                d = d[:r.below(len(d))]
            tcp2[i] = (bytes(d), r.chance(1, 6))
        elif udp2 and udp2[0] is not None:
            d = bytearray(udp2[0])
            if r.chance(1, 2):
                d[r.below(len(d))] ^= 1 << r.below(8)
            else:
                d = d[:r.below(len(d))]
            udp2[0] = bytes(d)
        jsons2 = set(jsons)
        for c in tcp2:
            if c is not None:
                t = java_json_of(c[0])
                if t is not None:
                    jsons2.add(t)
        cases.append({"id": "mc/mut/%d/%d" % (v, s), "hex": mc_case(v, port, udp2, tcp2, sorted(jsons2)),
                      "meta": {"stream": "malformed", "ok": False}})
    cases += large_status_rows(tier, seeds, outs, reqs)
    cases += module_port_rows(tier, rng, seeds, outs, reqs)
    return cases


def _varint(n):
    out = b""
    while True:
        b = n & 0x7f
        n >>= 7
        if n:
            out += bytes([b | 0x80])
        else:
            return out + bytes([b])


def large_status_rows(tier, seeds, outs, reqs):
    """Java statuses whose JSON document is large (a favicon of 20 KB .. 60 KB, around the 32767 mark): the
    length prefix counts UTF-8 bytes and has no such limit"""
    rows = []
    sizes = (20000, 32700, 32768, 33000, 60000)     # the case encoding carries strings of up to 65535 bytes
    done = 0
    for (s, v), o in zip(reqs, outs):
        if v not in (0, 1) or o == "SKIP" or o.startswith("BADCASE") or done >= (4 if tier == "quick" else 40):
            continue
        udp, tcp, expected, js, tags = parse_spec(o)
        if not js or not expected.startswith("Ok(") or b'"favicon"' in js or js[:1] != b"{" or js[1:2] == b"}" or "favicon:None" not in expected:
            continue
        idx = [i for i, c in enumerate(tcp) if c is not None and java_json_of(c[0]) == js]
        if not idx:
            continue
        stream, flag = tcp[idx[0]]
        n0, i0 = varint(stream, 0)
        tail = stream[i0 + n0:]
        for size in sizes[:(3 if tier == "quick" and done else len(sizes))]:
            fav = b"data:image/png;base64," + b"A" * size
            js2 = b'{"favicon":"' + fav + b'",' + js[1:]
            inner = _varint(0) + _varint(len(js2)) + js2
            tcp2 = list(tcp)
            tcp2[idx[0]] = (_varint(len(inner)) + inner + tail, flag)
            want = expected.replace("favicon:None", 'favicon:Some("%s")' % fav.decode("ascii"))
            rows.append({"id": "mc/large/%d/%d/%d" % (v, s, size), "hex": mc_case(v, 25565, udp, tcp2, [js2]),
                         "meta": {"stream": "java-large-status", "expected": want, "conns": tags["conns"], "ok": True}})
        done += 1
    return rows


MODULE_PORTS = {"minecraft": ({25565}, {19132}), "minecraftjava": ({25565}, set()), "minecraftbedrock": (set(), {19132}), "minecraftpocket": (set(), {19132}),
                "minecraftlegacy16": ({25565}, set()), "minecraftlegacy14": ({25565}, set()), "minecraftlegacyb18": ({25565}, set())}


def module_port_rows(tier, rng, seeds, outs, reqs):
    """the games-level functions with the port omitted: every variant is asked on its own default port
    (Java and legacy TCP 25565, Bedrock UDP 19132), against a server that speaks Bedrock only and against silence"""
    import C14
    pongs = []
    for (s, v), o in zip(reqs, outs):
        if v == 2 and o != "SKIP" and not o.startswith("BADCASE"):
            udp, tcp, expected, js, tags = parse_spec(o)
            if expected.startswith("Ok(") and udp and udp[0] is not None:
                pongs.append(udp[0])
    rows = []
    for mod in MODULE_PORTS:
        for i, evs in enumerate([[]] + [[p] for p in pongs[:(3 if tier == "quick" else 40)]]):
            rows.append({"id": "modport/%s/%d" % (mod, i), "hex": C14.paths_case(mod, mod, None, None, evs),
                         "meta": {"stream": "module-default-port", "module": mod, "pong": bool(evs), "ok": bool(evs) and mod in ("minecraft", "minecraftbedrock", "minecraftpocket")}})
    return rows


def oracle(case, impl, side):
    m = case["meta"]
    if impl is None:
        return ("no-output", "no output")
    if m["stream"] == "module-default-port":
        if "d=[" not in side:
            return ("no-module-run", "the module %s was not run: %s" % (m["module"], side[:200]))
        d = side.split("d=[", 1)[1].rsplit("];", 1)[0]
        res, trace = split_result(d)
        tcp = set(int(t[1:].split("c")[0].split(":")[0]) for t in (trace or "").split(";") if t[:1] == "T")
        udp = set(int(t[1:].split(":")[0]) for t in (trace or "").split(";") if t[:1] == "U")
        want = MODULE_PORTS[m["module"]]
        if (tcp, udp) != want:
            return ("default-port:" + m["module"], "games::minecraft %s with the port omitted: TCP connections to %s and UDP sockets to %s, the variants' default ports are TCP %s / UDP %s"
                    % (m["module"], sorted(tcp), sorted(udp), sorted(want[0]), sorted(want[1])))
        if m["ok"] and not (res or "").startswith("Ok("):
            return ("default-port:" + m["module"], "games::minecraft %s with the port omitted against a Bedrock server on its default port: %s" % (m["module"], (res or "")[:200]))
        return None
    res, trace = split_result(impl)
    if "PANIC" in impl or impl in ("ABORT", "HANG"):
        return ("panic:" + m["stream"], "minecraft query does not return: %s %s" % (impl[:80], side[:200]))
    if "expected" in m:
        if res != m["expected"]:
            return ("decode-mismatch:" + m["stream"], "a %s query returns %s, the server's status is %s" % (m["stream"], res[:500], m["expected"][:500]))
        conns = "".join(e[0] for e in trace.split(";") if e[:1] in ("T", "U"))
        if conns != m["conns"]:
            return ("connections:" + m["stream"], "connections opened %s, expected %s" % (conns, m["conns"]))
    return None


def nontrivial(case, model):
    return case["meta"].get("ok", False)
