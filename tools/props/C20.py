"""C20 - the game-id naming checker is total and self-consistent."""
import json, re
from vlib import *

ID = "C20"
PROPS_FILE = "C20"
COQ_TARGETS = ["Props/C20.vo"]
TRUSTED = [
    "Coq 8.16.1 kernel; theorems closed under the global context",
    "hand-written model Model/IdCheck.v of crates/id-tests/src/{lib,utils}.rs over ASCII names and ids (a byte >= 128 is outside the model: char::is_alphabetic / to_lowercase are modelled for ASCII only)",
    "roman_numeral 0.1.0 from_string / get are modelled from the crate's source; number_to_words 0.1.1 is an oracle: the case carries its answers (obtained from the real crate through harness family 31), the theorems hold for every oracle",
    "correspondence: extraction (ExtrOcamlBasic only), OCaml driver, Rust harness calling the real test_game_name_rules with stdout silenced",
    "HashMap seen_ids is modelled as an association list (only get / insert / contains_key are used, never iteration)",
]
RULE = ("names generated from the documented grammar (capitalised words, lower-case particles, dotted acronyms, roman numerals, leading / inner / trailing numbers, digit-letter compounds (also hyphenated to the next piece: R2-D2, WW2-Online), hyphenated words, apostrophes and colons, bracketed year or edition, ' - Mod' suffix); "
        "for each name: two probes with different wrong ids (the ids the checker itself reports), then candidate ids = each reported id, its upper-case and mixed-case forms, a truncated and an extended form, a random id; lists of 1-4 games with shared names / colliding acronyms, and lists in which a later name continues an earlier one (edition or trailing number written out as words); the shipped definitions table; "
        "non-trivial = name with a number, numeral, hyphen, bracket or mod suffix; distinct by case bytes")

WORDS = ["Dead", "Cells", "Team", "Fortress", "Left", "Day", "Days", "Defeat", "Dragons", "Star", "Wars", "Battlefront", "Grand", "Theft", "Auto",
         "Unreal", "Tournament", "Minecraft", "Quake", "Arena", "Half", "Life", "Dino", "Just", "Cause", "Dark", "Hour", "Europe", "Age", "Empires"]
PARTICLES = ["of", "the", "to", "and", "in", "for", "a"]
ACRONYMS = ["S.T.A.L.K.E.R.", "F.E.A.R.", "A.R.K", "R.U.S.E."]
ROMANS = ["II", "III", "IV", "V", "VI", "IX", "XIV", "X", "MIX", "DC", "I", "XL", "MMXX", "IIII", "VX", "LIV"]
HYPH = ["D-Day", "Half-Life", "Counter-Strike", "Multi-Theft", "Co-op", "Sci-Fi"]
EDITIONS = ["java", "bedrock", "Legacy 1.6", "pocket", "2nd Edition", "GOTY"]
MODS = ["FiveM", "Multiplayer", "JC3MP", "San Andreas Multiplayer", "Mod 2", "Co-op Mod"]


def gen_name(r):
    parts = []
    tags = set()
    n = 1 + r.below(4)
    if r.chance(1, 8):
        parts.append(str(r.choice([7, 2, 44, 100, 1944, 0, 65536, 100000, 12, 3])))
        tags.add("leadnum")
    for i in range(n):
        k = r.below(20)
        if k < 9:
            parts.append(r.choice(WORDS))
        elif k < 11:
            parts.append(r.choice(PARTICLES) if parts else r.choice(WORDS))
        elif k < 12:
            parts.append(r.choice(ACRONYMS)); tags.add("acronym")
        elif k < 14 and parts:
            parts.append(r.choice(ROMANS)); tags.add("roman")
        elif k < 15:
            parts.append(str(r.choice([4, 2, 3, 2003, 1942, 64, 9]))); tags.add("innernum")
        elif k < 16:
            parts.append(r.choice(HYPH)); tags.add("hyphen")
        elif k < 17:
            w = r.choice(WORDS) + str(r.choice([2, 3, 64, 2142]))
            if r.chance(1, 3):
                w += "-" + r.choice(WORDS + ["D2", "2", "Online"])      # letters-digits hyphenated to the next piece
                tags.add("hyphen")
            parts.append(w); tags.add("compound")
        elif k < 18:
            parts.append(r.choice(["'44-'45", "1944-1945", "Europe '44-'45", "2-4-6"])); tags.add("numrange")
        elif k < 19:
            parts.append(r.choice(WORDS) + ":"); tags.add("punct")
        else:
            parts.append(r.choice(WORDS) + "'s"); tags.add("punct")
    if r.chance(1, 3):
        parts.append(str(r.choice([2, 3, 4, 2003, 2004, 1942, 2142, 64])))
        tags.add("trailnum")
    name = " ".join(parts)
    if r.chance(1, 7):
        name += " - " + r.choice(MODS)
        tags.add("mod")
    if r.chance(1, 5):
        name += " (%d)" % r.choice([2005, 2008, 2013, 2017, 1999, 70000])
        tags.add("year")
    elif r.chance(1, 8):
        name += " (%s)" % r.choice(EDITIONS)
        tags.add("edition")
    return name, tags


def digit_keys(names):
    keys = set()
    for n in names:
        for m in re.finditer(r"\d+", n):
            keys.add(m.group(0))
        # numbers joined across dashes / punctuation: '44-'45 -> 4445
        for m in re.finditer(r"(?:[^\w\s]*\d+[^\w\s]*-)+[^\w\s]*\d+", n):
            keys.add(re.sub(r"\D", "", m.group(0)))
        if "-" in n:      # the mod part is parsed on its own
            keys |= set(digit_keys([n.split("-", 1)[1]]))
    return sorted(keys)


def enc16(b):
    return len(b).to_bytes(2, "big") + b


def id_case(table, games):
    out = bytes([30, len(table)])
    for k, v in table:
        out += enc16(k.encode()) + enc16(v)
    out += bytes([len(games)])
    for i, n in games:
        out += enc16(i.encode()) + enc16(n.encode())
    return out.hex()


def n2w_table(names):
    keys = digit_keys(names)
    outs = run_impl([(bytes([31]) + enc16(k.encode())).hex() for k in keys])
    return [(k, bytes.fromhex(o)) for k, o in zip(keys, outs) if o and re.fullmatch(r"[0-9a-f]*", o)]


def parse_fails(line):
    """Ok([{"id","name","expected",RULES},...]) -> list of (id, expected, rules)"""
    if not line or not line.startswith("Ok(["):
        return None
    return [(m.group(1), m.group(2), m.group(3)) for m in re.finditer(r'\{"((?:[^"\\]|\\.)*)","(?:[^"\\]|\\.)*","((?:[^"\\]|\\.)*)",(\w*)\}', line)]


def gen_cases(tier, rng):
    r = rng.fork("names")
    nnames = 150 if tier == "quick" else 8000
    names = {}
    for t in ("Test Game", "S.T.A.L.K.E.R", "Dino D-Day", "Grand Theft Auto XIV", "7 Days to Die", "Darkest Hour: Europe '44-'45",
              "Grand Theft Auto V - FiveM (2013)", "Just Cause 3 - Multiplayer", "Left 4 Dead", "65536 Days to Die", "1944-1945 Darkest Hour Europe (2008)",
              "Minecraft (java)", "Unreal Tournament 2003", "", "-", "(2008)", "A - B - C", "Half-Life 2 - Deathmatch",
              "R2-D2", "Left4-Dead Redux", "Formula1-Manager", "WW2-Online", "Star Wars R2-D2 Adventures", "Quake3-Arena", "A1-B", "Dead4-", "X2- Y", "Team9-5 Fortress"):
        names[t] = {"corpus"}
    while len(names) < nnames:
        n, tags = gen_name(r)
        names.setdefault(n, tags)
    # the class of names the parser documents as a panic: text after "<number>-"
    known_panic = ["2-Player Game", "Catch 22-Caliber", "Alpha 44-Bravo Charlie"]
    allnames = list(names) + known_panic
    table = n2w_table(allnames)
    tbl = dict(table)

    def tbl_for(ns):
        ks = set(digit_keys(ns))
        return [(k, tbl[k]) for k in sorted(ks) if k in tbl]

    # probes: two different wrong ids per name
    probes = []
    for n in names:
        for wid in ("zz9wrongid", "qq7other"):
            probes.append(id_case(tbl_for([n]), [(wid, n)]))
    pout = run_impl(probes)
    cases = []
    j = 0
    for n, tags in names.items():
        a, b = pout[j], pout[j + 1]
        j += 2
        fa, fb = parse_fails(strip(a)), parse_fails(strip(b))
        ea = sorted(set(e for _, e, rules in (fa or []) if rules != "L"))
        eb = sorted(set(e for _, e, rules in (fb or []) if rules != "L"))
        meta = {"stream": "probe", "name": n, "tags": sorted(tags), "expected_other_probe": eb, "probe": True}
        cases.append({"id": "probe/%d" % (j // 2), "hex": probes[j - 2], "meta": meta})
        if fa is None:
            continue
        cands = set()
        for e in ea:
            cands |= {e, e.upper(), e.capitalize(), e[:-1], e + "x", e + "2"}
        cands.add(r.choice(["abc", "tf2", "x", ""]))
        for c in sorted(cands):
            cases.append({"id": "cand/%d/%s" % (j // 2, c), "hex": id_case(tbl_for([n]), [(c, n)]),
                          "meta": {"stream": "candidate", "name": n, "tags": sorted(tags), "reported": ea, "cand": c}})
    for n in known_panic:
        cases.append({"id": "numdash/" + n, "hex": id_case(tbl_for([n]), [("x", n)]),
                      "meta": {"stream": "number-dash-text", "name": n, "tags": ["numdash"]}})
    # lists of 1-4 games: shared names, colliding acronyms, years, editions
    nl = list(names)
    for k in range(60 if tier == "quick" else 4000):
        m = 1 + r.below(4)
        base = r.choice(nl)
        games = []
        for i in range(m):
            q = r.below(6)
            if q == 0:
                n = base
            elif q == 1:
                n = re.sub(r" \(\d+\)$", "", base) + " (%d)" % r.choice([2005, 2017, 1999])
            elif q == 2:
                n = re.sub(r" \([^)]*\)$", "", base) + " (%s)" % r.choice(EDITIONS)
            else:
                n = r.choice(nl)
            games.append(n)
        ids = []
        for n in games:
            ids.append(r.choice(["wrong%d" % len(ids)] + (names.get(n) and [] or [])))
        # propose the ids the checker itself expects (from a first pass) for about half of the lists
        first = strip(run_impl([id_case(tbl_for(games), [("w%d" % i, n) for i, n in enumerate(games)])])[0])
        f1 = parse_fails(first) or []
        exp = {}
        for fid, e, rules in f1:
            if rules != "L":
                exp[fid] = e
        if r.chance(1, 2):
            ids = [exp.get("w%d" % i, "w%d" % i) for i in range(len(games))]
        cases.append({"id": "list/%d" % k, "hex": id_case(tbl_for(games), list(zip(ids, games))),
                      "meta": {"stream": "list", "tags": ["list"], "n": m}})
    # lists in which a later name continues an earlier one: an edition or a trailing number written out as words,
    # so that the later id collides with a stored one whose words are a prefix of the later name's words
    forced = []
    for w in ["Minecraft", "Dead Cells", "Unreal Tournament", "Quake", "Team Fortress", "Just Cause"][:(3 if tier == "quick" else 6)]:
        for ed in ("java", "bedrock", "pocket"):
            forced.append([w, "%s (%s)" % (w, ed), "%s %s" % (w, ed.capitalize())])
            forced.append(["%s (%s)" % (w, ed), "%s %s" % (w, ed.capitalize())])
            forced.append(["%s %s" % (w, ed.capitalize()), "%s (%s)" % (w, ed), w])
        for a, b in (("23", "2 3"), ("2003", "200 3"), ("44", "4 4")):
            forced.append(["%s %s" % (w, a), "%s %s" % (w, b)])
            forced.append(["%s %s" % (w, b), "%s %s" % (w, a), w])
    ftable = n2w_table([n for g in forced for n in g])
    ftbl = dict(ftable)
    for k, games in enumerate(forced):
        tb = [(x, ftbl[x]) for x in digit_keys(games) if x in ftbl]
        first = strip(run_impl([id_case(tb, [("w%d" % i, n) for i, n in enumerate(games)])])[0])
        exp = {fid: e for fid, e, rules in (parse_fails(first) or []) if rules != "L"}
        for mode in ("wrong", "expected"):
            ids = ["w%d" % i for i in range(len(games))] if mode == "wrong" else [exp.get("w%d" % i, "w%d" % i) for i in range(len(games))]
            cases.append({"id": "prefix/%d/%s" % (k, mode), "hex": id_case(tb, list(zip(ids, games))),
                          "meta": {"stream": "list-name-continues-earlier", "tags": ["list"], "n": len(games), "name": " | ".join(games)}})
    # the shipped table
    try:
        gs = json.load(open(BUILD + "/gen/games.json"))
        pairs = [(g["id"], g["name"]) for g in gs]
        cases.append({"id": "shipped-table", "hex": id_case(tbl_for([n for _, n in pairs]), pairs),
                      "meta": {"stream": "shipped", "tags": ["shipped"], "shipped": True}})
    except OSError:
        pass
    return cases


def strip(line):
    return line.split("\t#", 1)[0] if line else line


def oracle(case, impl, side):
    m = case["meta"]
    if impl is None:
        return ("no-output", "no output")
    if "PANIC" in impl or impl == "ABORT":
        if m["stream"] == "number-dash-text":
            return ("panic:text-after-number-dash", "the checker panics on %r: %s" % (m["name"], side[:160]))
        return ("panic", "the checker panics on %r: %s" % (m.get("name", case["id"]), side[:200]))
    fails = parse_fails(impl)
    if fails is None:
        return ("bad-output", impl[:200])
    if m.get("probe"):
        mine = sorted(set(e for _, e, rules in fails if rules != "L"))
        if mine != m["expected_other_probe"]:
            return ("expected-depends-on-proposed-id", "name %r: expected ids %s with one wrong id, %s with another" % (m["name"], mine, m["expected_other_probe"]))
    if m["stream"] == "candidate":
        accepted = fails == []
        should = m["cand"] in m["reported"]
        if accepted != should:
            return ("accepts-unreported" if accepted else "rejects-reported",
                    "name %r, id %r: %s, while the checker reports %s as expected" % (m["name"], m["cand"], "accepted" if accepted else "rejected " + impl[:200], m["reported"]))
    if m.get("shipped") and fails:
        return ("shipped-table-fails", "the shipped definitions table does not pass: " + impl[:300])
    return None


def nontrivial(case, model):
    return len(set(case["meta"].get("tags", [])) - {"corpus"}) > 0
