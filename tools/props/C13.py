"""C13 - no reply can make a query reserve unbounded memory."""
from valve_common import *
from quake_common import quake_specs, quake_case
from u2_common import u2_specs, u2_case
from gs_common import gs_specs, gs_case

ID = "C13"
PROPS_FILE = "C13"
COQ_TARGETS = ["Props/C13.vo"]
TRUSTED = [
    "Coq 8.16.1 kernel; theorems closed under the global context (Section hypothesis: the bzip2 oracle returns a value or an error)",
    "extraction, driver, Rust harness with a counting global allocator (largest single request and peak live bytes per case) + scripted transport hook",
    "allocator internals and std collections' growth policy are measured, not modelled; the model records only field-driven reservations (Reserve events)",
    "reservation theorems: valve (and The Ship, Battalion 1944), quake, unreal2, gamespy one/two/three, JC2-MP, Savage 2, Mindustry, Minecraft Bedrock; FFOW, Minecraft Java / legacy and the HTTP-based Eco query are measured through the same allocator only",
]
RULE = ("extreme values written into every length / count / size / index position of Spec-generated valid scripts (split headers, compressed size and CRC, player and rule counts, "
        "string terminators; a compressed reply whose valid bzip2 stream expands to 32-96 MiB behind a small announced size; GameSpy: maxplayers / numplayers / query ids as huge numbers, a huge part number inside the GameSpy 1 query id, a large index in the name of every kind of per-player variable, table row counts, field offsets; Unreal 2 announced counts; JC2M and Mindustry lengths; Eco over HTTP (real loopback web server): a Content-Length header announcing 17 MiB .. 2^64-1 bytes in front of a short body, honest length / chunked / close-delimited replies as controls; Minecraft Java packet / id / string length VarInts up to 2^31-1) plus the C01 malformed stream; the implementation's measured largest single allocation must be <= 16 MiB, peak live <= 64 MiB, and the number of "
        "datagrams sent <= 3 (retries+1) + datagrams received; non-trivial = a length/count field was altered; distinct by case bytes")
MIB = 1 << 20


def gen_cases(tier, rng):
    cases = []
    nseeds = 200 if tier == "quick" else 5000
    seeds = [rng.next() >> 1 for _ in range(nseeds)]
    sp = specs(seeds, compressed_every=2)
    r = rng.fork("c13")
    for s in sp:
        base = list(s["dgs"])
        # hot offsets: split headers (bytes 4..20 of fe packets), counts right after the reply type byte
        for j in range(8 if tier == "quick" else 12):
            evs = list(base)
            idx = [i for i, e in enumerate(evs) if e]
            i = r.choice(idx)
            d = evs[i]
            if d[:1] == b"\xfe":
                pos = 4 + r.below(16)
            else:
                pos = 5 + r.below(4)
            x = r.choice(EXTREME)
            evs[i] = d[:pos] + x + d[pos + len(x):]
            ts = None if r.chance(2, 3) else {"retries": r.below(3)}
            cases.append({"id": "hot/%d/%d" % (s["seed"], j), "hex": assemble(with_ts(s["settings"], ts), evs, s["bz"]),
                          "meta": {"stream": "hot-offsets", "retries": 0 if ts is None else ts["retries"], "n": len(evs)}})
        for tag, evs in count_field_cases(s):
            cases.append({"id": "count/%d/%s" % (s["seed"], tag), "hex": assemble(s["settings"], evs, s["bz"]),
                          "meta": {"stream": "count-fields", "retries": 0, "n": len(evs)}})
        for j, (tag, evs) in enumerate(reordered_extreme_cases(s, r)):
            cases.append({"id": "reorder/%d/%d" % (s["seed"], j), "hex": assemble(s["settings"], evs, s["bz"]),
                          "meta": {"stream": "reordered-extreme", "retries": 0, "n": len(evs)}})
        for j in range(3):
            kind, evs = mutate(base, r)
            cases.append({"id": "mut/%d/%d" % (s["seed"], j), "hex": assemble(s["settings"], evs, s["bz"]),
                          "meta": {"stream": "mutations", "retries": 0, "n": len(evs)}})
    qs = quake_specs([(rng.next() >> 1, 1 + (i % 3)) for i in range(120 if tier == "quick" else 3000)])
    for q in qs:
        for j in range(6):
            kind, evs = mutate([q["dg"]], r)
            cases.append({"id": "qmut/%d/%d" % (q["seed"], j), "hex": quake_case(27960, q["ver"], None, evs),
                          "meta": {"stream": "quake-mutations", "retries": 0, "n": len(evs)}})
    for u in u2_specs([rng.next() >> 1 for _ in range(120 if tier == "quick" else 3000)], (1, 2)):
        info = u["events"][0]
        # the announced player / max player counts are the last 8 bytes of the info reply
        for v in (b"\xff\xff\xff\xff\xff\xff\xff\xff", b"\x40\x42\x0f\x00\x40\x42\x0f\x00", b"\xff\xff\xff\x7f\x00\x00\x00\x00", b"\x33\x00\x00\x00\xff\xff\xff\xff"):
            evs = [info[:-8] + v] + u["events"][1:]
            cases.append({"id": "ucnt/%d/%s" % (u["seed"], v.hex()), "hex": u2_case(7778, None, None, evs),
                          "meta": {"stream": "unreal2-counts", "retries": 0, "n": len(evs)}})
        for j in range(4):
            kind, evs = mutate(u["events"], r)
            cases.append({"id": "umut/%d/%d" % (u["seed"], j), "hex": u2_case(7778, None, None, evs),
                          "meta": {"stream": "unreal2-mutations", "retries": 0, "n": len(evs)}})
    # GameSpy: counts and indexes are text (maxplayers, numplayers, player_<n>, table rows, field offsets)
    for ver in (1, 2, 3):
        for g in [x for x in gs_specs(ver, [rng.next() >> 1 for _ in range(80 if tier == "quick" else 2000)]) if x["fits"]]:
            for j in range(6):
                evs = list(g["events"])
                i = r.below(len(evs))
                d = evs[i]
                k = r.below(4)
                if ver == 1 and k < 3 and j % 2 == 1:
                    # an index in the name of a per-player variable, for every kind of per-player variable
                    kindn = [b"team", b"player", b"playername", b"ping", b"face", b"skin", b"mesh", b"frags", b"ngsecret", b"deaths", b"health"][(g["seed"] + j) % 11]
                    big = r.choice([b"300000", b"1000000", b"4000000", b"65536", b"4294967295"])
                    ins = b"\\" + kindn + b"_" + big + b"\\1"
                    cut = d.find(b"\\final\\")
                    d = (d[:cut] + ins + d[cut:]) if cut >= 0 and r.chance(1, 2) else d + ins
                elif ver == 1 and k < 3:
                    big = r.choice([b"4294967295", b"4000000000", b"18446744073709551615", b"99999999999999999999", b"65536"])
                    what = r.choice([b"\\maxplayers\\", b"\\numplayers\\", b"\\player_", b"\\queryid\\"])
                    d = d + what + big + (b"\\x" if what == b"\\player_" else b"")
                elif ver == 2 and k < 3 and len(d) > 8:
                    # a table's row count byte: the byte after a zero byte following the variables
                    pos = [p for p in range(5, len(d) - 1) if d[p] == 0 and d[p - 1] == 0]
                    if pos:
                        p0 = r.choice(pos)
                        d = d[:p0 + 1] + bytes([r.choice([255, 254, 128, 64])]) + d[p0 + 2:]
                elif ver == 3 and k < 3 and len(d) > 20:
                    # a field offset byte: after "<name>_\0"
                    pos = [p for p in range(5, len(d) - 1) if d[p] == 0 and d[p - 1] == 0x5f]
                    if pos:
                        p0 = r.choice(pos)
                        d = d[:p0 + 1] + bytes([r.choice([255, 254, 128])]) + d[p0 + 2:]
                else:
                    kind, evs = mutate(evs, r)
                    d = None
                if d is not None:
                    evs[i] = d
                cases.append({"id": "gs%d/%d/%d" % (ver, g["seed"], j), "hex": gs_case(ver, 7777, 0, None, evs),
                              "meta": {"stream": "gamespy%d-counts" % ver, "retries": 0, "n": len(evs)}})
    # GameSpy 1: the part number in the query id ("<id>.<part>") is an index chosen by the server
    for g in [x for x in gs_specs(1, [rng.next() >> 1 for _ in range(20 if tier == "quick" else 300)]) if x["fits"]]:
        for j, big in enumerate([b"50000000", b"300000000", b"4294967295", b"18446744073709551615", b"65536"]):
            evs = list(g["events"])
            i = r.below(len(evs))
            d = evs[i]
            at = d.find(b"\\queryid\\")
            if at >= 0 and j % 2 == 0:
                end = d.find(b"\\", at + 9)
                end = len(d) if end < 0 else end
                dot = d.find(b".", at + 9, end)
                d = d[:dot + 1] + big + d[end:] if dot >= 0 else d[:end] + b"." + big + d[end:]
            else:
                cut = d.find(b"\\final\\")
                ins = b"\\queryid\\7." + big
                d = (d[:cut] + ins + d[cut:]) if cut >= 0 else d + ins
            evs[i] = d
            cases.append({"id": "gs1part/%d/%d" % (g["seed"], j), "hex": gs_case(1, 7777, 0, None, evs),
                          "meta": {"stream": "gamespy1-part-number", "retries": 0, "n": len(evs)}})
    cases += bomb_cases(tier)
    cases += http_cases(tier, rng)
    # Minecraft Java: the packet length, packet id and string length VarInts of the status reply at their extremes
    import C01
    for c in C01.mc_framing_cases(tier, rng.fork("mcframe")):
        c["meta"] = {"stream": "minecraft-java-framing", "retries": 0, "n": 1}
        cases.append(c)
    # single-game protocols: JC2M player count, Mindustry lengths, the Valve-based ones
    for game in range(6):
        seeds_g = [rng.next() >> 1 for _ in range(40 if tier == "quick" else 1000)]
        outs = run_model([(bytes([150, game]) + x.to_bytes(8, "big")).hex() for x in seeds_g])
        for x, o in zip(seeds_g, outs):
            evs0 = [bytes.fromhex(h) for h in o.split("|")[0].split(",")] if o.split("|")[0] else []
            if not evs0 or max(len(e) for e in evs0) > 1400:
                continue
            for j in range(4):
                kind, evs = mutate(evs0, r)
                if r.chance(1, 2) and evs and evs[-1]:
                    d = evs[-1]
                    pos = r.below(len(d))
                    xv = r.choice(EXTREME)
                    evs[-1] = d[:pos] + xv + d[pos + len(xv):]
                cases.append({"id": "game%d/%d/%d" % (game, x, j),
                              "hex": (bytes([50, game]) + (5000).to_bytes(2, "big") + enc_ts(None) + enc_events(evs) + b"\x00\x00\x00").hex(),
                              "meta": {"stream": "single-games", "retries": 0, "n": len(evs)}})
    return cases


def http_cases(tier, rng):
    """Eco over HTTP: a valid document behind a Content-Length that announces far more than the web server sends (it closes
    after the document), and honest replies of every framing as controls: whatever the header says, the query may not
    reserve memory by it."""
    import C07
    r = rng.fork("c13-http")
    out = []
    head = b"HTTP/1.1 200 OK\r\nContent-Type: application/json; charset=utf-8\r\nServer: Kestrel\r\n"
    announced = (17 << 20, 256 << 20, 1 << 30, (1 << 30) + 1, 1 << 32, 1 << 40, (1 << 63) - 1, (1 << 64) - 1)
    for i in range(3 if tier == "quick" else 40):
        st = C07.eco_gen_state(r, long_text=(i % 2 == 1))
        body = C07.eco_json_text(st, r)
        for mode in ("length", "chunked", "close"):
            reply, close = C07.eco_http(body, mode, r)
            out.append({"id": "http/honest/%s/%d" % (mode, i), "hex": C07.eco_case(i % 2 == 1, reply, close, C07.eco_tree(body)),
                        "meta": {"stream": "eco-http", "retries": 0, "n": 1}})
        for a in announced:
            reply = head + b"Content-Length: %d\r\n\r\n" % a + body
            # the body ends before the announced length: the reader reports the cut (no document)
            out.append({"id": "http/announced-%d/%d" % (a, i), "hex": C07.eco_case(i % 2 == 1, reply, True, None),
                        "meta": {"stream": "eco-http-announced", "retries": 0, "n": 1}})
    return out


def bomb_cases(tier):
    """A compressed split reply whose bzip2 stream is valid but expands far beyond the size it announces: the oracle
    table holds what the bounded decoder yields (announced size + 1 bytes), the client must not expand the rest."""
    import bz2, zlib
    info = b"\xff\xff\xff\xff\x49\x11" + b"srv\x00map\x00dir\x00Game\x00" + b"\x0a\x00" + bytes([3, 16, 0, 0x64, 0x6c, 0, 1]) + b"1.0\x00" + b"\x00"
    players = b"\xff\xff\xff\xff\x44\x00"
    out = []
    for tag, total, announced in (("48m-64", 48 << 20, 64), ("96m-4096", 96 << 20, 4096), ("32m-100000", 32 << 20, 100000))[:(2 if tier == "quick" else 3)]:
        comp = bz2.compress(bytes(total), 9)
        seen = bytes(announced + 1)
        h = b"\xfe\xff\xff\xff" + (0x80000000 | 77).to_bytes(4, "little") + bytes([1, 0]) + (1248).to_bytes(2, "little")
        h += announced.to_bytes(4, "little") + (zlib.crc32(bytes(announced)) & 0xffffffff).to_bytes(4, "little")
        bzt = bytes([1]) + len(comp).to_bytes(4, "big") + comp + announced.to_bytes(4, "big") + b"\x01" + len(seen).to_bytes(4, "big") + seen
        settings = bytes([10]) + (27015).to_bytes(2, "big") + b"\x00" + bytes([1, 1, 2, 0]) + enc_ts(None)
        out.append({"id": "bomb/" + tag, "hex": assemble(settings, [info, players, h + comp], bzt),
                    "meta": {"stream": "decompression-bomb", "retries": 0, "n": 3}})
    return out


def oracle(case, impl, side):
    res, trace = split_result(impl)
    if impl == "ABORT" or res == "ABORT":
        return ("abort", "process aborted (allocation failure)")
    if "capacity overflow" in side or "memory allocation" in side:
        return ("capacity-overflow", side[:200])
    a = parse_alloc(side)
    if a is not None:
        if a[0] > 16 * MIB:
            return ("single-allocation", "one allocation of %d bytes (> 16 MiB) for a script of %d datagrams" % (a[0], case["meta"]["n"]))
        if a[1] > 64 * MIB:
            return ("peak-live", "peak of %d live bytes (> 64 MiB)" % a[1])
    if trace is not None:
        toks = trace.split(";")
        sends = sum(1 for t in toks if t.startswith("S"))
        recvs = sum(1 for t in toks if t.startswith("R"))
        if sends > 3 * (case["meta"]["retries"] + 1) + recvs:
            return ("too-many-sends", "%d datagrams sent for %d receives, retries %d" % (sends, recvs, case["meta"]["retries"]))
    return None


def nontrivial(case, model):
    return True


def extra_runs(tier, rng, ctx):
    worst = 0
    for i in ctx["impl"]:
        a = parse_alloc(i.split("\t#", 1)[1]) if i and "\t#" in i else None
        if a:
            worst = max(worst, a[0])
    return [], {"largest_single_allocation_observed": worst,
                "covered_entry_points": ["valve::query", "theship", "battalion1944", "quake one/two/three", "unreal2::query", "gamespy one/two/three (+ variables-only)", "jc2m", "savage2",
                                         "mindustry", "minecraft bedrock / java / legacy / auto"],
                "covered_by_measurement_only": ["eco (HTTP, loopback web server)", "ffow"]}
