"""C08 - multi-datagram responses do not depend on arrival order."""
import itertools
from valve_common import *
from u2_common import u2_specs, u2_case
from gs_common import gs_specs, gs_case

ID = "C08"
PROPS_FILE = "C08"
COQ_TARGETS = ["Props/C08.vo"]
TRUSTED = [
    "Coq 8.16.1 kernel; theorems closed under the global context",
    "extraction (ExtrOcamlBasic), extract/driver.ml, Rust harness + scripted transport hook",
    "Spec encoders for the split formats (Spec/*Spec.v)",
]
RULE = ("responses with 2-6 fragments from the extracted Spec generator; every permutation of the fragments of one reply (exhaustive up to 5 fragments, "
        "sampled at 6), every single-fragment duplication at every position of in-order arrival, and for Valve and GameSpy 1 / 3 responses of 3 and 4 fragments a duplicate at every position of every arrival order; sections gathered with Enforce so that a failing section fails the query; "
        "non-trivial = the arrival order differs from in-order or a duplicate is present; distinct by case bytes")

ENFORCE = (2, 2, True)


def gen_cases(tier, rng):
    cases = []
    nseeds = 60 if tier == "quick" else 400
    maxfrag = 4 if tier == "quick" else 6
    seeds = [rng.next() >> 1 for _ in range(nseeds * 3)]
    sp = [s for s in specs(seeds, compressed_every=5, gather=ENFORCE) if s["expected"].startswith("Ok(")]
    used = 0
    for s in sp:
        groups = reply_groups(s)
        multi = [gi for gi, (ch, body) in enumerate(groups) if 2 <= len(body) <= maxfrag]
        if not multi:
            continue
        used += 1
        if used > nseeds:
            break
        for gi in multi:
            ch, body = groups[gi]
            k = len(body)
            perms = list(itertools.permutations(range(k)))
            if k >= 6:
                r = rng.fork("perm%d" % s["seed"])
                perms = [perms[r.below(len(perms))] for _ in range(200 if tier != "quick" else 20)]
            for pi, perm in enumerate(perms):
                g2 = list(groups)
                g2[gi] = (ch, [body[j] for j in perm])
                cases.append({"id": "perm/%d/%d/%d" % (s["seed"], gi, pi), "hex": assemble(s["settings"], flatten(g2), s["bz"]),
                              "meta": {"stream": "valve-permutation", "expected": s["expected"], "identity": list(perm) == sorted(perm), "k": k}})
            # duplicate fragment j inserted at position pos
            for j in range(k):
                for pos in range(k + 1):
                    b2 = body[:pos] + [body[j]] + body[pos:]
                    g2 = list(groups)
                    g2[gi] = (ch, b2)
                    cases.append({"id": "dup/%d/%d/%d/%d" % (s["seed"], gi, j, pos), "hex": assemble(s["settings"], flatten(g2), s["bz"]),
                                  "meta": {"stream": "valve-duplicate", "expected": s["expected"], "k": k}})
            # a duplicate inserted at every position of every arrival order (3 and 4 fragments):
            # the client reads `total` datagrams, so both copies can arrive before a middle-numbered fragment
            if k in (3, 4) and used <= (12 if tier == "quick" else 120):
                for pi, perm in enumerate(perms):
                    if list(perm) == sorted(perm):
                        continue
                    order = [body[j] for j in perm]
                    for j in range(k):
                        for pos in range(k + 1):
                            g2 = list(groups)
                            g2[gi] = (ch, order[:pos] + [body[j]] + order[pos:])
                            cases.append({"id": "permdup/%d/%d/%d/%d/%d" % (s["seed"], gi, pi, j, pos), "hex": assemble(s["settings"], flatten(g2), s["bz"]),
                                          "meta": {"stream": "valve-reordered-duplicate", "expected": s["expected"], "k": k}})
    # Unreal 2 multi-packet lists: permutations of the mutators/rules datagrams and of the player datagrams
    done = 0
    for u in u2_specs([rng.next() >> 1 for _ in range(40 if tier == "quick" else 400)], (2, 2)):
        evs = u["events"]
        ti = evs.index(None)
        mr, pl = evs[1:ti], evs[ti + 1:]
        for which, group in (("mr", mr), ("pl", pl)):
            k = len(group)
            if k < 2 or k > maxfrag:
                continue
            for pi, perm in enumerate(itertools.permutations(range(k))):
                g2 = [group[j] for j in perm]
                script = [evs[0]] + (g2 if which == "mr" else mr) + [None] + (g2 if which == "pl" else pl)
                cases.append({"id": "u2perm/%d/%s/%d" % (u["seed"], which, pi), "hex": u2_case(7778, (2, 2), None, script),
                              "meta": {"stream": "unreal2-permutation", "expected": "Ok(" + u["expected"] + ")", "identity": list(perm) == sorted(perm), "k": k, "proto": "unreal2"}})
    # GameSpy 1 parts and GameSpy 3 splitnum packets: every arrival order, every duplication
    for ver in (1, 3):
        nsp = 0
        for g in gs_specs(ver, [rng.next() >> 1 for _ in range(300 if tier == "quick" else 3000)]):
            evs = g["events"]
            head, frags = ([], evs) if ver == 1 else (evs[:1], evs[1:])
            k = len(frags)
            if not g["fits"] or k < 2 or k > maxfrag:
                continue
            nsp += 1
            if nsp > (25 if tier == "quick" else 300):
                break
            perms = list(itertools.permutations(range(k)))
            if k >= 6:
                rr = rng.fork("gsperm%d" % g["seed"])
                perms = [perms[rr.below(len(perms))] for _ in range(120)]
            for pi, perm in enumerate(perms):
                cases.append({"id": "gs%dperm/%d/%d" % (ver, g["seed"], pi), "hex": gs_case(ver, 7777, 0, None, head + [frags[j] for j in perm]),
                              "meta": {"stream": "gamespy%d-permutation" % ver, "expected": "Ok(" + g["expected"] + ")", "identity": list(perm) == sorted(perm), "k": k}})
            for j in range(k):
                for pos in range(k + 1):
                    f2 = frags[:pos] + [frags[j]] + frags[pos:]
                    cases.append({"id": "gs%ddup/%d/%d/%d" % (ver, g["seed"], j, pos), "hex": gs_case(ver, 7777, 0, None, head + f2),
                                  "meta": {"stream": "gamespy%d-duplicate" % ver, "expected": "Ok(" + g["expected"] + ")", "k": k}})
            # a duplicate inserted at every position of every arrival order (3 and 4 fragments)
            if k in (3, 4) and nsp <= (8 if tier == "quick" else 80):
                for pi, perm in enumerate(itertools.permutations(range(k))):
                    order = [frags[j] for j in perm]
                    for j in range(k):
                        for pos in range(k + 1):
                            f2 = order[:pos] + [frags[j]] + order[pos:]
                            cases.append({"id": "gs%dpermdup/%d/%d/%d/%d" % (ver, g["seed"], pi, j, pos), "hex": gs_case(ver, 7777, 0, None, head + f2),
                                          "meta": {"stream": "gamespy%d-reordered-duplicate" % ver, "expected": "Ok(" + g["expected"] + ")", "k": k}})
    return cases


def oracle(case, impl, side):
    res, _ = split_result(impl)
    exp = case["meta"]["expected"]
    if "PANIC" in (res or "") or res == "ABORT":
        return ("panic", "panicked: " + side[:200])
    if case["meta"]["stream"].endswith("permutation"):
        if res != exp:
            if case["meta"].get("proto") == "unreal2":
                # the recorded finding is about the ORDER of players and rule values; a reordering that changes WHICH
                # players or values come back (another number of them, another content) is something else
                if res.startswith("Ok(") and sorted(res) != sorted(exp):
                    return ("order-dependent:unreal2:content", "Unreal 2: a reordering of the same datagrams changed the content of the response, not only the order of its lists: got %s expected %s" % (res[:300], exp[:300]))
                return ("order-dependent:unreal2", "Unreal 2: a reordering of the same datagrams changed the response (lists carry no sequence numbers)")
            if case["meta"]["stream"].startswith("gamespy"):
                return ("order-dependent:" + case["meta"]["stream"].split("-")[0], "%s: a reordering of the same datagrams changed the result: got %s expected %s" % (case["meta"]["stream"], res[:200], exp[:200]))
            return ("order-dependent", "a reordering of the same datagrams changed the response: got %s expected %s" % (res[:200], exp[:200]))
    else:
        if res.startswith("Ok(") and res != exp:
            return ("duplicate-accepted", "a duplicated fragment produced a different successful response: %s" % res[:200])
    return None


def nontrivial(case, model):
    return not case["meta"].get("identity", False)
