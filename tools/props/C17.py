"""C17 - packet reader and wire codecs conform to the reference model."""
import itertools

ID = "C17"
PROPS_FILE = "C17"
COQ_TARGETS = ["Props/C17.vo"]
MISMATCH_IS_FAILURE = True   # the property *is* conformance to the reference model
TRUSTED = [
    "Coq 8.16.1 kernel (coqc); vm_compute used in Examples only; no axioms (Print Assumptions: closed under the global context)",
    "extraction to OCaml 4.13 with ExtrOcamlBasic only; extract/driver.ml (hex in, text out)",
    "Rust harness (harness/src/cases.rs: op interpreter over the real Buffer via verif_hook re-exports)",
    "modelled, not verified: Rust std (slices, from_utf8, String::from_utf16), byteorder, encoding_rs (WINDOWS_1252 table, UTF_16LE without BOM handling)",
    "overflow checks on (the harness profile enables them, as the test profile does)",
]
RULE = ("exhaustive packets over the alphabet {00,01,7f,80,ff,41} up to a length bound x all op sequences up to a depth bound over 31 ops, "
        "plus packets that begin with a byte order mark (FF FE, FE FF, EF BB BF) under every text decoder, with and without length prefixes, random longer packets/sequences, VarInt boundary values and random strings; a case is non-trivial when the model's "
        "output contains at least one Ok result that consumed >= 1 byte or a non-underflow error; distinct by case bytes")

ALPHA = [0x00, 0x01, 0x7F, 0x80, 0xFF, 0x41]

# op encodings (see coq/Model/Case.v rd_bop)
OPS = [bytes([c]) for c in range(10)] + [
    bytes([10, 0, 1]), bytes([10, 0xFF, 0xFF]), bytes([10, 0, 2]), bytes([10, 0xFF, 0xFE]), bytes([10, 0, 0]),
    bytes([11]), bytes([12, 0x41]), bytes([13]), bytes([14, 0x41]),
    bytes([15]), bytes([16]), bytes([17, 0x41, 0x00]), bytes([18, 0x00, 0x41]),
    bytes([19]), bytes([20]), bytes([21]), bytes([22, 2]), bytes([22, 0]), bytes([23]), bytes([24]),
]


def bufcase(order, pkt, ops):
    return (bytes([1, order]) + len(pkt).to_bytes(2, "big") + pkt + bytes([len(ops)]) + b"".join(ops)).hex()


def gen_cases(tier, rng):
    cases = []
    maxlen, depth = (2, 2) if tier == "quick" else (3, 3)
    pkts = [bytes(p) for n in range(maxlen + 1) for p in itertools.product(ALPHA, repeat=n)]
    seqs = [list(s) for d in range(1, depth + 1) for s in itertools.product(OPS, repeat=d)]
    if tier != "quick":
        # depth 3 over all 31 ops is 29791 sequences; x 259 packets is too many: keep depth 3 for packets <= 2
        pass
    n = 0
    for pkt in pkts:
        for s in seqs:
            if len(s) == 3 and len(pkt) > 2:
                continue
            for order in (0, 1):
                if order == 1 and len(pkt) < 2:
                    continue
                cases.append({"id": "ex/%d" % n, "hex": bufcase(order, pkt, s), "meta": {"stream": "exhaustive"}})
                n += 1
    # one more byte of packet at depth 1
    for pkt in itertools.product(ALPHA, repeat=maxlen + 1):
        for op in OPS:
            for order in (0, 1):
                cases.append({"id": "ex1/%d" % n, "hex": bufcase(order, bytes(pkt), [op]), "meta": {"stream": "exhaustive-depth1"}})
                n += 1
    # random longer packets and sequences
    nrand = 20000 if tier == "quick" else 400000
    r = rng.fork("rand")
    for i in range(nrand):
        ln = r.choice([0, 1, 2, 3, 5, 8, 13, 21, 40, 130, 300])
        mode = r.below(4)
        if mode == 0:
            pkt = r.bytes(ln, ALPHA)
        elif mode == 1:
            pkt = r.bytes(ln)
        elif mode == 2:   # mostly text with terminators
            pkt = bytes(r.choice([0x41, 0x42, 0x20, 0x00, 0xC3, 0xA9, 0x1B, 0x05]) for _ in range(ln))
        else:             # length-prefixed flavoured
            pkt = bytes([r.choice([0, 1, 2, ln & 0x7F, 0x80 | (ln // 2 & 0x7F), 0x83])]) + r.bytes(ln, [0x41, 0x00, 0x01, 0xD8, 0xDC, 0xE9, 0x1B])
        nops = 1 + r.below(8)
        ops = []
        for _ in range(nops):
            if r.chance(1, 8):
                off = r.choice([0, 1, 2, 3, 7, 200, 40000]) * r.choice([1, -1])
                ops.append(bytes([10]) + (off & 0xFFFF).to_bytes(2, "big"))
            elif r.chance(1, 10):
                ops.append(bytes([r.choice([12, 14]), r.below(256)]))
            elif r.chance(1, 10):
                ops.append(bytes([r.choice([17, 18]), r.choice(ALPHA), r.choice(ALPHA)]))
            elif r.chance(1, 12):
                ops.append(bytes([22, r.choice([0, 1, 2, 3, 200])]))
            else:
                ops.append(r.choice(OPS))
        cases.append({"id": "rand/%d" % i, "hex": bufcase(r.below(2), pkt, ops), "meta": {"stream": "random"}})
    # byte order marks: no text decoder may treat a leading FF FE / FE FF / EF BB BF as anything but characters
    boms = [b"\xff\xfe", b"\xfe\xff", b"\xef\xbb\xbf", b"\xef\xbb", b"\xff\xfe\x00\x00", b"\x00\x00\xfe\xff"]
    tails = [b"A\x00B\x00\x00\x00", b"\x00A\x00B\x00\x00", b"AB\x00", b"", b"\x00\x00"]
    text_ops = [bytes([11]), bytes([12, 0x41]), bytes([13]), bytes([14, 0x41]), bytes([15]), bytes([16]), bytes([17, 0x41, 0x00]), bytes([18, 0x00, 0x41]), bytes([19])]
    nb = 0
    for bom in boms:
        for tail in tails:
            body = bom + tail
            pkts_b = [body, bytes([len(body)]) + body, bytes([0x80 | (len(body) // 2)]) + body, bytes([0x80 | ((len(body) + 1) // 2)]) + body + b"\x00",
                      bytes([len(body) + 1]) + body + b"\x00"]
            for pkt in pkts_b:
                for op in text_ops:
                    for order in (0, 1):
                        cases.append({"id": "bom/%d" % nb, "hex": bufcase(order, pkt, [op, bytes([21])]), "meta": {"stream": "byte-order-marks"}})
                        nb += 1
    # VarInt: all boundaries
    vals = set()
    for k in range(33):
        for d in (-2, -1, 0, 1, 2):
            vals.add((1 << k) + d)
            vals.add(-(1 << k) + d)
    for k in range(0, 36, 7):
        for d in range(-3, 4):
            vals.add((1 << k) + d)
    vals |= set(range(0, 300)) | set(range(-300, 0))
    rv = rng.fork("varint")
    for _ in range(3000 if tier == "quick" else 300000):
        vals.add(rv.below(1 << 32) - (1 << 31))
        vals.add(rv.below(1 << rv.choice([7, 8, 14, 15, 21, 22, 28, 29, 31])))
    for v in sorted(vals):
        if -(1 << 31) <= v < (1 << 31):
            cases.append({"id": "vrt/%d" % v, "hex": (bytes([6]) + (v & 0xFFFFFFFF).to_bytes(4, "big")).hex(), "meta": {"stream": "varint-roundtrip", "v": v}})
    # VarInt decodings by continuation-bit class: all 1..5 byte shapes over boundary bytes
    vb = [0x00, 0x01, 0x0F, 0x10, 0x7F, 0x80, 0x81, 0x8F, 0x90, 0xFF]
    cnt = 0
    for ln in range(1, 7):
        combos = itertools.product(vb, repeat=ln) if ln <= (3 if tier == "quick" else 5) else []
        for c in combos:
            cases.append({"id": "vdec/%d" % cnt, "hex": bufcase(0, bytes(c), [bytes([23]), bytes([23])]), "meta": {"stream": "varint-decode"}})
            cnt += 1
    rd = rng.fork("vdec")
    for _ in range(5000 if tier == "quick" else 100000):
        ln = 1 + rd.below(6)
        c = bytes(rd.choice(vb) if rd.chance(2, 3) else rd.below(256) for _ in range(ln))
        cases.append({"id": "vdec/%d" % cnt, "hex": bufcase(0, c, [bytes([23]), bytes([21])]), "meta": {"stream": "varint-decode"}})
        cnt += 1
    # strings
    rs = rng.fork("str")
    for i in range(2000 if tier == "quick" else 50000):
        ln = rs.choice([0, 1, 2, 5, 127, 128, 129, 300, 16383, 16384, 20000]) if rs.chance(1, 4) else rs.below(40)
        kind = rs.below(3)
        if kind == 0:
            s = bytes(0x20 + rs.below(95) for _ in range(ln))
        elif kind == 1:
            s = "".join(chr(rs.choice([0x41, 0xE9, 0x20AC, 0x1F600, 0x0, 0x7FF, 0x800, 0xFFFF, 0x10000, 0x10FFFF])) for _ in range(ln)).encode("utf-8")
        else:
            s = rs.bytes(min(ln, 12))
        cases.append({"id": "srt/%d" % i, "hex": (bytes([7]) + len(s).to_bytes(4, "big") + s).hex(), "meta": {"stream": "string-roundtrip"}})
        if i % 4 == 0:
            cases.append({"id": "senc/%d" % i, "hex": (bytes([3]) + len(s).to_bytes(4, "big") + s).hex(), "meta": {"stream": "string-encode"}})
    for v in range(256):
        cases.append({"id": "lu/%d" % v, "hex": bytes([4, v]).hex(), "meta": {"stream": "utils"}})
    for a, b in itertools.product([0, 1, 68, 69, 70, 0xFFFFFFFF], repeat=2):
        cases.append({"id": "es/%d/%d" % (a, b), "hex": (bytes([5]) + a.to_bytes(4, "big") + b.to_bytes(4, "big")).hex(), "meta": {"stream": "utils"}})
    return cases


def oracle(case, impl, side):
    """The property's own predicate, evaluated on the implementation's output."""
    if impl is None:
        return ("no-output", "harness produced no output")
    if "PANIC" in impl or impl == "ABORT":
        loc = side.split(" at ")[-1].split(":")[0:2] if " at " in side else ["?"]
        return ("panic:" + ":".join(loc), "reader operation panicked (%s): %s" % (side[:200], impl[:200]))
    st = case["meta"]["stream"]
    if st in ("exhaustive", "exhaustive-depth1", "random", "varint-decode"):
        ln, _, rest = impl.partition(":")
        for tok in rest.split(";"):
            if "@" in tok:
                pos = tok.rsplit("@", 1)[1]
                if pos.isdigit() and int(pos) > int(ln):
                    return ("cursor-out-of-packet", "cursor %s beyond packet length %s: %s" % (pos, ln, impl[:200]))
    if st == "varint-roundtrip":
        v = case["meta"]["v"]
        enc, _, dec = impl.partition("=>")
        n = len(enc.strip("[]").split(","))
        if dec != "Ok(%d)@%d" % (v, n) or n > 5:
            return ("varint-roundtrip", "as_varint/get_varint of %d gave %s" % (v, impl))
    if st == "string-roundtrip" and impl != "NOT-UTF8" and not impl.startswith("Err(InvalidInput"):
        from binascii import unhexlify
        raw = unhexlify(case["hex"])[5:]
        body, _, pos = impl.rpartition("@")
        a, _, b = pos.partition("/")
        if a != b or not body.startswith("Ok("):
            return ("string-roundtrip", "as_string/get_string did not round-trip: " + impl[:200])
    return None


def nontrivial(case, model):
    st = case["meta"]["stream"]
    if st in ("varint-roundtrip", "string-roundtrip", "string-encode"):
        return True
    if st == "utils":
        return True
    rest = model.partition(":")[2]
    for tok in rest.split(";"):
        if tok.startswith("Ok(") and not tok.endswith("@0"):
            return True
        if tok.startswith("Err(") and "PacketUnderflow" not in tok:
            return True
    return False
