import sys
sys.path.insert(0, "/verif/tools")
from vlib import run_model
from valve_common import enc_events, enc_ts, split_result


def quake_spec(seed, ver):
    return (bytes([120]) + seed.to_bytes(8, "big") + bytes([ver])).hex()


def quake_specs(seeds_vers):
    outs = run_model([quake_spec(s, v) for s, v in seeds_vers])
    res = []
    for (s, v), o in zip(seeds_vers, outs):
        parts = o.split("|")
        tags = dict(kv.split("=") for kv in parts[-1].split(";"))
        exp = "|".join(parts[1:-1])
        res.append({"seed": s, "ver": v, "dg": bytes.fromhex(parts[0]), "expected": exp, "tags": tags})
    return res


def quake_case(port, ver, ts, events, send_fail=()):
    sf = bytes([len(send_fail)]) + b"".join(i.to_bytes(2, "big") for i in send_fail)
    return (bytes([20]) + port.to_bytes(2, "big") + bytes([ver]) + enc_ts(ts) + enc_events(events) + b"\x00\x00" + sf).hex()
