"""Valve (A2S) case construction shared by C01, C02, C08-C11, C13.
Server states, reply scripts and expected responses come from the extracted
Coq Spec (case family 110); this module only assembles scripts into cases."""
import bz2, sys
sys.path.insert(0, "/verif/tools")
from vlib import run_model


def enc_events(events):
    out = len(events).to_bytes(2, "big")
    for ev in events:
        if ev is None:
            out += b"\x00"
        else:
            out += b"\x01" + len(ev).to_bytes(4, "big") + ev
    return out


def assemble(settings, events, bz=b"\x00", send_fail=()):
    """settings: case prefix (family..timeout settings); events: list of bytes (datagram) or None (timeout)"""
    sf = bytes([len(send_fail)]) + b"".join(i.to_bytes(2, "big") for i in send_fail)
    return (settings + enc_events(events) + b"\x00\x00" + sf + bz).hex()


def parse_spec(line):
    parts = line.split("|")
    if len(parts) < 5:
        raise ValueError("bad spec output: " + line[:200])
    settings = bytes.fromhex(parts[0])
    dgs = [bytes.fromhex(x) for x in parts[1].split(",")] if parts[1] else []
    bz = bytes.fromhex(parts[2])
    tags = {}
    for kv in parts[-1].split(";"):
        k, _, v = kv.partition("=")
        tags[k] = v
    expected = "|".join(parts[3:-1])
    return {"settings": settings, "dgs": dgs, "bz": bz, "expected": expected, "tags": tags}


def spec_case(seed, comps=(None, None, None), gather=None):
    """gather: None (generated) or (players, rules, check) with toggles 0=Skip 1=Try 2=Enforce"""
    b = bytes([110]) + seed.to_bytes(8, "big")
    for c in comps:
        b += b"\x00" if c is None else b"\x01" + len(c).to_bytes(4, "big") + c
    b += b"\x00" if gather is None else bytes([1, gather[0], gather[1], 1 if gather[2] else 0])
    return b.hex()


def enc_ts(ts):
    """ts: None or dict(connect, read, write: None|(secs,nanos); retries)"""
    if ts is None:
        return b"\x00"
    out = b"\x01"
    for k in ("connect", "read", "write"):
        d = ts.get(k, (4, 0))
        out += b"\x00" if d is None else b"\x01" + d[0].to_bytes(8, "big") + d[1].to_bytes(4, "big")
    return out + ts.get("retries", 0).to_bytes(8, "big")


def with_ts(settings, ts):
    """the generated settings end with the encoding of `None` timeout settings"""
    assert settings[-1] == 0
    return settings[:-1] + enc_ts(ts)


def specs(seeds, compressed_every=0, gather=None):
    """Run the extracted Spec on the seeds. compressed_every=k: every k-th seed
    gets bzip2-compressed transports (two passes: the first yields the packets
    to compress)."""
    outs = [parse_spec(l) for l in run_model([spec_case(s, gather=gather) for s in seeds])]
    if compressed_every:
        idx = [i for i in range(len(seeds)) if i % compressed_every == 0]
        second = []
        for i in idx:
            pk = [bytes.fromhex(x) for x in outs[i]["tags"]["pk"].split(",")]
            which = seeds[i] % 7 + 1     # bit mask of replies to compress
            comps = tuple(bz2.compress(p) if (which >> j) & 1 else None for j, p in enumerate(pk))
            second.append(spec_case(seeds[i], comps, gather))
        for i, l in zip(idx, run_model(second)):
            outs[i] = parse_spec(l)
    for o, s in zip(outs, seeds):
        o["seed"] = s
    return outs


def split_result(line):
    """'<result>|<trace>' -> (result, trace)"""
    if line is None:
        return None, None
    i = line.rfind("|")
    return (line[:i], line[i + 1:]) if i >= 0 else (line, "")


def is_split(d):
    return d[:4] == b"\xfe\xff\xff\xff"


def is_challenge(d):
    return d[:5] == b"\xff\xff\xff\xff\x41"


def reply_groups(spec):
    """Partition the script of a spec case into its replies (info, players,
    rules; skipped sections are absent): [(challenge packets, body packets)]"""
    tags, dgs = spec["tags"], spec["dgs"]
    counts = []
    for t in tags["t"].split("/"):
        digits = "".join(c for c in t if c.isdigit())
        counts.append(int(digits) if digits else 1)
    chs = [int(c) for c in tags["ch"]]
    present = [True, tags["g"][1] != "0", tags["g"][3] != "0"]
    groups, i = [], 0
    for k in range(3):
        if not present[k]:
            continue
        if i >= len(dgs):
            break
        ch = dgs[i:i + chs[k]]; i += chs[k]
        body = dgs[i:i + counts[k]]; i += counts[k]
        groups.append((ch, body))
    return groups


def flatten(groups):
    out = []
    for ch, body in groups:
        out += ch + body
    return out


# ---- fault scripts (C10, C11) ----
MALFORMED = b"\xff\xff"          # too short for a packet header: PacketUnderflow, not a timeout
KINDS = [0x54, 0x55, 0x56]


def variants(seed, compressed=False):
    """The same server state under the four present/absent combinations of the
    players and rules sections: {(p, r): spec}. Scripts come from the full one."""
    out = {}
    for p in (1, 0):
        for r in (1, 0):
            out[(p, r)] = specs([seed], compressed_every=1 if compressed else 0, gather=(p, r, True))[0]
    return out


def build_fault_script(groups, vectors):
    """groups: [(challenges, body)] per requested unit; vectors: per unit a list
    of attempt kinds 'silent' | 'sendfail' | 'malformed' | 'valid' | 'chsilent'.
    Returns (events, send_fail indices)."""
    events, fails, sends = [], [], 0
    for (ch, body), vec in zip(groups, vectors):
        for a in vec:
            if a == "silent":
                events.append(None); sends += 1
            elif a == "sendfail":
                fails.append(sends); sends += 1
            elif a == "malformed":
                events.append(MALFORMED); sends += 1
            elif a == "chsilent":
                events.append(b"\xff\xff\xff\xff\x41\x01\x02\x03\x04"); events.append(None); sends += 2
            else:
                events += ch + body; sends += 1 + len(ch)
    return events, fails


def unit_outcome(vec, r):
    """Per the property: attempts are made while the outcome is timeout-class
    and fewer than r+1 have been made. -> ('ok'|'timeout'|'malformed', attempts, last_kind)"""
    made = 0
    last = None
    for a in vec:
        if made >= r + 1:
            break
        made += 1
        last = a
        if a == "valid":
            return "ok", made, a
        if a == "malformed":
            return "malformed", made, a
        # silent / sendfail / chsilent (challenge answered, then silence) are timeout-class
    return "timeout", made, last


def initial_sends(trace, kind):
    """number of initial requests of a kind in a trace (default payload)"""
    pay = "536f7572636520456e67696e6520517565727900" if kind == 0x54 else "ffffffff"
    want = "ffffffff%02x%s" % (kind, pay)
    return sum(1 for t in trace.split(";") if t.startswith("S") and t.split(":", 1)[1] == want)


INFO_PAYLOAD = "536f7572636520456e67696e6520517565727900"


def walk_trace(tags, events, trace):
    """Walk an observed trace against the script. Yields for every send:
    (port, kind_hex, body_hex, last) where last describes what the receive just
    before it returned: None (nothing / timeout / not a receive), ("challenge", payload_hex)
    for an unsplit packet of kind 0x41 received outside a split collection, or ("split",)
    when the last receive belonged to a split collection."""
    gold = tags.get("e") == "gold"
    evs = list(events)
    collecting = 0
    last = None
    out = []
    for tok in trace.split(";"):
        if not tok:
            continue
        if tok[0] == "R":
            ev = evs.pop(0) if evs else None
            if ev is None:
                collecting = 0
                last = None
                continue
            ev = ev[:6144]          # the client reads at most PACKET_SIZE bytes of a datagram
            if collecting > 0:
                collecting -= 1
                last = ("split",)
            elif ev[:1] == b"\xfe" and len(ev) > 8:
                total = (ev[8] & 15) if gold else ev[8]
                collecting = max(total - 1, 0)
                last = ("split",)
            elif len(ev) >= 5 and ev[4] == 0x41:
                # the client does not inspect the 4 header bytes of an unsplit packet
                last = ("challenge", ev[5:].hex())
            else:
                last = None
        elif tok[0] == "S":
            p, _, data = tok[1:].partition(":")
            out.append((p, data[8:10], data[10:], last, data))
            collecting = 0
            last = None
        else:
            last = None if tok[0] not in "UA" else last
    return out


def is_echo(kind, body, last):
    if last is None or last[0] != "challenge":
        return False
    want = (INFO_PAYLOAD + last[1]) if kind == "54" else last[1]
    return body == want


def request_oracle(tags, events, trace):
    """C09 for Valve, evaluated on an observed trace: every datagram sent is an
    initial request (fixed header, kind, default payload) or - immediately after
    a challenge reply - the same request carrying exactly that challenge; all go
    to the query's port; nothing else is sent. events: the script (bytes/None)."""
    port = tags.get("port")
    kind = None
    for p, k, body, last, data in walk_trace(tags, events, trace):
        if port is not None and p != port:
            return "request sent to port %s instead of %s" % (p, port)
        if not data.startswith("ffffffff") or len(data) < 10:
            return "request without the simple header: " + data[:60]
        default = INFO_PAYLOAD if k == "54" else "ffffffff"
        if last is not None and last[0] == "challenge":
            if not (is_echo(k, body, last) and k == kind):
                return "challenge %s not echoed: sent %s" % (last[1][:80], data[:120])
        elif body == default and k in ("54", "55", "56"):
            kind = k
        elif last is not None and last[0] == "split" and k == kind and (k != "54" or body.startswith(INFO_PAYLOAD)):
            # a (malformed) split response reassembled into a challenge packet: the echo carries
            # its payload; only the framing can be checked here
            pass
        else:
            return "not a request of the protocol: " + data[:120]
    return None


def count_attempts(tags, events, trace, kind):
    """number of attempts of the request unit of a kind: initial requests, i.e.
    sends of the default payload that are not the echo of a challenge"""
    k = "%02x" % kind
    default = INFO_PAYLOAD if k == "54" else "ffffffff"
    return sum(1 for p, kk, body, last, data in walk_trace(tags, events, trace)
               if kk == k and body == default and not is_echo(kk, body, last))


# ---- malformed stream (C01, C13) ----
EXTREME = [b"\x00", b"\xff", b"\x7f", b"\x80", b"\x01", b"\xfe",
           b"\xff\xff", b"\x00\x00", b"\xff\x7f", b"\x00\x80",
           b"\xff\xff\xff\xff", b"\x00\x00\x00\x00", b"\xff\xff\xff\x7f", b"\x00\x00\x00\x80", b"\x00\x00\x10\x01", b"\x00\x00\x00\x01"]


def mutate(events, r):
    """one mutation of a script (list of bytes / None); returns (kind, new events)"""
    evs = list(events)
    idx = [i for i, e in enumerate(evs) if e is not None]
    k = r.below(12)
    if not idx:
        return "random", [r.bytes(r.below(40))]
    i = r.choice(idx)
    d = evs[i]
    if k == 0:
        evs[i] = d[:r.below(len(d) + 1)]; return "truncate", evs
    if k == 1:
        evs[i] = d[:min(len(d), 4 + r.below(12))]; return "truncate-head", evs
    if k in (2, 3, 4):
        pos = r.below(max(len(d), 1))
        x = r.choice(EXTREME)
        evs[i] = d[:pos] + x + d[pos + len(x):]; return "extreme@%d" % min(pos, 24), evs
    if k == 5:
        del evs[i]; return "drop", evs
    if k == 6:
        evs.insert(r.below(len(evs) + 1), d); return "duplicate", evs
    if k == 7:
        j = r.choice(idx); evs[i], evs[j] = evs[j], evs[i]; return "swap", evs
    if k == 8:
        evs[i] = b""; return "empty", evs
    if k == 9:
        evs[i] = d + bytes(r.choice([0, 0xff, 0x41]) for _ in range(r.choice([1, 100, 7000, 65000 - len(d) if len(d) < 65000 else 1]))); return "oversize", evs
    if k == 10:
        evs[i] = None; return "timeout", evs
    # k == 11: delete a terminator / flip a single bit
    pos = r.below(max(len(d), 1))
    if d and d[pos] == 0:
        evs[i] = d[:pos] + d[pos + 1:]; return "del-terminator", evs
    evs[i] = d[:pos] + bytes([d[pos] ^ (1 << r.below(8))]) + d[pos + 1:] if d else d
    return "bitflip", evs


def all_truncations(events, which, stride=1):
    d = events[which]
    out = []
    for n in range(0, len(d), stride):
        e2 = list(events); e2[which] = d[:n]; out.append(e2)
    return out


def parse_alloc(side):
    for part in side.split(";"):
        if part.startswith("alloc="):
            a, b = part[6:].split(",")
            return int(a), int(b)
    return None


def count_field_cases(spec):
    """Rewrite the count field of the players / rules replies (single-packet
    replies only) to boundary values: yields (tag, events)."""
    out = []
    for gi, (ch, body) in enumerate(reply_groups(spec)):
        if len(body) != 1 or is_split(body[0]) or len(body[0]) < 6:
            continue
        d = body[0]
        kind = d[4]
        if kind == 0x44:       # players: u8 count
            vals = [b"\x00", b"\x01", b"\xff", b"\x80"]
        elif kind == 0x45:     # rules: u16 count
            vals = [b"\x00\x00", b"\x01\x00", b"\xff\xff", b"\x00\x80", b"\xff\x7f"]
        else:
            continue
        for v in vals:
            groups = list(reply_groups(spec))
            groups[gi] = (ch, [d[:5] + v + d[5 + len(v):]])
            out.append(("count%02x=%s" % (kind, v.hex()), flatten(groups)))
            groups[gi] = (ch, [d[:5] + v])          # announced count, nothing else
            out.append(("count%02x=%s-only" % (kind, v.hex()), flatten(groups)))
    return out


def reordered_extreme_cases(spec, r):
    """Split replies with packet 0 moved away from the front and an extreme
    value written over its size / checksum / total / number fields."""
    out = []
    for gi, (ch, body) in enumerate(reply_groups(spec)):
        if len(body) < 2 or not is_split(body[0]):
            continue
        for rot in (1, len(body) - 1):
            for pos in (8, 9, 10, 12, 16):
                for x in (b"\xff\xff\xff\xff", b"\x00\x00\x00\x04", b"\x00\x00\x10\x01", b"\xff\xff\xff\x7f", b"\x00"):
                    if r.chance(1, 2):
                        continue
                    b2 = list(body)
                    d = b2[0]
                    b2[0] = d[:pos] + x + d[pos + len(x):]
                    b2 = b2[rot:] + b2[:rot]
                    groups = list(reply_groups(spec))
                    groups[gi] = (ch, b2)
                    out.append(("reorder+extreme@%d" % pos, flatten(groups)))
    return out
