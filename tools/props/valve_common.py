"""Valve (A2S) case construction shared by C01, C02, C08-C11, C13.
Server states, reply scripts and expected responses come from the extracted
Coq Spec (case family 110); this module only assembles scripts into cases."""
import bz2, sys
sys.path.insert(0, "/verif/tools")
from vlib import run_model


def enc_events(events):
    out = len(events).to_bytes(2, "big")
    for ev in events:
        if ev is None:
            out += b"\x00"
        else:
            out += b"\x01" + len(ev).to_bytes(4, "big") + ev
    return out


def assemble(settings, events, bz=b"\x00", send_fail=()):
    """settings: case prefix (family..timeout settings); events: list of bytes (datagram) or None (timeout)"""
    sf = bytes([len(send_fail)]) + b"".join(i.to_bytes(2, "big") for i in send_fail)
    return (settings + enc_events(events) + b"\x00\x00" + sf + bz).hex()


def parse_spec(line):
    parts = line.split("|")
    if len(parts) < 5:
        raise ValueError("bad spec output: " + line[:200])
    settings = bytes.fromhex(parts[0])
    dgs = [bytes.fromhex(x) for x in parts[1].split(",")] if parts[1] else []
    bz = bytes.fromhex(parts[2])
    tags = {}
    for kv in parts[-1].split(";"):
        k, _, v = kv.partition("=")
        tags[k] = v
    expected = "|".join(parts[3:-1])
    return {"settings": settings, "dgs": dgs, "bz": bz, "expected": expected, "tags": tags}


def spec_case(seed, comps=(None, None, None)):
    b = bytes([110]) + seed.to_bytes(8, "big")
    for c in comps:
        b += b"\x00" if c is None else b"\x01" + len(c).to_bytes(4, "big") + c
    return b.hex()


def specs(seeds, compressed_every=0):
    """Run the extracted Spec on the seeds. compressed_every=k: every k-th seed
    gets bzip2-compressed transports (two passes: the first yields the packets
    to compress)."""
    outs = [parse_spec(l) for l in run_model([spec_case(s) for s in seeds])]
    if compressed_every:
        idx = [i for i in range(len(seeds)) if i % compressed_every == 0]
        second = []
        for i in idx:
            pk = [bytes.fromhex(x) for x in outs[i]["tags"]["pk"].split(",")]
            which = seeds[i] % 7 + 1     # bit mask of replies to compress
            comps = tuple(bz2.compress(p) if (which >> j) & 1 else None for j, p in enumerate(pk))
            second.append(spec_case(seeds[i], comps))
        for i, l in zip(idx, run_model(second)):
            outs[i] = parse_spec(l)
    for o, s in zip(outs, seeds):
        o["seed"] = s
    return outs


def split_result(line):
    """'<result>|<trace>' -> (result, trace)"""
    if line is None:
        return None, None
    i = line.rfind("|")
    return (line[:i], line[i + 1:]) if i >= 0 else (line, "")
