import sys
sys.path.insert(0, "/verif/tools")
from vlib import run_model
from valve_common import enc_events, enc_ts, split_result


def u2_specs(seeds, gather=(1, 2)):
    outs = run_model([(bytes([122]) + s.to_bytes(8, "big") + bytes(gather)).hex() for s in seeds])
    res = []
    for s, o in zip(seeds, outs):
        parts = o.split("|")
        evs = [None if x == "T" else bytes.fromhex(x) for x in parts[0].split(",")] if parts[0] else []
        tags = dict(kv.split("=") for kv in parts[-1].split(";"))
        res.append({"seed": s, "events": evs, "expected": "|".join(parts[1:-1]), "tags": tags, "gather": gather})
    return res


def u2_case(port, gather, ts, events, send_fail=()):
    g = b"\x00" if gather is None else bytes([1, gather[0], gather[1]])
    sf = bytes([len(send_fail)]) + b"".join(i.to_bytes(2, "big") for i in send_fail)
    return (bytes([22]) + port.to_bytes(2, "big") + g + enc_ts(ts) + enc_events(events) + b"\x00\x00" + sf).hex()
