"""C07 - single-game protocols map every field."""
from vlib import *
from valve_common import enc_events, enc_ts, split_result

ID = "C07"
PROPS_FILE = "C07"
COQ_TARGETS = ["Props/C07.vo"]
TRUSTED = [
    "Coq 8.16.1 kernel; theorems closed under the global context",
    "hand-written models Model/Games.v of games/{ffow,savage2,jc2m,mindustry,theship}/protocol.rs and games/battalion1944.rs on top of the Buffer, Valve and GameSpy 3 models",
    "Spec/GamesSpec.v: wire encoders and expected responses per game, generators driven by the seed inside Coq; The Ship and Battalion 1944 reuse the Valve specification (ValveSpec.v)",
    "correspondence: extraction, driver, harness running each game's real query_with_timeout (query for Battalion 1944) under the scripted transport",
    "Eco: Model/Eco.v models the Info / Response mapping over the parsed JSON value; the JSON text -> value step (serde_json) and HTTP (ureq: Content-Length, chunked, close-delimited bodies) are oracles / run for real: the harness starts a web server on loopback that sends the case's reply, the real eco::query_with_timeout runs against it; the case carries Python's reading of the body (integers exactly, the f64 nearest to every number) for the model, and the check computes the expected response from the state by its own table",
]
RULE = ("seed-generated states per game (numbers at type boundaries, empty and multi-byte strings, Mindustry strings of 127 / 128 / 129 / 200 / 255 bytes, optional trailing mode name, JC2M reported count below / equal / above the listed players and dishonest list count, "
        "FFOW server / environment letters in both cases, The Ship and Battalion 1944 from the Valve state generator with bat_* rules present or absent); mutations: truncation at a random byte, bit flip; "
        "Eco: states with every member at its type's boundaries (u32 0 / 1 / 2^32-1, floats with and without fraction or exponent, empty / multi-byte / escaped strings, descriptions of 5000-20000 bytes, 0-5 player names, 0-3 achievements), members in any order among unknown members, "
        "sent with Content-Length, chunked, or delimited by closing the connection; malformed: a member missing, twice, of another JSON type, out of the u32 range, body cut; an achievements key twice (last value kept); "
        "non-trivial = any; distinct by case bytes")
GAMES = ["ffow", "savage2", "jc2m", "mindustry", "theship", "battalion1944"]
LIMIT = [1400, 1024, 2048, 500, 1400, 1400]


def game_case(game, port, ts, events):
    return (bytes([50, game]) + port.to_bytes(2, "big") + enc_ts(ts) + enc_events(events) + b"\x00\x00\x00").hex()


def gen_cases(tier, rng):
    n = 100 if tier == "quick" else 6000
    cases = []
    for game in range(6):
        seeds = [rng.fork("g%d/%d" % (game, i)).next() % (1 << 48) for i in range(n)]
        outs = run_model([(bytes([150, game]) + s.to_bytes(8, "big")).hex() for s in seeds])
        for s, o in zip(seeds, outs):
            parts = o.split("|")
            tags = dict(kv.split("=", 1) for kv in parts[-1].split(";"))
            evs = [bytes.fromhex(x) for x in parts[0].split(",")] if parts[0] else []
            expected = "|".join(parts[1:-1])
            if int(tags["max"]) > LIMIT[game] or tags.get("wf") == "false":
                continue
            if not expected.startswith("Ok(") and not expected.startswith("Err("):
                expected = "Ok(" + expected + ")"
            port = 2000 + s % 3000
            cases.append({"id": "%s/%d" % (GAMES[game], s), "hex": game_case(game, port, None, evs),
                          "meta": {"stream": GAMES[game], "expected": expected, "req": tags.get("req")}})
            r = rng.fork("mut/%d/%d" % (game, s))
            evs2 = list(evs)
            if evs2:
                i = r.below(len(evs2))
                if r.chance(1, 2):
                    evs2[i] = evs2[i][:r.below(len(evs2[i]) + 1)]
                else:
                    b = bytearray(evs2[i])
                    if b:
                        b[r.below(len(b))] ^= 1 << r.below(8)
                    evs2[i] = bytes(b)
            cases.append({"id": "%s/mut/%d" % (GAMES[game], s), "hex": game_case(game, port, None, evs2),
                          "meta": {"stream": GAMES[game] + "-malformed"}})
    cases += eco_cases(tier, rng)
    return cases


# ---- Eco (HTTP + JSON) ----------------------------------------------------------------------------------
# the members of the Info object: (name in the document, type), and the response field each one goes to
ECO_INFO = [("External", "bool"), ("GamePort", "u32"), ("WebPort", "u32"), ("IsLAN", "bool"), ("Description", "str"), ("DetailedDescription", "str"),
            ("Category", "str"), ("OnlinePlayers", "u32"), ("TotalPlayers", "u32"), ("OnlinePlayersNames", "names"), ("AdminOnline", "bool"),
            ("TimeSinceStart", "f64"), ("TimeLeft", "f64"), ("Animals", "u32"), ("Plants", "u32"), ("Laws", "u32"), ("WorldSize", "str"), ("Version", "str"),
            ("EconomyDesc", "str"), ("SkillSpecializationSetting", "str"), ("Language", "str"), ("HasPassword", "bool"), ("HasMeteor", "bool"),
            ("DistributionStationItems", "str"), ("Playtimes", "str"), ("DiscordAddress", "str"), ("IsPaused", "bool"), ("ActiveAndOnlinePlayers", "u32"),
            ("PeakActivePlayers", "u32"), ("MaxActivePlayers", "u32"), ("ShelfLifeMultiplier", "f64"), ("ExhaustionAfterHours", "f64"), ("IsLimitingHours", "bool"),
            ("ServerAchievementsDict", "dict"), ("RelayAddress", "str"), ("Access", "str"), ("JoinUrl", "str")]
ECO_RESPONSE = [("external", "External"), ("port", "GamePort"), ("query_port", "WebPort"), ("is_lan", "IsLAN"), ("description", "Description"),
                ("description_detailed", "DetailedDescription"), ("description_economy", "EconomyDesc"), ("category", "Category"), ("players_online", "OnlinePlayers"),
                ("players_maximum", "TotalPlayers"), ("players", "OnlinePlayersNames"), ("admin_online", "AdminOnline"), ("time_since_start", "TimeSinceStart"),
                ("time_left", "TimeLeft"), ("animals", "Animals"), ("plants", "Plants"), ("laws", "Laws"), ("world_size", "WorldSize"), ("game_version", "Version"),
                ("skill_specialization_setting", "SkillSpecializationSetting"), ("language", "Language"), ("has_password", "HasPassword"), ("has_meteor", "HasMeteor"),
                ("distribution_station_items", "DistributionStationItems"), ("playtimes", "Playtimes"), ("discord_address", "DiscordAddress"), ("is_paused", "IsPaused"),
                ("active_and_online_players", "ActiveAndOnlinePlayers"), ("peak_active_players", "PeakActivePlayers"), ("max_active_players", "MaxActivePlayers"),
                ("shelf_life_multiplier", "ShelfLifeMultiplier"), ("exhaustion_after_hours", "ExhaustionAfterHours"), ("is_limiting_hours", "IsLimitingHours"),
                ("server_achievements_dict", "ServerAchievementsDict"), ("relay_address", "RelayAddress"), ("access", "Access"), ("connect", "JoinUrl")]
FLOAT_TEXTS = ["0", "0.0", "12.5", "3600", "-1.5", "1e3", "0.1", "86400.25", "1.5e10", "2.5E-3", "4294967296", "123456.789", "1.7976931348623157e308", "-0.75"]
STRS = ["", "Eco", "a b", "caf\u00e9 \u20ac", "tab\there", "quote\"back\\slash", "<b>bold</b>", "\U0001f600", "line\nbreak", "0", "null", "\x01\x7f"]


class Num:
    def __init__(self, text):
        import struct
        self.text = text
        self.z = int(text) if text.lstrip("-").isdigit() else None
        self.bits = struct.unpack("<Q", struct.pack("<d", float(text)))[0]


def show_bytes(b):
    return '"' + "".join(chr(c) if 32 <= c < 127 and c not in (34, 92) else "\\x%02x" % c for c in b) + '"'


def eco_gen_state(r, long_text):
    import json as _json
    st = {}
    for key, ty in ECO_INFO:
        if ty == "bool":
            st[key] = r.chance(1, 2)
        elif ty == "u32":
            st[key] = Num(str(r.choice([0, 1, 2, 3000, 3001, 65535, 65536, 4294967295, r.below(1 << 32)])))
        elif ty == "f64":
            st[key] = Num(r.choice(FLOAT_TEXTS))
        elif ty == "str":
            st[key] = r.choice(STRS) if not r.chance(1, 6) else "".join(chr(r.choice([0x41, 0x7a, 0x20, 0xe9, 0x20ac, 0x22, 0x5c, 0x3c])) for _ in range(r.below(40)))
        elif ty == "names":
            st[key] = [r.choice(STRS) for _ in range(r.below(6))]
        else:
            ks = ["First", "caf\u00e9", "a b", "Z", ""]
            st[key] = dict((k, r.choice(STRS)) for k in ks[:r.below(4)])
    if long_text:
        st["DetailedDescription"] = ("<b>Welcome</b> to the server. " * (200 + r.below(500)))[:5000 + r.below(15000)]
    return st


def eco_json_text(st, r, drop=None, retype=None, dup=None):
    """the document: members in a random order among unknown ones; numbers with the text chosen"""
    import json as _json

    def val(v):
        if isinstance(v, Num):
            return v.text
        if isinstance(v, bool):
            return "true" if v else "false"
        if isinstance(v, str):
            return _json.dumps(v, ensure_ascii=r.chance(1, 2))
        if isinstance(v, list):
            return "[" + ",".join(val(x) for x in v) + "]"
        items = [(k, x) for k, x in v.items()]
        if items and r.chance(1, 3):
            # the same key earlier with another value: a map keeps the last one
            items.insert(0, (items[-1][0], "stale"))
        return "{" + ",".join(_json.dumps(k) + ":" + val(x) for k, x in items) + "}"
    members = [(k, val(st[k])) for k, _ in ECO_INFO if k != drop]
    if dup:
        members.append(dup)
    if retype:
        members = [(k, retype[1] if k == retype[0] else t) for k, t in members]
    for extra in [("Extra", "1"), ("ServerTimeZone", '"UTC"'), ("Nested", '{"Info":{"GamePort":1},"x":[1,2.5,null]}'), ("gamePort", "7"), ("Collaborators", "[]")][:r.below(6)]:
        members.insert(r.below(len(members) + 1), extra)
    for a in range(len(members) - 1, 0, -1):
        if r.chance(1, 2):
            b = r.below(a + 1)
            members[a], members[b] = members[b], members[a]
    sp = " " if r.chance(1, 3) else ""
    info = "{" + ("," + sp).join(_json.dumps(k) + ":" + sp + t for k, t in members) + "}"
    top = [("Info", info)]
    if r.chance(1, 3):
        top.insert(r.below(2), ("Other", '{"Description":"not this one"}'))
    return ("{" + ",".join(_json.dumps(k) + ":" + t for k, t in top) + "}").encode("utf-8")


def eco_http(body, mode, r):
    head = b"HTTP/1.1 200 OK\r\nContent-Type: application/json; charset=utf-8\r\nServer: Kestrel\r\n"
    if mode == "length":
        return head + b"Content-Length: %d\r\n\r\n" % len(body) + body, r.chance(1, 2)
    if mode == "chunked":
        out = head + b"Transfer-Encoding: chunked\r\n\r\n"
        i = 0
        while i < len(body):
            n = r.choice([1, 7, 100, 1000, 4096, 5012, 8192])
            out += b"%x\r\n" % len(body[i:i + n]) + body[i:i + n] + b"\r\n"
            i += n
        return out + b"0\r\n\r\n", r.chance(1, 2)
    return head + b"Connection: close\r\n\r\n" + body, True


class Pairs(list):
    """a JSON object as the list of its members, in document order, duplicates kept"""


def eco_tree(body):
    """what a JSON reader makes of the body: the tree for the model, or None"""
    import json as _json

    def bad(_):
        raise ValueError("constant")
    try:
        v = _json.loads(body.decode("utf-8"), parse_int=Num, parse_float=Num, parse_constant=bad, object_pairs_hook=Pairs)
    except (ValueError, UnicodeDecodeError, RecursionError):
        return None
    return v


def enc_eco_tree(v):
    """the tree encoding of tools/view_common.py, with objects as member lists and numbers as $num nodes"""
    if v is None:
        return b"\x00"
    if v is False:
        return b"\x01"
    if v is True:
        return b"\x02"
    if isinstance(v, Num):
        z = v.z if v.z is not None and abs(v.z) < (1 << 64) else None
        zi = b"\x00" if z is None else b"\x03" + (b"\x01" if z < 0 else b"\x00") + abs(z).to_bytes(8, "big")
        return (b"\x06" + (1).to_bytes(2, "big") + (4).to_bytes(2, "big") + b"$num"
                + b"\x05" + (2).to_bytes(2, "big") + zi + b"\x03\x00" + v.bits.to_bytes(8, "big"))
    if isinstance(v, str):
        b = v.encode("utf-8")
        return b"\x04" + len(b).to_bytes(2, "big") + b
    if isinstance(v, Pairs):
        out = b"\x06" + len(v).to_bytes(2, "big")
        for k, x in v:
            kb = k.encode("utf-8")
            out += len(kb).to_bytes(2, "big") + kb + enc_eco_tree(x)
        return out
    return b"\x05" + len(v).to_bytes(2, "big") + b"".join(enc_eco_tree(x) for x in v)


def eco_expected(st):
    out = []
    for name, key in ECO_RESPONSE:
        v = st[key]
        if isinstance(v, Num):
            ty = dict(ECO_INFO)[key]
            out.append("%s:%s" % (name, str(v.z) if ty == "u32" else "d%d" % v.bits))
        elif isinstance(v, bool):
            out.append("%s:%s" % (name, "true" if v else "false"))
        elif isinstance(v, str):
            out.append("%s:%s" % (name, show_bytes(v.encode("utf-8"))))
        elif isinstance(v, list):
            out.append("%s:[%s]" % (name, ",".join("{name:%s}" % show_bytes(x.encode("utf-8")) for x in v)))
        else:
            items = sorted((show_bytes(k.encode("utf-8")), show_bytes(x.encode("utf-8"))) for k, x in v.items())
            out.append("%s:{%s}" % (name, ",".join("%s:%s" % kv for kv in sorted(items, key=lambda kv: kv[0].encode("latin1", "replace")))))
    return "Ok({" + ",".join(out) + "})"


def eco_case(v6, reply, close, tree):
    enc_tree = enc_eco_tree
    return (bytes([52, 1 if v6 else 0]) + len(reply).to_bytes(4, "big") + reply + bytes([1 if close else 0])
            + (b"\x00" if tree is None else b"\x01" + enc_tree(tree))).hex()


def eco_cases(tier, rng):
    r = rng.fork("eco")
    out = []
    n = 40 if tier == "quick" else 1500
    for i in range(n):
        st = eco_gen_state(r, long_text=(i % 3 == 0))
        mode = ["length", "chunked", "close"][i % 3 if i % 9 else r.below(3)]
        if i % 3 == 0:
            mode = ["chunked", "close", "length"][(i // 3) % 3]
        body = eco_json_text(st, r)
        reply, close = eco_http(body, mode, r)
        out.append({"id": "eco/%d" % i, "hex": eco_case(i % 7 == 3, reply, close, eco_tree(body)),
                    "meta": {"stream": "eco-" + mode, "eco_expected": eco_expected(st), "body": len(body)}})
        # malformed: a member missing, of another JSON type, a count out of range, the body cut short
        k = r.below(5)
        key, ty = ECO_INFO[r.below(len(ECO_INFO))]
        if k == 0:
            body2 = eco_json_text(st, r, drop=key)
        elif k == 1:
            wrong = {"bool": '"true"', "u32": r.choice(["-1", "4294967296", "1.5", '"7"', "null"]), "f64": r.choice(['"1.0"', "null", "true"]), "str": r.choice(["1", "null", "[]"]),
                     "names": r.choice(['["a",1]', '"a"', "{}"]), "dict": r.choice(['{"a":1}', "[]", '"x"'])}[ty]
            body2 = eco_json_text(st, r, retype=(key, wrong))
        elif k == 2:
            body2 = body[:r.below(len(body))]
        elif k == 3:
            body2 = eco_json_text(st, r).replace(b'"Info"', b'"info"', 1)
        else:
            # the member twice (the second time with another value of its type): serde refuses a duplicate field
            body2 = eco_json_text(st, r, dup=(key, {"bool": "false", "u32": "5", "f64": "2.5", "str": '"again"', "names": "[]", "dict": "{}"}[ty]))
        reply2, close2 = eco_http(body2, "length" if k != 2 else "close", r)
        out.append({"id": "eco/bad/%d" % i, "hex": eco_case(False, reply2, close2, eco_tree(body2)),
                    "meta": {"stream": "eco-malformed", "eco_error": True, "body": len(body2)}})
    return out


def oracle(case, impl, side):
    m = case["meta"]
    if impl is None:
        return ("no-output", "no output")
    if m["stream"].startswith("eco"):
        if "PANIC" in impl or impl in ("ABORT", "HANG"):
            return ("panic:eco", "eco query does not return: %s %s" % (impl[:80], side[:200]))
        if "eco_expected" in m and impl != m["eco_expected"]:
            return ("decode-mismatch:" + m["stream"], "an Eco reply of %d bytes (%s) is not returned member by member: got %s, sent %s" % (m["body"], m["stream"], impl[:400], m["eco_expected"][:400]))
        if m.get("eco_error") and impl.startswith("Ok("):
            return ("eco-fabricated", "an Eco reply with a member missing or of the wrong type gave a response: %s" % impl[:300])
        return None
    res, trace = split_result(impl)
    if "PANIC" in impl or impl in ("ABORT", "HANG"):
        return ("panic:" + m["stream"], "query does not return: %s %s" % (impl[:80], side[:200]))
    if "expected" in m:
        if res != m["expected"]:
            return ("decode-mismatch:" + m["stream"], "the reply of a %s server is not returned field by field: got %s, sent %s" % (m["stream"], res[:500], m["expected"][:500]))
        if m.get("req"):
            sends = [e.split(":", 1)[1] for e in trace.split(";") if e.startswith("S")]
            if sends != m["req"].split(","):
                return ("requests:" + m["stream"], "requests %s, the protocol asks for %s" % (sends, m["req"]))
    return None


def nontrivial(case, model):
    return True
