"""C07 - single-game protocols map every field."""
from vlib import *
from valve_common import enc_events, enc_ts, split_result

ID = "C07"
PROPS_FILE = "C07"
COQ_TARGETS = ["Props/C07.vo"]
TRUSTED = [
    "Coq 8.16.1 kernel; theorems closed under the global context",
    "hand-written models Model/Games.v of games/{ffow,savage2,jc2m,mindustry,theship}/protocol.rs and games/battalion1944.rs on top of the Buffer, Valve and GameSpy 3 models",
    "Spec/GamesSpec.v: wire encoders and expected responses per game, generators driven by the seed inside Coq; The Ship and Battalion 1944 reuse the Valve specification (ValveSpec.v)",
    "correspondence: extraction, driver, harness running each game's real query_with_timeout (query for Battalion 1944) under the scripted transport",
    "Eco (HTTP + JSON through ureq / serde_json) is outside the scripted transport; its field mapping is covered by C15's translated view only",
]
RULE = ("seed-generated states per game (numbers at type boundaries, empty and multi-byte strings, Mindustry strings of 127 / 128 / 129 / 200 / 255 bytes, optional trailing mode name, JC2M reported count below / equal / above the listed players and dishonest list count, "
        "FFOW server / environment letters in both cases, The Ship and Battalion 1944 from the Valve state generator with bat_* rules present or absent); mutations: truncation at a random byte, bit flip; "
        "non-trivial = any; distinct by case bytes")
GAMES = ["ffow", "savage2", "jc2m", "mindustry", "theship", "battalion1944"]
LIMIT = [1400, 1024, 2048, 500, 1400, 1400]


def game_case(game, port, ts, events):
    return (bytes([50, game]) + port.to_bytes(2, "big") + enc_ts(ts) + enc_events(events) + b"\x00\x00\x00").hex()


def gen_cases(tier, rng):
    n = 100 if tier == "quick" else 6000
    cases = []
    for game in range(6):
        seeds = [rng.fork("g%d/%d" % (game, i)).next() % (1 << 48) for i in range(n)]
        outs = run_model([(bytes([150, game]) + s.to_bytes(8, "big")).hex() for s in seeds])
        for s, o in zip(seeds, outs):
            parts = o.split("|")
            tags = dict(kv.split("=", 1) for kv in parts[-1].split(";"))
            evs = [bytes.fromhex(x) for x in parts[0].split(",")] if parts[0] else []
            expected = "|".join(parts[1:-1])
            if int(tags["max"]) > LIMIT[game] or tags.get("wf") == "false":
                continue
            if not expected.startswith("Ok(") and not expected.startswith("Err("):
                expected = "Ok(" + expected + ")"
            port = 2000 + s % 3000
            cases.append({"id": "%s/%d" % (GAMES[game], s), "hex": game_case(game, port, None, evs),
                          "meta": {"stream": GAMES[game], "expected": expected, "req": tags.get("req")}})
            r = rng.fork("mut/%d/%d" % (game, s))
            evs2 = list(evs)
            if evs2:
                i = r.below(len(evs2))
                if r.chance(1, 2):
                    evs2[i] = evs2[i][:r.below(len(evs2[i]) + 1)]
                else:
                    b = bytearray(evs2[i])
                    if b:
                        b[r.below(len(b))] ^= 1 << r.below(8)
                    evs2[i] = bytes(b)
            cases.append({"id": "%s/mut/%d" % (GAMES[game], s), "hex": game_case(game, port, None, evs2),
                          "meta": {"stream": GAMES[game] + "-malformed"}})
    return cases


def oracle(case, impl, side):
    m = case["meta"]
    if impl is None:
        return ("no-output", "no output")
    res, trace = split_result(impl)
    if "PANIC" in impl or impl in ("ABORT", "HANG"):
        return ("panic:" + m["stream"], "query does not return: %s %s" % (impl[:80], side[:200]))
    if "expected" in m:
        if res != m["expected"]:
            return ("decode-mismatch:" + m["stream"], "the reply of a %s server is not returned field by field: got %s, sent %s" % (m["stream"], res[:500], m["expected"][:500]))
        if m.get("req"):
            sends = [e.split(":", 1)[1] for e in trace.split(";") if e.startswith("S")]
            if sends != m["req"].split(","):
                return ("requests:" + m["stream"], "requests %s, the protocol asks for %s" % (sends, m["req"]))
    return None


def nontrivial(case, model):
    return True
