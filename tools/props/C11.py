"""C11 - gather toggles and the app-id check behave as documented."""
import itertools
from valve_common import *
from u2_common import u2_specs, u2_case

ID = "C11"
PROPS_FILE = "C11"
COQ_TARGETS = ["Props/C11.vo"]
TRUSTED = [
    "Coq 8.16.1 kernel; theorems closed under the global context",
    "extraction (ExtrOcamlBasic), extract/driver.ml, Rust harness + scripted transport hook",
    "the expected outcome of a section outcome under a toggle is computed by the check from the property text",
]
RULE = ("all 9 toggle pairs x section outcomes {valid, silent, malformed, challenge-then-silent} for each section x check_app_id on/off over server states whose "
        "app id is the main id, the dedicated id, another id, or unconstrained (extracted Spec generator); exhaustive over the matrix for each state; "
        "Valve games of the definitions table (those whose definition switches the app-id check off, and others) through the generic entry point with extra request settings, every field independently unset / set, against a server of the game and one of another game; Unreal 2 games through the generic entry point without extra settings x rules / players section valid, silent, malformed; Unreal 2 toggles also with a rules reply that is malformed only after well-formed pairs (a password rule and a mutator); "
        "non-trivial = some section is not valid, skipped, or the app id is rejected; distinct by case bytes")
OUTCOMES = ["valid", "silent", "malformed", "chsilent"]
U2_PARTIAL_RULES = b"\x80\x00\x00\x00\x01" + b"\x0dGamePassword\x00\x05True\x00" + b"\x08Mutator\x00\x04Abc\x00" + b"\x05\x41"


def gen_cases(tier, rng):
    cases = []
    nseeds = 6 if tier == "quick" else 40
    seeds = [rng.next() >> 1 for _ in range(nseeds * 3)]
    done = 0
    for seed in seeds:
        base = {}
        for check in (True, False):
            for p in (1, 0):
                for r in (1, 0):
                    base[(p, r, check)] = specs([seed], gather=(p, r, check))[0]
        full = base[(1, 1, True)]
        groups = reply_groups(full)
        if len(groups) != 3:
            continue
        done += 1
        if done > nseeds:
            break
        for tp, tr, check in itertools.product(range(3), range(3), (True, False)):
            for op, orr in itertools.product(OUTCOMES, OUTCOMES):
                if (tp == 0 and op != "valid") or (tr == 0 and orr != "valid"):
                    continue
                # script: info valid; players / rules per outcome, only for requested sections
                gs, vec = [groups[0]], [["valid"]]
                if tp != 0:
                    gs.append(groups[1]); vec.append([op])
                if tr != 0:
                    gs.append(groups[2]); vec.append([orr])
                evs, fails = build_fault_script(gs, vec)
                settings = specs([seed], gather=(tp, tr, check))[0]["settings"] if False else None
                # settings bytes: take the generated ones and patch the gather triple
                s = bytearray(base[(1, 1, check)]["settings"])
                # ... the gather encoding is the 4 bytes before the trailing ts byte: 01 p r c
                assert s[-5] == 1
                s[-4], s[-3], s[-2] = tp, tr, 1 if check else 0
                badgame = base[(1, 1, check)]["expected"].startswith("Err(BadGame")
                if badgame:
                    exp = "Err(BadGame)"
                else:
                    pres_p = tp != 0 and op == "valid"
                    pres_r = tr != 0 and orr == "valid"
                    fail = None
                    if tp == 2 and op != "valid":
                        fail = "Err(PacketUnderflow)" if op == "malformed" else "Err(PacketReceive)"
                    elif tr == 2 and orr != "valid":
                        fail = "Err(PacketUnderflow)" if orr == "malformed" else "Err(PacketReceive)"
                    exp = fail or base[(1 if pres_p else 0, 1 if pres_r else 0, check)]["expected"]
                cases.append({"id": "tog/%d/%d%d%d/%s/%s" % (seed, tp, tr, check, op, orr),
                              "hex": assemble(bytes(s), evs, full["bz"], fails),
                              "meta": {"stream": "valve-toggles", "expected": exp, "tp": tp, "tr": tr, "op": op, "orr": orr,
                                       "check": check, "badgame": badgame}})
    # Unreal 2: 9 toggle pairs x section outcomes
    useeds = [rng.next() >> 1 for _ in range(4 if tier == "quick" else 30)]
    for seed in useeds:
        exp = {}
        for tp in (0, 1):
            for tm in (0, 1):
                exp[(tp, tm)] = u2_specs([seed], (tp, tm))[0]
        full = exp[(1, 1)]
        evs = full["events"]
        info = evs[0]
        ti = evs.index(None)
        mr_dgs, pl_dgs = evs[1:ti], evs[ti + 1:]
        for tp, tm in itertools.product(range(3), range(3)):
            # "partial": the rules reply is malformed only after well-formed pairs (one of them the password rule): under Try
            # nothing of it may stay in the response
            for om, op in itertools.product(OUTCOMES[:3] + ["partial"], OUTCOMES[:3]):
                if (tm == 0 and om != "valid") or (tp == 0 and op != "valid"):
                    continue
                script = [info]
                if tm != 0:
                    script += ((mr_dgs + [None]) if om == "valid" else [None] if om == "silent" else [U2_PARTIAL_RULES] if om == "partial"
                               else [b"\x80\x00\x00\x00\x01\x05\x41"])
                if tp != 0:
                    script += pl_dgs if op == "valid" else ([None] if op == "silent" else [b"\x80\x00\x00\x00\x02\x01"])
                pres_m = tm != 0 and om == "valid"
                pres_p = tp != 0 and op == "valid"
                fail = None
                if tm == 2 and om != "valid":
                    fail = "Err(PacketBad)" if om in ("malformed", "partial") else "Err(PacketReceive)"
                elif tp == 2 and op != "valid":
                    fail = "Err(PacketUnderflow)" if op == "malformed" else "Err(PacketReceive)"
                want = fail or ("Ok(" + exp[(1 if pres_p else 0, 1 if pres_m else 0)]["expected"] + ")")
                cases.append({"id": "u2tog/%d/%d%d/%s/%s" % (seed, tp, tm, op, om), "hex": u2_case(7778, (tp, tm), None, script),
                              "meta": {"stream": "unreal2-toggles", "expected": want, "tp": tp, "tr": tm, "op": op, "orr": om, "check": True, "badgame": False, "unreal2": True}})
    cases += extra_settings_rows(tier, rng)
    cases += unreal2_generic_rows(tier, rng)
    return cases


def unreal2_generic_rows(tier, rng):
    """Unreal 2 games of the definitions table through the generic entry points without extra settings: the protocol's
    documented defaults apply (players Try, mutators and rules Enforce), so a silent or malformed rules section fails the query"""
    import json as _json
    import C14
    from vlib import BUILD
    games = [g["id"] for g in _json.load(open(BUILD + "/gen/games.json")) if g["protocol"] == "Unreal2"]
    out = []
    for gi, gid in enumerate(games[:(3 if tier == "quick" else len(games))]):
        for k in range(2 if tier == "quick" else 8):
            seed = rng.fork("u2g/%s/%d" % (gid, k)).next() >> 1
            full = u2_specs([seed], (1, 1))[0]
            noplayers = u2_specs([seed], (0, 1))[0]
            evs = full["events"]
            info, ti = evs[0], evs.index(None)
            mr_dgs, pl_dgs = evs[1:ti], evs[ti + 1:]
            for om, op in itertools.product(OUTCOMES[:3], OUTCOMES[:3]):
                script = [info] + ((mr_dgs + [None]) if om == "valid" else ([None] if om == "silent" else [b"\x80\x00\x00\x00\x01\x05\x41"]))
                script += pl_dgs if op == "valid" else ([None] if op == "silent" else [b"\x80\x00\x00\x00\x02\x01"])
                if om != "valid":
                    want = "Err(PacketBad)" if om == "malformed" else "Err(PacketReceive)"
                else:
                    want = "Ok(" + (full if op == "valid" else noplayers)["expected"] + ")"
                for port in (None, 7000 + gi):
                    out.append({"id": "u2generic/%s/%d/%s-%s/%s" % (gid, k, om, op, "p" if port else "d"), "hex": C14.paths_case(gid, "", port, None, script),
                                "meta": {"stream": "unreal2-generic-defaults", "expected": want, "tp": 1, "tr": 2, "op": op, "orr": om, "check": True, "badgame": False, "game": gid}})
    return out


def generic_extra_case(gid, port, extra, events):
    """family 34: games::query::query_with_timeout_and_extra_settings(game, ip, port, None, extra)"""
    g = gid.encode()
    out = bytes([34]) + len(g).to_bytes(2, "big") + g + (b"\x00" if port is None else b"\x01" + port.to_bytes(2, "big"))
    if extra is None:
        out += b"\x00"
    else:
        out += b"\x01"
        for k in ("players", "rules"):
            out += b"\x00" if extra[k] is None else bytes([1, extra[k]])
        out += b"\x00" if extra["check"] is None else bytes([1, 1 if extra["check"] else 0])
        out += b"\x00\x00"
    return (out + enc_ts(None) + enc_events(events) + b"\x00\x00\x00" + b"\x00").hex()


def extra_settings_rows(tier, rng):
    """Valve games of the definitions table through the generic entry point with explicit extra request settings:
    every field independently unset or set, against a server of the game and a server of another game.
    An unset field means the protocol's default (players Try, rules Try, app id checked), whatever the definition says."""
    import json as _json
    from vlib import BUILD
    games = {g["id"]: g for g in _json.load(open(BUILD + "/gen/games.json"))}
    ids = [i for i in ("starbound", "armareforger", "teamfortress2", "garrysmod", "rust") if i in games]
    if tier != "quick":
        more = [g["id"] for g in games.values() if isinstance(g["protocol"], dict) and "Valve" in g["protocol"]
                and "Source" in g["protocol"]["Valve"] and g["protocol"]["Valve"]["Source"] and g["protocol"]["Valve"]["Source"][0] not in (240, 2400, 632360)]
        r0 = rng.fork("xsgames")
        ids += [more[r0.below(len(more))] for _ in range(20)]
    combos = [(p, r, c) for p in (None, 0, 1, 2) for r in (None, 1, 2) for c in (None, True, False)]
    if tier == "quick":
        combos = [x for x in combos if x[0] in (None, 2) and x[1] in (None, 1)]
    req, idx = [], []
    for gid in ids:
        app = games[gid]["protocol"]["Valve"]["Source"]
        for server in ("own", "foreign"):
            eng = b"\x01" + (app[0] if server == "own" else 999983).to_bytes(4, "big")
            for ci, (p, r, c) in enumerate(combos):
                eff = (1 if p is None else p, 1 if r is None else r, True if c is None else c)
                seed = rng.fork("xs/%s/%s/%d" % (gid, server, ci)).next() % (1 << 48)
                req.append((bytes([114]) + seed.to_bytes(8, "big") + eng + bytes([eff[0], eff[1], 1 if eff[2] else 0])).hex())
                idx.append((gid, server, (p, r, c), eff))
    out = []
    for (gid, server, (p, r, c), eff), o in zip(idx, run_model(req)):
        if not o or "BADCASE" in o:
            continue
        evs = [bytes.fromhex(x) for x in o.split(",")]
        out.append({"id": "xs/%s/%s/%s-%s-%s" % (gid, server, p, r, c), "hex": generic_extra_case(gid, None, {"players": p, "rules": r, "check": c}, evs),
                    "meta": {"stream": "generic-extra-settings", "game": gid, "server": server, "extra": [p, r, c], "check": eff[2], "tp": eff[0], "tr": eff[1],
                             "op": "valid", "orr": "valid", "badgame": server == "foreign" and eff[2]}})
    return out


def oracle(case, impl, side):
    res, trace = split_result(impl)
    m = case["meta"]
    if "PANIC" in (res or "") or res == "ABORT":
        return ("panic", "panicked: " + side[:200])
    if m["stream"] == "unreal2-generic-defaults":
        if res != m["expected"]:
            return ("generic-defaults:unreal2", "game %s through the generic entry point, rules section %s / players section %s: got %s, the protocol's defaults (players Try, mutators and rules Enforce) give %s"
                    % (m["game"], m["orr"], m["op"], (res or "")[:200], m["expected"][:200]))
        return None
    if m["stream"] == "generic-extra-settings":
        if m["server"] == "foreign" and m["check"] and res != "Err(BadGame)":
            return ("extra-settings:app-id-not-checked", "game %s with extra settings %s (app id check %s) against a server of another game: got %s, expected Err(BadGame)"
                    % (m["game"], m["extra"], "unset = on" if m["extra"][2] is None else "on", (res or "")[:160]))
        if not m["check"] and res == "Err(BadGame)":
            return ("extra-settings:app-id-rejected", "game %s with extra settings %s (app id check off) against a %s server: rejected with BadGame" % (m["game"], m["extra"], m["server"]))
        sent = [t.split(":", 1)[1][8:10] for t in (trace or "").split(";") if t.startswith("S")]
        if m["tp"] == 0 and "55" in sent:
            return ("skip-requested", "players set to Skip but an A2S_PLAYER request was sent")
        return None
    if res != m["expected"]:
        return ("toggle-result", "toggles p=%d r=%d check=%s outcomes %s/%s: got %s expected %s" % (m["tp"], m["tr"], m["check"], m["op"], m["orr"], res[:200], m["expected"][:200]))
    if m.get("unreal2"):
        sent = [t.split(":", 1)[1] for t in trace.split(";") if t.startswith("S")]
        if m["tp"] == 0 and "7900000002" in sent:
            return ("skip-requested", "unreal2 players set to Skip but requested")
        if m["tr"] == 0 and "7900000001" in sent:
            return ("skip-requested", "unreal2 mutators/rules set to Skip but requested")
        return None
    sent = [t.split(":", 1)[1][8:10] for t in trace.split(";") if t.startswith("S")]
    if m["tp"] == 0 and "55" in sent:
        return ("skip-requested", "players set to Skip but an A2S_PLAYER request was sent")
    if m["tr"] == 0 and "56" in sent:
        return ("skip-requested", "rules set to Skip but an A2S_RULES request was sent")
    return None


def nontrivial(case, model):
    m = case["meta"]
    return m["op"] != "valid" or m["orr"] != "valid" or m["tp"] == 0 or m["tr"] == 0 or m["badgame"]
