"""C02 - Valve A2S replies are decoded field for field."""
from valve_common import *

ID = "C02"
PROPS_FILE = "C02"
COQ_TARGETS = ["Props/C02.vo"]
TRUSTED = [
    "Coq 8.16.1 kernel; theorems closed under the global context except the stated Section hypothesis on the bzip2 oracle (bunzip (compressed) = packet)",
    "extraction (ExtrOcamlBasic), extract/driver.ml, Rust harness + scripted transport hook (socket.rs, cfg gamedig_verif)",
    "Spec/ValveSpec.v (server state, reply script, expected response) written from the Valve Server Queries reference",
    "bzip2-rs is an oracle boundary (answers supplied per case, computed with Python's bz2); crc32fast modelled as CRC-32/ISO-HDLC",
]
RULE = ("server states, transports (single / Source split / GoldSrc split / bzip2 split), challenge rounds (0-3 per request), engines and gather settings "
        "drawn by the extracted Coq generator (Spec/ValveGen.v) from per-case seeds; the extracted Spec encodes each state into the reply script and the expected response; "
        "a case is non-trivial when the expected outcome is Ok with at least one player or rule, or an app-id rejection; distinct by seed")


def gen_cases(tier, rng):
    n = 1500 if tier == "quick" else 40000
    seeds = [rng.next() >> 1 for _ in range(n)]
    sp = specs(seeds, compressed_every=4)
    cases = []
    for s in sp:
        cases.append({"id": "valid/%d" % s["seed"], "hex": assemble(s["settings"], s["dgs"], s["bz"]),
                      "meta": {"stream": "valid:" + s["tags"]["t"].rstrip("0123456789/").split("/")[0], "expected": s["expected"],
                               "tags": {k: v for k, v in s["tags"].items() if k != "pk"}, "events": [d.hex() for d in s["dgs"]]}})
    return cases


def oracle(case, impl, side):
    res, _ = split_result(impl)
    exp = case["meta"]["expected"]
    if "PANIC" in (res or "") or res == "ABORT":
        return ("panic", "query panicked on a valid reply: " + side[:200])
    bad = request_oracle(case["meta"]["tags"], [bytes.fromhex(x) for x in case["meta"]["events"]], split_result(impl)[1])
    if bad:
        return ("request-not-conforming", "a conforming server would not have answered: " + bad)
    if res != exp:
        return ("decode-mismatch:" + first_diff_field(res, exp), "response differs from the server state: got %s expected %s" % (res[:300], exp[:300]))
    return None


def first_diff_field(a, b):
    import re
    if a is None:
        return "none"
    i = 0
    while i < min(len(a), len(b)) and a[i] == b[i]:
        i += 1
    m = re.findall(r"([a-z_]+):", a[:i + 1])
    return m[-1] if m else "outcome"


def nontrivial(case, model):
    e = case["meta"]["expected"]
    return ("players:Some([{" in e) or ("rules:Some({\"" in e) or e.startswith("Err(BadGame")
