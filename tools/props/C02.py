"""C02 - Valve A2S replies are decoded field for field."""
from valve_common import *

ID = "C02"
PROPS_FILE = "C02"
COQ_TARGETS = ["Props/C02.vo"]
TRUSTED = [
    "Coq 8.16.1 kernel; theorems closed under the global context except the stated Section hypothesis on the bzip2 oracle (bunzip (compressed) = packet)",
    "extraction (ExtrOcamlBasic), extract/driver.ml, Rust harness + scripted transport hook (socket.rs, cfg gamedig_verif)",
    "Spec/ValveSpec.v (server state, reply script, expected response) written from the Valve Server Queries reference",
    "bzip2-rs is an oracle boundary (answers supplied per case, computed with Python's bz2); crc32fast modelled as CRC-32/ISO-HDLC",
]
RULE = ("server states, transports (single / Source split / GoldSrc split / bzip2 split), challenge rounds (0-3 per request), engines and gather settings "
        "drawn by the extracted Coq generator (Spec/ValveGen.v) from per-case seeds; the extracted Spec encodes each state into the reply script and the expected response; "
        "a case is non-trivial when the expected outcome is Ok with at least one player or rule, or an app-id rejection; distinct by seed")


def gen_cases(tier, rng):
    n = 1500 if tier == "quick" else 40000
    seeds = [rng.next() >> 1 for _ in range(n)]
    sp = specs(seeds, compressed_every=4)
    cases = []
    for s in sp:
        cases.append({"id": "valid/%d" % s["seed"], "hex": assemble(s["settings"], s["dgs"], s["bz"]),
                      "meta": {"stream": "valid:" + s["tags"]["t"].rstrip("0123456789/").split("/")[0], "expected": s["expected"],
                               "tags": {k: v for k, v in s["tags"].items() if k != "pk"}, "events": [d.hex() for d in s["dgs"]]}})
    cases += multiblock_cases(tier)
    cases += css7_cases(tier, rng)
    return cases


def css7_cases(tier, rng):
    """Counter-Strike: Source servers answering with protocol 7 use the split header without a size field; here
    every players / rules reply of such a server is sent bzip2-compressed (the rare corner of the generated stream)"""
    import bz2
    r = rng.fork("css7")
    seeds = [r.next() >> 1 for _ in range(4000 if tier == "quick" else 40000)]
    outs = [parse_spec(l) for l in run_model([spec_case(x) for x in seeds])]
    hits = []
    for x, o in zip(seeds, outs):
        info = [d for d in o["dgs"] if d and d[:5] == b"\xff\xff\xff\xff\x49"]
        if o["settings"][3:8] == bytes([1, 0, 0, 0, 240]) and info and info[0][5] == 7 and o["expected"].startswith("Ok("):
            hits.append((x, o))
    hits = hits[:(40 if tier == "quick" else 600)]
    second = []
    for x, o in hits:
        pk = [bytes.fromhex(h) for h in o["tags"]["pk"].split(",")]
        second.append(spec_case(x, tuple(bz2.compress(p) if j > 0 else None for j, p in enumerate(pk))))
    out = []
    for (x, _), l in zip(hits, run_model(second)):
        s = parse_spec(l)
        out.append({"id": "css7/%d" % x, "hex": assemble(s["settings"], s["dgs"], s["bz"]),
                    "meta": {"stream": "valid:css-protocol7-compressed", "expected": s["expected"],
                             "tags": {k: v for k, v in s["tags"].items() if k != "pk"}, "events": [d.hex() for d in s["dgs"]]}})
    return out


def multiblock_cases(tier):
    """A2S_RULES replies whose bzip2 stream has several blocks (over 100 kB at level 1, over 900 kB at level 9),
    split over Source packets; built here byte by byte, the expected response is the rule sent"""
    import bz2, zlib
    info = b"\xff\xff\xff\xff\x49\x11" + b"srv\x00map\x00dir\x00Game\x00" + b"\x0a\x00" + bytes([3, 16, 0, 0x64, 0x6c, 0, 1]) + b"1.0\x00" + b"\x00"
    players = b"\xff\xff\xff\xff\x44\x00"
    out = []
    for tag, size, level in (("150k-l1", 150000, 1), ("240k-l1", 240000, 1), ("950k-l9", 950000, 9)) if tier != "quick" else (("150k-l1", 150000, 1), ("240k-l1", 240000, 1)):
        value = (b"abcdefghij" * (size // 10))
        payload = b"\x45" + (2).to_bytes(2, "little") + b"motd\x00" + value + b"\x00" + b"k\x00v\xc3\xa9\x00"
        pkt = b"\xff\xff\xff\xff" + payload
        comp = bz2.compress(pkt, level)
        cut = max(1, len(comp) // 2)
        pieces = [comp[:cut], comp[cut:]]
        dgs = []
        for i, piece in enumerate(pieces):
            h = b"\xfe\xff\xff\xff" + (0x80000000 | 77).to_bytes(4, "little") + bytes([len(pieces), i]) + (1248).to_bytes(2, "little")
            if i == 0:
                h += len(pkt).to_bytes(4, "little") + (zlib.crc32(pkt) & 0xffffffff).to_bytes(4, "little")
            dgs.append(h + piece)
        bzt = bytes([1]) + len(comp).to_bytes(4, "big") + comp + len(pkt).to_bytes(4, "big") + b"\x01" + len(pkt).to_bytes(4, "big") + pkt
        settings = bytes([10]) + (27015).to_bytes(2, "big") + b"\x00" + bytes([1, 1, 2, 0]) + enc_ts(None)
        exp_rules = "rules:Some({\"k\":\"v\\xc3\\xa9\",\"motd\":\"" + value.decode() + "\"})"
        out.append({"id": "multiblock/" + tag, "hex": assemble(settings, [info, players] + dgs, bzt),
                    "meta": {"stream": "valid:compressed-multiblock", "expect_contains": exp_rules, "blocks": comp.count(b"1AY&SY")}})
    return out


def oracle(case, impl, side):
    res, _ = split_result(impl)
    if "expect_contains" in case["meta"]:
        if "PANIC" in (res or "") or res == "ABORT":
            return ("panic", "query panicked on a valid reply: " + side[:200])
        if not (res or "").startswith("Ok(") or case["meta"]["expect_contains"] not in res:
            return ("decode-mismatch:rules", "a compressed rules reply of %d bzip2 blocks is not decoded: got %s" % (case["meta"]["blocks"], (res or "")[:300]))
        return None
    exp = case["meta"]["expected"]
    if "PANIC" in (res or "") or res == "ABORT":
        return ("panic", "query panicked on a valid reply: " + side[:200])
    bad = request_oracle(case["meta"]["tags"], [bytes.fromhex(x) for x in case["meta"]["events"]], split_result(impl)[1])
    if bad:
        return ("request-not-conforming", "a conforming server would not have answered: " + bad)
    if res != exp:
        return ("decode-mismatch:" + first_diff_field(res, exp), "response differs from the server state: got %s expected %s" % (res[:300], exp[:300]))
    return None


def first_diff_field(a, b):
    import re
    if a is None:
        return "none"
    i = 0
    while i < min(len(a), len(b)) and a[i] == b[i]:
        i += 1
    m = re.findall(r"([a-z_]+):", a[:i + 1])
    return m[-1] if m else "outcome"


def nontrivial(case, model):
    if "expect_contains" in case["meta"]:
        return True
    e = case["meta"]["expected"]
    return ("players:Some([{" in e) or ("rules:Some({\"" in e) or e.startswith("Err(BadGame")
