"""C14 - definition-driven, per-game and protocol-level queries agree."""
import json
from valve_common import *
from vlib import *
from quake_common import quake_specs
from u2_common import u2_specs
from gs_common import gs_specs

ID = "C14"
PROPS_FILE = "C14"
COQ_TARGETS = ["Props/C14.vo"]
TRUSTED = [
    "Coq 8.16.1 kernel; theorems closed under the global context",
    "translators: tools/translate_games.py pre (regex over the game_query_mod! invocations and the default-port / engine literals of the hand-written modules) and post (the GAMES static as serialised by the built crate's own serde derives: macro expansion and constants are the compiler's); both regenerate Gen/*.v on every run",
    "Model/Dispatch.v is a hand-written model of games/query.rs and of the game_query_fn! wrappers; it is tied to the code by running, for every game of the table, the three generic entry points, the dedicated module and the protocol function with the definition's parameters under the same scripted server and comparing destination, request bytes and results (family 14); the generic path is also compared with the model's own run for Valve, Quake and Unreal 2 games",
    "the step from 'same call up to an unchecked, not special-cased app id' to 'same behaviour' (used by armareforger only) is a theorem (c14_engines_agree_same_run) about the Valve model",
    "Eco and Minetest (HTTP through ureq) are outside the scripted transport: only the table-level statement covers them",
    "server behaviours for Minecraft and the proprietary UDP protocols are silence and malformed replies until those protocols have reply generators (C03, C07)",
]
RULE = ("every entry of the definitions table x port omitted / given x timeout settings None / Some x server behaviours: for Valve games replies generated for the definition's engine (expected, dedicated and foreign app ids) and gather settings, "
        "complete, truncated after each datagram, and silence; Valve games with explicit extra request settings (each field unset / set) against a server of the game and of another game;  Quake, Unreal 2 and GameSpy games likewise from their reply generators; the other games silence and a malformed datagram; "
        "non-trivial = at least one path obtained a response; distinct by case bytes")

HAND = {"theship", "ffow", "jc2m", "savage2", "mindustry", "battalion1944", "minecraft", "minecraftjava", "minecraftbedrock",
        "minecraftpocket", "minecraftlegacy16", "minecraftlegacy14", "minecraftlegacyb18"}
TOG = {"Skip": 0, "Try": 1, "Enforce": 2, None: 1}


def enc_engine(e):
    if "GoldSrc" in e:
        return bytes([4 if e["GoldSrc"] else 3])
    s = e["Source"]
    if s is None:
        return b"\x00"
    if s[1] is None:
        return b"\x01" + s[0].to_bytes(4, "big")
    return b"\x02" + s[0].to_bytes(4, "big") + s[1].to_bytes(4, "big")


def paths_case(gid, module, port, ts, events):
    g, m = gid.encode(), module.encode()
    p = b"\x00" if port is None else b"\x01" + port.to_bytes(2, "big")
    return (bytes([14]) + len(g).to_bytes(2, "big") + g + len(m).to_bytes(2, "big") + m + p + enc_ts(ts)
            + enc_events(events) + b"\x00\x00\x00").hex()


def gen_cases(tier, rng):
    games = json.load(open(BUILD + "/gen/games.json"))
    mods = json.load(open(BUILD + "/gen/modules.json"))
    nseeds = 3 if tier == "quick" else 24
    # reply scripts
    vreq, vidx = [], []
    for g in games:
        pr = g["protocol"]
        eng = None
        if isinstance(pr, dict) and "Valve" in pr:
            eng = pr["Valve"]
        elif pr == {"PROPRIETARY": "TheShip"}:
            eng = {"Source": [2400, None]}
        if eng is not None:
            x = g["request_settings"]
            gat = bytes([TOG[x["gather_players"]], TOG[x["gather_rules"]], 0 if x["check_app_id"] is False else 1])
            if pr == {"PROPRIETARY": "TheShip"}:
                gat = bytes([1, 1, 1])
            for k in range(nseeds):
                seed = rng.fork("v/%s/%d" % (g["id"], k)).next() % (1 << 48)
                vreq.append((bytes([114]) + seed.to_bytes(8, "big") + enc_engine(eng) + gat).hex())
                vidx.append(g["id"])
    vout = run_model(vreq)
    scripts = {}
    for gid, o in zip(vidx, vout):
        scripts.setdefault(gid, []).append([bytes.fromhex(x) for x in o.split(",")] if o and "BADCASE" not in o else [])
    qs = {}
    for g in games:
        pr = g["protocol"]
        if isinstance(pr, dict) and "Quake" in pr:
            v = {"One": 1, "Two": 2, "Three": 3}[pr["Quake"]]
            seeds = [(rng.fork("q/%s/%d" % (g["id"], k)).next() % (1 << 48), v) for k in range(nseeds)]
            scripts[g["id"]] = [[s["dg"]] for s in quake_specs(seeds)]
        if isinstance(pr, dict) and "Gamespy" in pr:
            v = {"One": 1, "Two": 2, "Three": 3}[pr["Gamespy"]]
            seeds = [rng.fork("gs/%s/%d" % (g["id"], k)).next() % (1 << 48) for k in range(nseeds)]
            scripts[g["id"]] = [s["events"] for s in gs_specs(v, seeds) if s["fits"]]
        if pr == "Unreal2":
            seeds = [rng.fork("u/%s/%d" % (g["id"], k)).next() % (1 << 48) for k in range(nseeds)]
            scripts[g["id"]] = [s["events"] for s in u2_specs(seeds, gather=(1, 2))]
    cases = []
    for g in games:
        gid = g["id"]
        module = ""
        for m in mods["modules"]:
            if m["id"] == gid or m["name"] == g["name"]:
                module = m["id"]
        if not module and gid in HAND:
            module = gid
        r = rng.fork("g/" + gid)
        behaviours = [("silence", []), ("garbage", [bytes([0xff, 0xff, 0xff, 0xff, 0x00, 0x01])])]
        for i, evs in enumerate(scripts.get(gid, [])):
            behaviours.append(("valid%d" % i, evs))
            if len(evs) > 1:
                cut = 1 + r.below(len(evs) - 1)
                behaviours.append(("partial%d" % i, evs[:cut]))
                if tier != "quick":
                    for c in range(1, len(evs)):
                        behaviours.append(("cut%d/%d" % (i, c), evs[:c]))
        for name, evs in behaviours:
            for port in (None, 1024 + r.below(60000)):
                ts = None if (name.startswith("valid") or r.chance(2, 3)) else {"retries": r.below(2)}
                if name == "silence" and port is not None:
                    ts = {"retries": 1, "read": (1, 0)}
                cases.append({"id": "%s/%s/%s" % (gid, name, "p" if port else "d"), "hex": paths_case(gid, module, port, ts, evs),
                              "meta": {"stream": name.rstrip("0123456789/"), "game": gid, "module": module, "port": port, "ts": ts is not None}})
    # Battalion 1944: the module rewrites the player limit from a rule
    info = (b"\xff\xff\xff\xff\x49\x11" + b"srv\x00map\x00bat\x00Battalion\x00" + b"\x00\x00" + bytes([3, 16, 0, 0x64, 0x6c, 0, 1])
            + b"1.0\x00" + b"\x01" + (489940).to_bytes(8, "little"))
    players = b"\xff\xff\xff\xff\x44\x00"
    rules = b"\xff\xff\xff\xff\x45\x01\x00bat_max_players_i\x0012\x00"
    # extra request settings through the generic entry point (Minecraft Java): same handshake as the protocol-level call
    # with the equivalent settings (host name and protocol version independently present or absent)
    import C09
    for c in C09.minecraft_extra_cases(tier, rng.fork("mcx"), rng.fork("mcx-r")):
        c["meta"]["game"] = "minecraftjava"
        c["meta"]["stream"] = "minecraft-extra-settings"
        cases.append(c)
    # Valve games through the generic entry point with extra request settings: the model side of these cases is the
    # protocol-level call with the equivalent gather settings (Model/Dispatch.v dispatch), so a mismatch is a disagreement of the paths
    import C11
    for c in C11.extra_settings_rows(tier, rng.fork("xs")):
        c["meta"]["stream"] = "valve-extra-settings"
        cases.append(c)
    cases.append({"id": "battalion1944/rule", "hex": paths_case("battalion1944", "battalion1944", None, None, [info, players, rules]),
                  "meta": {"stream": "valid", "game": "battalion1944", "module": "battalion1944", "port": None, "ts": False}})
    return cases


def kind_of(diff):
    """a!=e0[res|trace][res|trace] -> which part differs"""
    try:
        body = diff.split("[", 1)[1]
        x, y = body[:-1].split("][", 1)
        tx, ty = x.rsplit("|", 1)[1], y.rsplit("|", 1)[1]
    except Exception:
        return "?"
    if tx == ty:
        return "behaviour"
    import re
    px, py = re.findall(r"\b[UT](\d+)", tx), re.findall(r"\b[UT](\d+)", ty)
    if px != py:
        return "port"
    return "behaviour"


def oracle(case, impl, side):
    if impl is None:
        return ("no-output", "no output")
    if case["meta"].get("stream") == "minecraft-extra-settings":
        import C09
        f = C09.oracle(case, impl, side)
        return None if f is None else ("extra-settings:minecraftjava", "the generic entry point with extra request settings does not send what the protocol-level call with the equivalent settings sends: " + f[1])
    if case["meta"].get("stream") == "valve-extra-settings":
        import C11
        c2 = dict(case); c2["meta"] = dict(case["meta"], stream="generic-extra-settings")
        f = C11.oracle(c2, impl, side)
        return None if f is None else ("extra-settings:" + case["meta"]["game"], "the generic entry point with extra request settings does not behave like the protocol-level call with the equivalent settings: " + f[1])
    if "paths=DIFF" in side:
        d = side.split("paths=DIFF ", 1)[1].split(";module=", 1)[0]
        first = d.split(" ", 1)[0] if "[" not in d.split(" ", 1)[0] else d
        kind = kind_of(d.split("] ", 1)[0] + "]" if "] " in d else d)
        pair = d.split("[", 1)[0]
        import re
        pairs = sorted(set(re.findall(r"(?:^| )([a-e]\w*)!=\w+\[", d)))
        # the signature names which entry points disagree with the protocol-level call: a recorded finding
        # covers exactly that set (a = query, b = with timeout, c = with extra settings, d = the game's module)
        return ("paths-differ:%s:%s:%s" % (case["meta"]["game"], kind, "".join(pairs)),
                "game %s (%s, port %s): path %s differ in %s: %s" % (case["meta"]["game"], case["id"], case["meta"]["port"], pair, kind, d[:700]))
    if "paths=ok" not in side and not impl.startswith("Err(InvalidInput"):
        return ("no-path-summary", "harness printed no path comparison: " + side[:200])
    return None


def nontrivial(case, model):
    return "Ok(" in (model or "")


def extra_runs(tier, rng, ctx):
    """table-level counterparts of the behavioural comparison, for games the scripted transport cannot reach"""
    games = json.load(open(BUILD + "/gen/games.json"))
    mods = json.load(open(BUILD + "/gen/modules.json"))
    fails = []
    prop = {"TheShip": "theship", "FFOW": "ffow", "JC2M": "jc2m", "Savage2": "savage2", "Eco": "eco", "Mindustry": "mindustry"}
    for g in games:
        pr = g["protocol"]
        if isinstance(pr, dict) and "PROPRIETARY" in pr and isinstance(pr["PROPRIETARY"], str) and pr["PROPRIETARY"] in prop:
            hp = mods["hand_ports"].get(prop[pr["PROPRIETARY"]])
            if hp is not None and hp != g["default_port"]:
                fails.append(("table:%s:port" % g["id"],
                              "game %s with the port omitted: the generic entry point hands None to the module, which uses %d; the definition's default is %d" % (g["id"], hp, g["default_port"]),
                              {"game": g["id"], "definition_default_port": g["default_port"], "module_default_port": hp, "port": None}))
    return fails, {"games": len(games), "module_rows": len(mods["modules"])}
