"""C12 - timeouts bound every blocking step on real sockets (partial)."""
import re
from vlib import *
from valve_common import enc_ts

ID = "C12"
PROPS_FILE = "C12"
COQ_TARGETS = ["Props/C12.vo"]
CASES_PER_SHARD = 8
TRUSTED = [
    "Coq 8.16.1 kernel; theorems closed under the global context",
    "the theorems are about the network model (Model/Net.v): socket creation applies the configured timeouts before any receive, a silent peer costs exactly retries+1 receives; that a receive on a real socket returns within the timeout that was set is the operating system's contract (set_read_timeout / connect_timeout) and is measured, not proved",
    "measurement: the harness (no script installed, so the crate's real sockets are used) runs the real valve / quake / minecraft-java queries and raw exchanges through the crate-private sockets against an in-process loopback server thread (IPv4 and IPv6) and reports result, bytes seen by the server and wall-clock time; the model runs the same query on the equivalent script and yields the number of receives that wait for a full timeout",
    "write timeouts are applied but not exercised (a loopback peer never blocks a small write); scheduling slack 600 ms",
]
RULE = ("HTTP (Eco through ureq) against a web server that is silent / stalls inside the head / stalls inside the body / refuses / closes, with explicit settings, with only some of the durations set, and with none (4 s defaults), TCP connects to a peer that drops the SYN (full accept queue) with connect timeouts of 250-1500 ms; Minecraft auto and legacy queries (five and three sockets in turn) against a peer that accepts and stays silent; UDP (valve, quake 3, quake 3 through the generic entry point) and TCP (minecraft java) queries x IPv4 / IPv6 loopback x server silent from the start / after the first reply / after every challenge it hands out / refusing / closing x read timeout 150 / 300 ms (write timeout different from read) x retries 0..2; "
        "raw exchanges through UdpSocket / TcpSocket with payloads of 0, 1, 1024, 1025, 6144, 65487, 65488, 65507 bytes and requested sizes None / 65535; "
        "bounds: elapsed within [k*read - 60 ms, k*read + 600 ms] where k is the model's number of timed-out receives; non-trivial = k > 0 or payload > 1024; distinct by case bytes")

INFO = (b"\xff\xff\xff\xff\x49\x11" + b"srv\x00map\x00dir\x00Game\x00" + b"\x0a\x00" + bytes([3, 16, 0, 0x64, 0x6c, 0, 1]) + b"1.0\x00" + b"\x00")
CHALLENGE = b"\xff\xff\xff\xff\x41\x11\x22\x33\x44"
QUAKE = b"\xff\xff\xff\xffstatusResponse\n\\sv_hostname\\h\\mapname\\m\\sv_maxclients\\8\n5 10 \"bob\"\n"


def real_case(fam, kind, v6, ts, replies, after, payload=b"", size=None):
    out = bytes([fam, kind, 1 if v6 else 0]) + enc_ts(ts) + bytes([len(replies)])
    for r in replies:
        out += len(r).to_bytes(4, "big") + r
    out += bytes([after]) + len(payload).to_bytes(4, "big") + payload
    out += b"\x00" if size is None else b"\x01" + size.to_bytes(4, "big")
    return out.hex()


def ms(n):
    return (n // 1000, (n % 1000) * 1000000)


def gen_cases(tier, rng):
    specs = []
    reads = (150, 300) if tier == "quick" else (100, 150, 300, 500)
    for v6 in (False, True):
        for read in reads:
            for retries in (0, 1, 2):
                ts = {"connect": ms(1000), "read": ms(read), "write": ms(read * 5 + 700), "retries": retries}
                specs.append(("valve-silent", 0, v6, ts, [], 0, b"", None))
                specs.append(("valve-mid", 0, v6, ts, [INFO], 0, b"", None))
                # every plain request is answered with a challenge, every challenged request with nothing:
                # one attempt = one plain and one challenged request, and only the latter waits for the timeout
                specs.append(("valve-challenge-then-silent", 0, v6, ts, [CHALLENGE, b""] * (retries + 3), 0, b"", None))
                specs.append(("quake-silent", 1, v6, ts, [], 0, b"", None))
                specs.append(("java-stall", 2, v6, ts, [], 0, b"", None))
                specs.append(("java-partial", 2, v6, ts, [b"\x10\x00\x05abc"], 0, b"", None))
                if retries == 0:
                    specs.append(("quake-ok", 1, v6, ts, [QUAKE], 0, b"", None))
                    # the same through the generic entry point (game of the definitions table, address, port)
                    specs.append(("generic-quake-ok", 8, v6, ts, [QUAKE], 0, b"", None))
                    specs.append(("generic-quake-silent", 8, v6, ts, [], 0, b"", None))
                    specs.append(("java-refused", 2, v6, ts, [], 2, b"", None))
                    specs.append(("java-closed", 2, v6, ts, [], 1, b"", None))
        # queries that open several sockets in turn (Minecraft auto: Java, Bedrock, legacy 1.6 / 1.4 / beta 1.8; legacy: the last three):
        # the peer accepts every connection and stays silent, so every socket's own read timeout is waited out once per attempt
        for read in reads[:2]:
            for retries in (0, 1):
                ts = {"connect": ms(1000), "read": ms(read), "write": ms(read * 5 + 700), "retries": retries}
                specs.append(("minecraft-auto-silent", 6, v6, ts, [], 0, b"", None))
                specs.append(("minecraft-legacy-silent", 7, v6, ts, [], 0, b"", None))
        # a peer that drops the SYN (listener with a full accept queue): the connect timeout, sub-second and whole seconds
        for conn in ((400, 1000) if tier == "quick" else (250, 400, 1000, 1500)):
            ts = {"connect": ms(conn), "read": ms(300), "write": ms(300), "retries": 0}
            specs.append(("java-syn-dropped", 2, v6, ts, [], 4, b"", None))
            specs.append(("http-syn-dropped", 5, v6, ts, [], 4, b"", None))
        # HTTP (Eco): the web server accepts and stays silent, stalls inside the response head, refuses, closes
        for read in reads:
            ts = {"connect": ms(1000), "read": ms(read), "write": ms(read * 5 + 700), "retries": 0}
            specs.append(("http-silent", 5, v6, ts, [], 0, b"", None))
            specs.append(("http-head-stall", 5, v6, ts, [b"HTTP/1.1 200 OK\r\nContent-Type: application/json\r\nContent-"], 0, b"", None))
            specs.append(("http-body-stall", 5, v6, ts, [b"HTTP/1.1 200 OK\r\nContent-Type: application/json\r\nContent-Length: 500\r\n\r\n{\"Info\":"], 0, b"", None))
        # ... and with a read timeout well above the slack, so that a second full wait shows
        ts = {"connect": ms(1000), "read": ms(1000), "write": ms(1000), "retries": 0}
        specs.append(("http-body-stall", 5, v6, ts, [b"HTTP/1.1 200 OK\r\nContent-Type: application/json\r\nContent-Length: 500\r\n\r\n{\"Info\":"], 0, b"", None))
        specs.append(("http-head-stall", 5, v6, ts, [b"HTTP/1.1 200 OK\r\nContent-Type: application/json\r\nContent-"], 0, b"", None))
        # only some of the three durations configured: a read timeout alone must still bound the reads
        ts = {"connect": ms(1000), "read": ms(300), "write": None, "retries": 0}
        specs.append(("http-silent-no-write-timeout", 5, v6, ts, [], 0, b"", None))
        specs.append(("valve-silent-no-write-timeout", 0, v6, ts, [], 0, b"", None))
        specs.append(("java-stall-no-write-timeout", 2, v6, ts, [], 0, b"", None))
        ts = {"connect": None, "read": ms(300), "write": ms(2000), "retries": 0}
        specs.append(("http-silent-no-connect-timeout", 5, v6, ts, [], 0, b"", None))
        specs.append(("java-stall-no-connect-timeout", 2, v6, ts, [], 0, b"", None))
        ts = {"connect": ms(1000), "read": ms(300), "write": ms(300), "retries": 0}
        specs.append(("http-refused", 5, v6, ts, [], 2, b"", None))
        specs.append(("http-closed", 5, v6, ts, [], 1, b"", None))
        if not v6:
            # no settings at all: the defaults (4 s) must still bound the query
            specs.append(("http-silent-default-settings", 5, v6, None, [], 0, b"", None))
            specs.append(("java-silent-default-settings", 2, v6, None, [], 0, b"", None))
        ts = {"connect": ms(1000), "read": ms(400), "write": ms(400), "retries": 0}
        r = rng.fork("payload/%s" % v6)
        for n in (0, 1, 1024, 1025, 6144, 65487, 65488, 65507):
            payload = bytes((i * 7 + n) % 251 for i in range(n))
            specs.append(("udp-echo", 3, v6, ts, [], 3, payload, 65535))
            if n in (1, 1025, 6144):
                specs.append(("udp-echo-default-size", 3, v6, ts, [], 3, payload, None))
            if 0 < n <= 6144:
                specs.append(("tcp-exchange", 4, v6, ts, [payload[::-1] + b"!"], 1, payload, None))
    cases = []
    bounds = run_model([real_case(112, *s[1:]) for s in specs])
    for i, (s, b) in enumerate(zip(specs, bounds)):
        k = int(b.split("=", 1)[1]) if b.startswith("timeouts=") else None
        tsd = s[3] if s[3] is not None else {"connect": ms(4000), "read": ms(4000)}
        tsd = dict(tsd, connect=tsd.get("connect") or ms(0))
        read = tsd["read"][0] * 1000 + tsd["read"][1] // 1000000
        conn = tsd["connect"][0] * 1000 + tsd["connect"][1] // 1000000
        meta = {"stream": s[0], "timeouts": k, "read_ms": read, "payload": len(s[6]), "connect_wait_ms": conn if s[5] == 4 else 0}
        if s[0].startswith("udp-echo"):
            got = s[6][:(s[7] if s[7] is not None else 1024)]
            meta["delivered"] = "Ok(len=%d,sum=%d)|len=%d,sum=%d" % (len(got), sum(got) % 4294967296, len(s[6]), sum(s[6]) % 4294967296)
        if s[0] == "tcp-exchange":
            meta["delivered"] = "Ok(len=%d,sum=%d)|len=%d,sum=%d" % (len(s[4][0]), sum(s[4][0]) % 4294967296, len(s[6]), sum(s[6]) % 4294967296)
        cases.append({"id": "%s/%s/%d" % (s[0], "v6" if s[2] else "v4", i), "hex": real_case(12, *s[1:]), "meta": meta})
    return cases


def oracle(case, impl, side):
    m = case["meta"]
    if impl is None:
        return ("no-output", "no output")
    if "PANIC" in impl or impl in ("ABORT",):
        return ("panic:" + m["stream"], "query on a real socket panicked: " + side[:200])
    if impl == "HANG":
        return ("blocks:" + m["stream"], "the query did not return: no timeout bounded it")
    if "delivered" in m and impl != m["delivered"]:
        return ("not-delivered-unmodified:" + m["stream"], "%s: a payload of %d bytes: result | seen by the peer = %s, expected %s" % (case["id"], m["payload"], impl[:120], m["delivered"]))
    e = re.search(r"elapsed=(\d+);", side)
    if not e or m["timeouts"] is None:
        return ("no-measurement", "no elapsed time reported: " + side[:100])
    elapsed, k, read, cw = int(e.group(1)), m["timeouts"], m["read_ms"], m.get("connect_wait_ms", 0)
    if elapsed > k * read + cw + 600:
        return ("too-slow:" + m["stream"], "%s took %d ms; %d receive(s) may wait for the %d ms read timeout each and the connect for %d ms (+600 ms slack): %s" % (case["id"], elapsed, k, read, cw, impl[:160]))
    if elapsed + 60 < k * read + cw:
        return ("too-fast:" + m["stream"], "%s took %d ms although %d receive(s) should each wait %d ms and the connect %d ms: %s" % (case["id"], elapsed, k, read, cw, impl[:160]))
    return None


def nontrivial(case, model):
    return (case["meta"]["timeouts"] or 0) > 0 or case["meta"]["payload"] > 1024 or case["meta"].get("connect_wait_ms", 0) > 0
