"""GameSpy 1/2/3 case construction (C04 and the GameSpy rows of other properties)."""
import sys
sys.path.insert(0, "/verif/tools")
from vlib import run_model
from valve_common import enc_events, enc_ts

LIMIT = {1: 1024, 2: 1024, 3: 2048}


def gs_specs(ver, seeds):
    outs = run_model([(bytes([140 + ver]) + s.to_bytes(8, "big")).hex() for s in seeds])
    res = []
    for s, o in zip(seeds, outs):
        parts = o.split("|")
        tags = dict(kv.split("=", 1) for kv in parts[-1].split(";"))
        evs = [bytes.fromhex(x) for x in parts[0].split(",")] if parts[0] else []
        res.append({"seed": s, "ver": ver, "events": evs, "expected": parts[1], "vars": parts[2], "tags": tags,
                    "fits": int(tags["max"]) <= LIMIT[ver]})
    return res


def gs_case(ver, port, mode, ts, events, send_fail=()):
    sf = bytes([len(send_fail)]) + b"".join(i.to_bytes(2, "big") for i in send_fail)
    return (bytes([40 + ver]) + port.to_bytes(2, "big") + bytes([mode]) + enc_ts(ts) + enc_events(events) + b"\x00\x00" + sf).hex()
