"""C09 - requests are the protocol's, go to the right port, and echo challenges."""
from valve_common import *
from quake_common import quake_specs, quake_case
from u2_common import u2_specs, u2_case
from gs_common import gs_specs, gs_case
import json as _json
from vlib import BUILD

ID = "C09"
PROPS_FILE = "C09"
COQ_TARGETS = ["Props/C09.vo"]
TRUSTED = [
    "Coq 8.16.1 kernel; theorems closed under the global context (Section hypothesis: the bzip2 oracle returns a value or an error)",
    "extraction (ExtrOcamlBasic), extract/driver.ml, Rust harness + scripted transport hook (records every send with its destination)",
    "the request language is re-stated independently in tools/props/valve_common.py request_oracle for the check on the implementation",
    "request theorems: Valve, Quake, Unreal 2 (and C04 for the GameSpy 3 challenge); GameSpy, the Minecraft handshake and the default ports of the definitions table are covered by the request oracle on the implementation and by model = implementation",
]
RULE = ("every case compares the full send log of model and implementation; valid Spec-generated exchanges with 0-3 challenge rounds per request and stratified challenge bytes "
        "{00,0a,41,5c,ff,fe,01,80}^4 plus random, all engines, ports 27015-27019, plus mutated scripts; Quake, Unreal 2, GameSpy 1/2/3 requests and GameSpy 3 challenges (0, negatives, i32 extremes); every UDP game of the definitions table through the generic entry point with the port given / omitted, and through its own module with the port omitted (both must use the same default port); the games-level Minecraft functions with the port omitted (Java / legacy TCP 25565, Bedrock UDP 19132); the Minecraft Java handshake with host name / protocol version settings; the requests of every attempt after a lost datagram or a failed send (GameSpy 1/2/3, JC2-MP, Mindustry, Bedrock, retries 1..3); the request oracle walks the observed trace against the script; "
        "non-trivial = at least one challenge was echoed; distinct by case bytes")


def gen_cases(tier, rng):
    cases = []
    n = 1200 if tier == "quick" else 30000
    seeds = [rng.next() >> 1 for _ in range(n)]
    sp = specs(seeds, compressed_every=7)
    r = rng.fork("ch")
    for s in sp:
        evs = list(s["dgs"])
        # re-draw the challenge values: stratified bytes and fully random ones
        for i, d in enumerate(evs):
            if is_challenge(d) and r.chance(1, 2):
                c = r.bytes(4) if r.chance(1, 2) else r.bytes(4, [0x00, 0x0a, 0x41, 0x5c, 0xff])
                if r.chance(1, 6):
                    c = r.bytes(r.choice([0, 1, 3, 5, 8, 64]))      # servers with odd challenge lengths
                evs[i] = d[:5] + c
        mutated = False
        if r.chance(1, 4):
            _, evs = mutate(evs, r); mutated = True
        cases.append({"id": "req/%d" % s["seed"], "hex": assemble(s["settings"], evs, s["bz"]),
                      "meta": {"stream": "valve-requests" + ("-mutated" if mutated else ""), "events": [None if e is None else e.hex() for e in evs],
                               "tags": {k: v for k, v in s["tags"].items() if k != "pk"}}})
    qs = quake_specs([(rng.next() >> 1, 1 + (i % 3)) for i in range(150 if tier == "quick" else 3000)])
    for q in qs:
        port = r.choice([27960, 27500, 27910, 1, 65535])
        retries = r.below(3)
        evs = [None] * r.below(retries + 2) + [q["dg"]]
        cases.append({"id": "qreq/%d" % q["seed"], "hex": quake_case(port, q["ver"], {"retries": retries}, evs),
                      "meta": {"stream": "quake-requests", "quake": q["ver"], "port": port, "events": [], "tags": {}}})
    for u in u2_specs([rng.next() >> 1 for _ in range(150 if tier == "quick" else 3000)], (1, 2)):
        port = r.choice([7778, 7787, 1, 65535])
        cases.append({"id": "ureq/%d" % u["seed"], "hex": u2_case(port, r.choice([None, (1, 2), (2, 2), (0, 2), (1, 0)]), {"retries": r.below(3)}, u["events"]),
                      "meta": {"stream": "unreal2-requests", "unreal2": True, "port": port, "events": [], "tags": {}}})
    # GameSpy: fixed requests, and the GameSpy 3 data request must carry the server's challenge (any i32)
    for ver in (1, 2, 3):
        for g in gs_specs(ver, [rng.next() >> 1 for _ in range(100 if tier == "quick" else 3000)]):
            if not g["fits"]:
                continue
            port = r.choice([7777, 1, 65535, 23000])
            if ver == 3:
                c = r.choice([0, 1, -1, 2147483647, -2147483648, 16909060, -16909060, r.below(1 << 32) - (1 << 31)])
                evs = [b"\x09\x00\x00\x00\x01" + str(c).encode() + b"\x00"] + g["events"][1:]
                ch = b"" if c == 0 else (c & 0xffffffff).to_bytes(4, "big")
                req = ["fefd0900000001", "fefd0000000001" + ch.hex() + "ffffff01"]
            else:
                evs = g["events"]
                req = ["5c7374617475735c787365727665727175657279"] if ver == 1 else ["fefd0000000001ffffff"]
            cases.append({"id": "gs%dreq/%d" % (ver, g["seed"]), "hex": gs_case(ver, port, 0, None, evs),
                          "meta": {"stream": "gamespy%d-requests" % ver, "fixed": req, "port": port, "events": [], "tags": {}}})
    # the generic entry point: default ports of every UDP game, and extra request settings
    # (host name, protocol version) in the Minecraft Java handshake
    games = _json.load(open(BUILD + "/gen/games.json"))
    for g in games:
        pr = g["protocol"]
        if isinstance(pr, dict) and ("Valve" in pr or "Gamespy" in pr or "Quake" in pr) or pr == "Unreal2":
            for port in (None, 1024 + r.below(60000)):
                cases.append({"id": "port/%s/%s" % (g["id"], port), "hex": generic_case(g["id"], port, None, [], []),
                              "meta": {"stream": "default-port", "dest": port if port is not None else g["default_port"], "events": [], "tags": {}}})
    # the same games through their dedicated modules with the port omitted: the module's default port must be the definition's
    import C14
    mods = _json.load(open(BUILD + "/gen/modules.json"))
    for g in games:
        pr = g["protocol"]
        if not (isinstance(pr, dict) and ("Valve" in pr or "Gamespy" in pr or "Quake" in pr) or pr == "Unreal2"):
            continue
        module = ""
        for m in mods["modules"]:
            if m["id"] == g["id"] or m["name"] == g["name"]:
                module = m["id"]
        if module:
            cases.append({"id": "modport/%s" % g["id"], "hex": C14.paths_case(g["id"], module, None, {"retries": 0}, []),
                          "meta": {"stream": "module-default-port", "game": g["id"], "events": [], "tags": {}}})
    # the games-level Minecraft functions with the port omitted: every variant on its own default port (Java / legacy TCP 25565, Bedrock UDP 19132)
    import C03
    for c in C03.module_port_rows(tier, rng, [], [], []):
        c["meta"].update({"stream": "minecraft-module-default-port", "events": [], "tags": {}})
        cases.append(c)
    cases += minecraft_extra_cases(tier, rng, r)
    # the requests of an attempt that follows a lost datagram or a failed send (retries 1..3): every attempt sends the same
    # requests as the first one, whatever went wrong before
    import C10
    for c in C10.whole_exchange_rows(tier, rng.fork("after-fault")):
        if c["meta"]["r"] >= 1 and len(c["meta"]["vec"]) >= 2:
            c["meta"] = {"stream": "requests-after-a-fault", "proto": c["meta"]["stream"].split("-")[0], "events": [], "tags": {}, "vec": c["meta"]["vec"]}
            cases.append(c)
    return cases


def minecraft_extra_cases(tier, rng, r, every_pair=False):
    """the generic entry point with extra request settings on Minecraft Java: the handshake must carry the
    host name (default "gamedig") and the protocol version (default -1) of the settings, each independently"""
    import C03
    cases = []
    mcseeds = [rng.next() >> 1 for _ in range(60 if tier == "quick" else 1500)]
    outs = run_model([(bytes([133]) + x.to_bytes(8, "big") + bytes([1])).hex() for x in mcseeds])
    hosts = [None, "", "gamedig", "mc.example.org", "h\u00e9te", "a" * 127, "b" * 128, "c" * 300]
    protos = [None, -1, 0, 47, 763, 2147483647, -2147483648, 128, 16384]
    pairs = [(h, p) for h in hosts for p in protos]
    n = 0
    for x, o in zip(mcseeds, outs):
        if o == "SKIP":
            continue
        udp, tcp, expected, js, tags = C03.parse_spec(o)
        for k in range(3):
            # walk through every (host name, protocol version) pair, then random ones
            host, proto = pairs[n % len(pairs)] if n < len(pairs) * 2 else (r.choice(hosts), r.choice(protos))
            n += 1
            port = r.choice([None, 25565, 1, 65535, 25577])
            gid = r.choice(["minecraftjava", "minecraft"])
            extra = None if (host is None and proto is None and r.chance(1, 2)) else {"hostname": host, "protocol": proto}
            h = "gamedig" if (extra is None or host is None) else host
            pv = -1 if (extra is None or proto is None) else proto
            dest = 25565 if port is None else port
            hb = h.encode()
            hs = b"\x00" + C03_varint(pv) + C03_varint(len(hb)) + hb + dest.to_bytes(2, "little") + b"\x01"
            req = [(C03_varint(len(hs)) + hs).hex(), "0100", "0101"]
            cases.append({"id": "mcreq/%d/%d" % (x, k), "hex": generic_case(gid, port, extra, [], tcp, [js] if js else []),
                          "meta": {"stream": "minecraft-handshake", "fixed": req, "port": dest, "first_conn_only": True, "events": [], "tags": {}}})
    return cases


def C03_varint(n):
    out = b""
    n &= 0xffffffff
    while True:
        b = n & 0x7f
        n >>= 7
        if n:
            out += bytes([b | 0x80])
        else:
            return out + bytes([b])


def generic_case(gid, port, extra, udp, tcp, jsons=()):
    import C03
    g = gid.encode()
    out = bytes([34]) + len(g).to_bytes(2, "big") + g + (b"\x00" if port is None else b"\x01" + port.to_bytes(2, "big"))
    if extra is None:
        out += b"\x00"
    else:
        out += b"\x01" + b"\x00\x00\x00"
        h = extra.get("hostname")
        out += b"\x00" if h is None else b"\x01" + len(h.encode()).to_bytes(2, "big") + h.encode()
        p = extra.get("protocol")
        out += b"\x00" if p is None else b"\x01" + (p & 0xffffffff).to_bytes(4, "big")
    out += enc_ts(None) + C03.enc_script(udp, tcp)
    tbl = bytes([len(jsons)])
    for t in jsons:
        pj = C03.strict_json(t)
        from view_common import enc_tree
        tbl += len(t).to_bytes(4, "big") + t + (b"\x00" if pj is None else b"\x01" + enc_tree(pj[1]))
    return (out + tbl).hex()


QUAKE_REQ = {1: "ffffffff73746174757300", 2: "ffffffff73746174757300", 3: "ffffffff67657473746174757300"}


def oracle(case, impl, side):
    if case["meta"]["stream"] == "minecraft-module-default-port":
        import C03
        return C03.oracle({"meta": dict(case["meta"], stream="module-default-port")}, impl, side)
    if case["meta"]["stream"] == "module-default-port":
        if "paths=DIFF" in side and "d!=" in side:
            return ("default-port:" + case["meta"]["game"],
                    "game %s with the port omitted: its module and its definition do not send the same requests to the same port: %s" % (case["meta"]["game"], side[:300]))
        return None
    if case["meta"]["stream"] == "requests-after-a-fault":
        res, trace = split_result(impl)
        sends = [t[1:].partition(":")[2] for t in (trace or "").split(";") if t.startswith("S")]
        proto = case["meta"]["proto"]
        if proto in ("gs3", "jc2m"):
            for d in sends:
                if d.startswith("fefd09") and d != "fefd0900000001":
                    return ("request-after-fault:" + proto, "%s after faults %s: a handshake %s, the protocol's handshake is fefd0900000001" % (proto, case["meta"]["vec"], d[:40]))
                if d.startswith("fefd00") and not d.startswith("fefd0000000001"):
                    return ("request-after-fault:" + proto, "%s after faults %s: a data request %s does not carry session id 1" % (proto, case["meta"]["vec"], d[:40]))
                if not d.startswith("fefd"):
                    return ("request-after-fault:" + proto, "%s after faults %s: a datagram %s that is not a request of the protocol" % (proto, case["meta"]["vec"], d[:40]))
        elif sends and any(d != sends[0] for d in sends):
            return ("request-after-fault:" + proto, "%s after faults %s: the attempts do not send the same request: %s" % (proto, case["meta"]["vec"], sorted(set(sends))[:3]))
        return None
    if "dest" in case["meta"]:
        res, trace = split_result(impl)
        ports = set(int(t[1:].split(":")[0].split("c")[0]) for t in (trace or "").split(";") if t[:1] in ("U", "T", "S"))
        if ports != {case["meta"]["dest"]}:
            return ("wrong-port", "%s: traffic to ports %s, expected %d" % (case["id"], sorted(ports), case["meta"]["dest"]))
        return None
    if "fixed" in case["meta"]:
        res, trace = split_result(impl)
        sends = []
        for t in (trace or "").split(";"):
            if t.startswith("S"):
                p, _, d = t[1:].partition(":")
                if int(p) != case["meta"]["port"]:
                    return ("wrong-port", "%s sent to port %s, expected %d" % (case["id"], p, case["meta"]["port"]))
                sends.append(d)
        exp = case["meta"]["fixed"]
        if case["meta"].get("first_conn_only"):
            sends = sends[:len(exp)]
        if sends != exp:
            return ("request:" + case["meta"]["stream"], "%s: requests %s, the protocol defines %s" % (case["id"], [x[:80] for x in sends], [x[:80] for x in exp]))
        return None
    if "unreal2" in case["meta"]:
        res, trace = split_result(impl)
        for t in (trace or "").split(";"):
            if t.startswith("S"):
                p, _, d = t[1:].partition(":")
                if int(p) != case["meta"]["port"] or d not in ("7900000000", "7900000001", "7900000002"):
                    return ("unreal2-request", "unreal2 sent %s to port %s" % (d[:60], p))
        return None
    if "quake" in case["meta"]:
        res, trace = split_result(impl)
        for t in (trace or "").split(";"):
            if t.startswith("S"):
                p, _, d = t[1:].partition(":")
                if int(p) != case["meta"]["port"] or d != QUAKE_REQ[case["meta"]["quake"]]:
                    return ("quake-request", "quake %d sent %s to port %s" % (case["meta"]["quake"], d[:60], p))
        return None
    res, trace = split_result(impl)
    if "PANIC" in (res or ""):
        return None     # C01's business
    evs = [None if e is None else bytes.fromhex(e) for e in case["meta"]["events"]]
    bad = request_oracle(case["meta"]["tags"], evs, trace or "")
    if bad:
        return ("request:" + bad.split(":")[0][:40], bad)
    return None


def nontrivial(case, model):
    if "quake" in case["meta"] or "unreal2" in case["meta"]:
        return True
    return any(e is not None and e.startswith("ffffffff41") for e in case["meta"]["events"])


def extra_runs(tier, rng, ctx):
    return [], {"uncovered_protocols": ["eco / minetest (HTTP)"],
                "covered_by_correspondence_only": ["gamespy 1/2/3 requests and the GameSpy 3 challenge", "minecraft java handshake with host name / protocol version settings",
                                                   "default ports of the definitions table through the generic entry point (all UDP games)"]}
