"""C09 - requests are the protocol's, go to the right port, and echo challenges."""
from valve_common import *
from quake_common import quake_specs, quake_case
from u2_common import u2_specs, u2_case

ID = "C09"
PROPS_FILE = "C09"
COQ_TARGETS = ["Props/C09.vo"]
TRUSTED = [
    "Coq 8.16.1 kernel; theorems closed under the global context (Section hypothesis: the bzip2 oracle returns a value or an error)",
    "extraction (ExtrOcamlBasic), extract/driver.ml, Rust harness + scripted transport hook (records every send with its destination)",
    "the request language is re-stated independently in tools/props/valve_common.py request_oracle for the check on the implementation",
    "protocols modelled so far: Valve; the others are named in coverage.uncovered_protocols",
]
RULE = ("every case compares the full send log of model and implementation; valid Spec-generated exchanges with 0-3 challenge rounds per request and stratified challenge bytes "
        "{00,0a,41,5c,ff,fe,01,80}^4 plus random, all engines, ports 27015-27019, plus mutated scripts; the request oracle walks the observed trace against the script; "
        "non-trivial = at least one challenge was echoed; distinct by case bytes")


def gen_cases(tier, rng):
    cases = []
    n = 1200 if tier == "quick" else 30000
    seeds = [rng.next() >> 1 for _ in range(n)]
    sp = specs(seeds, compressed_every=7)
    r = rng.fork("ch")
    for s in sp:
        evs = list(s["dgs"])
        # re-draw the challenge values: stratified bytes and fully random ones
        for i, d in enumerate(evs):
            if is_challenge(d) and r.chance(1, 2):
                c = r.bytes(4) if r.chance(1, 2) else r.bytes(4, [0x00, 0x0a, 0x41, 0x5c, 0xff])
                if r.chance(1, 6):
                    c = r.bytes(r.choice([0, 1, 3, 5, 8, 64]))      # servers with odd challenge lengths
                evs[i] = d[:5] + c
        mutated = False
        if r.chance(1, 4):
            _, evs = mutate(evs, r); mutated = True
        cases.append({"id": "req/%d" % s["seed"], "hex": assemble(s["settings"], evs, s["bz"]),
                      "meta": {"stream": "valve-requests" + ("-mutated" if mutated else ""), "events": [None if e is None else e.hex() for e in evs],
                               "tags": {k: v for k, v in s["tags"].items() if k != "pk"}}})
    qs = quake_specs([(rng.next() >> 1, 1 + (i % 3)) for i in range(150 if tier == "quick" else 3000)])
    for q in qs:
        port = r.choice([27960, 27500, 27910, 1, 65535])
        retries = r.below(3)
        evs = [None] * r.below(retries + 2) + [q["dg"]]
        cases.append({"id": "qreq/%d" % q["seed"], "hex": quake_case(port, q["ver"], {"retries": retries}, evs),
                      "meta": {"stream": "quake-requests", "quake": q["ver"], "port": port, "events": [], "tags": {}}})
    for u in u2_specs([rng.next() >> 1 for _ in range(150 if tier == "quick" else 3000)], (1, 2)):
        port = r.choice([7778, 7787, 1, 65535])
        cases.append({"id": "ureq/%d" % u["seed"], "hex": u2_case(port, r.choice([None, (1, 2), (2, 2), (0, 2), (1, 0)]), {"retries": r.below(3)}, u["events"]),
                      "meta": {"stream": "unreal2-requests", "unreal2": True, "port": port, "events": [], "tags": {}}})
    return cases


QUAKE_REQ = {1: "ffffffff73746174757300", 2: "ffffffff73746174757300", 3: "ffffffff67657473746174757300"}


def oracle(case, impl, side):
    if "unreal2" in case["meta"]:
        res, trace = split_result(impl)
        for t in (trace or "").split(";"):
            if t.startswith("S"):
                p, _, d = t[1:].partition(":")
                if int(p) != case["meta"]["port"] or d not in ("7900000000", "7900000001", "7900000002"):
                    return ("unreal2-request", "unreal2 sent %s to port %s" % (d[:60], p))
        return None
    if "quake" in case["meta"]:
        res, trace = split_result(impl)
        for t in (trace or "").split(";"):
            if t.startswith("S"):
                p, _, d = t[1:].partition(":")
                if int(p) != case["meta"]["port"] or d != QUAKE_REQ[case["meta"]["quake"]]:
                    return ("quake-request", "quake %d sent %s to port %s" % (case["meta"]["quake"], d[:60], p))
        return None
    res, trace = split_result(impl)
    if "PANIC" in (res or ""):
        return None     # C01's business
    evs = [None if e is None else bytes.fromhex(e) for e in case["meta"]["events"]]
    bad = request_oracle(case["meta"]["tags"], evs, trace or "")
    if bad:
        return ("request:" + bad.split(":")[0][:40], bad)
    return None


def nontrivial(case, model):
    if "quake" in case["meta"] or "unreal2" in case["meta"]:
        return True
    return any(e is not None and e.startswith("ffffffff41") for e in case["meta"]["events"])


def extra_runs(tier, rng, ctx):
    return [], {"uncovered_protocols": ["gamespy 1/2/3", "minecraft", "mindustry", "savage2", "ffow", "definitions table ports"]}
