"""C06 - Unreal 2 replies decode strings and lists without loss or addition."""
from u2_common import *

ID = "C06"
PROPS_FILE = "C06"
COQ_TARGETS = ["Props/C06.vo"]
TRUSTED = [
    "Coq 8.16.1 kernel; theorems closed under the global context",
    "extraction, driver, Rust harness + scripted transport hook (stdout of the library is redirected during the call)",
    "Spec/Unreal2Spec.v: the reply format reconstructed from node-gamedig and UT2003/2004 servers (no normative document); encoding_rs WINDOWS_1252 / UTF_16LE are modelled (table / surrogate pairing), not verified",
]
RULE = ("server states from the extracted Spec generator: latin1 and UCS-2 strings with and without colour escapes (r,g,b over all bytes but 1b) and trailing NUL, 1-6 mutators/rules datagrams with repeated keys, "
        "0-3 player datagrams, bots iff ping 0, all 9 gather pairs; plus every length byte 0..127 in both encodings through the string decoder; "
        "non-trivial = at least one rule pair or player; distinct by case bytes")


def gen_cases(tier, rng):
    cases = []
    n = 500 if tier == "quick" else 12000
    for g in [(1, 2), (2, 2), (1, 1), (0, 2), (2, 0), (0, 0), (1, 0), (0, 1), (2, 1)]:
        seeds = [rng.next() >> 1 for _ in range(n if g == (1, 2) else n // 8)]
        for s in u2_specs(seeds, g):
            cases.append({"id": "u2/%d%d/%d" % (g[0], g[1], s["seed"]), "hex": u2_case(7778, g, None, s["events"]),
                          "meta": {"stream": "valid", "expected": "Ok(" + s["expected"] + ")", "nt": int(s["tags"]["np"]) + int(s["tags"]["nmr"])}})
    # every length byte in both encodings, through the op interpreter (family 1, op 19)
    specs = run_model([bytes([123, ln, u]).hex() for ln in range(128) for u in (0, 1)])
    for (ln, u), o in zip([(ln, u) for ln in range(128) for u in (0, 1)], specs):
        pkt, exp = o.split("|", 1)
        pkt = bytes.fromhex(pkt)
        hexcase = (bytes([1, 0]) + len(pkt).to_bytes(2, "big") + pkt + bytes([2, 19, 21])).hex()
        cases.append({"id": "len/%d/%d" % (ln, u), "hex": hexcase,
                      "meta": {"stream": "length-bytes", "expected": "%d:Ok(%s)@%d;Ok(0)@%d" % (len(pkt), exp, len(pkt), len(pkt)), "nt": 1}})
    return cases


def oracle(case, impl, side):
    m = case["meta"]
    if m["stream"] == "length-bytes":
        if impl != m["expected"]:
            return ("string-mismatch", "string decoder returned %s expected %s" % (impl[:200], m["expected"][:200]))
        return None
    res, trace = split_result(impl)
    if "PANIC" in (res or ""):
        return ("panic", "panicked on a valid reply: " + side[:200])
    if res != m["expected"]:
        return ("decode-mismatch", "response differs from the server state: got %s expected %s" % (res[:300], m["expected"][:300]))
    return None


def nontrivial(case, model):
    return case["meta"]["nt"] >= 1
