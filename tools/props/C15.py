"""C15 - the protocol-independent view equals the protocol-specific data."""
from view_common import *

ID = "C15"
PROPS_FILE = "C15"
COQ_TARGETS = ["Props/C15.vo"]
TRUSTED = [
    "Coq 8.16.1 kernel; theorems closed under the global context",
    "translator tools/translate_common.py (regex reading of the impl CommonResponse / CommonPlayer blocks, the trait's default bodies and the struct definitions; closed expression grammar, anything else becomes VUnsupported and breaks the theorems); Model/View.v gives each expression form its meaning (norm / eval_s): that reading of Rust's Some(&self.f), .into(), .as_deref(), try_into().unwrap_or(0), iter().map(|p| p as &dyn CommonPlayer).collect() is trusted and is what the correspondence check validates",
    "correspondence: every one of the 17 response types (15 + Epic + Minetest, feature tls) is built through its own serde Deserialize from generated values, the real accessors, as_json() and as_original() are printed and compared with the evaluation of the translated tables (family 15) and of the hand-written specification (family 115)",
    "as_original is compared by value (serialised original inside the wrapper equals the serialised response), not by address",
    "Spec/ViewSpec.v (which field each accessor stands for) is written by hand from RESPONSES.md and the field documentation",
]
RULE = ("for each of the 17 response types: values generated from the struct definitions read from the source (every field, nested structs, enums, options, vectors of players); numbers from edge values (0, max, half range, 32768.., negatives) and random; "
        "strings distinct per field; non-trivial = the response has players or an optional view field present; distinct by case bytes")
MISMATCH_IS_FAILURE = False


def gen_cases(tier, rng):
    schema = json.load(open(SCHEMA))
    per = 40 if tier == "quick" else 4000
    cases = []
    for key, ent in schema["responses"].items():
        r = rng.fork("view/" + key)
        for i in range(per):
            try:
                v = gen_value(ent["shape"], r, "v")
            except ValueError as e:
                cases.append({"id": "%s/%d" % (key, i), "hex": view_case(15, key, None), "meta": {"stream": key, "spec": "NO-GENERATOR " + str(e), "np": 0}})
                break
            pl = v.get("players")
            if isinstance(pl, dict):
                pl = pl.get("players")
            cases.append({"id": "%s/%d" % (key, i), "hex": view_case(15, key, v),
                          "meta": {"stream": key, "spechex": view_case(115, key, v), "np": len(pl) if isinstance(pl, list) else 0}})
    specs = run_model([c["meta"].pop("spechex") for c in cases if "spechex" in c["meta"]])
    j = 0
    for c in cases:
        if "spec" not in c["meta"]:
            c["meta"]["spec"] = specs[j]
            j += 1
    return cases


def oracle(case, impl, side):
    spec = case["meta"]["spec"]
    if impl is None:
        return ("no-output", "no output")
    if "PANIC" in impl or impl == "ABORT":
        return ("panic", "building the view panicked: " + side[:200])
    if impl.startswith("NOT-A-") or spec.startswith("NO-"):
        return None     # the generator does not produce this type's values any more: reported as a broken tie by the runner
    if impl == spec:
        return None
    a, b = impl.split("|"), spec.split("|")
    which = "?"
    for x, y in zip(a, b):
        if x != y:
            which = x.split("=", 1)[0]
            break
    return ("view:%s:%s" % (case["meta"]["stream"], which),
            "the view of a %s response differs from its protocol-specific fields at %s: got %s, fields say %s" % (
                case["meta"]["stream"], which, impl[:300], spec[:300]))


def nontrivial(case, model):
    return case["meta"]["np"] > 0 or "=None|" not in model
