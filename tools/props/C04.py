"""C04 - GameSpy 1/2/3 replies are decoded completely."""
from vlib import *
from gs_common import *
from valve_common import split_result

ID = "C04"
PROPS_FILE = "C04"
COQ_TARGETS = ["Props/C04.vo"]
TRUSTED = [
    "Coq 8.16.1 kernel; theorems closed under the global context",
    "hand-written models Model/Gamespy.v of protocols/gamespy/protocols/{one,two,three}/protocol.rs and common.rs; HashMap modelled as an association list (iteration only in extract_players, order-independent unless two variables name the same player field)",
    "Spec/GamespySpec.v: server states, wire encoders and expected responses written from the protocol descriptions; generators driven by the seed inside Coq",
    "str::to_lowercase and str::trim are modelled for ASCII; values are valid UTF-8 without NUL (and without backslash for GameSpy 1)",
    "correspondence: extraction, driver, harness running the real one/two/three::query and query_vars under the scripted transport",
]
RULE = ("seed-generated server states per version (0-29 players, 0-3 teams, 0-4 extra variables, optional fields present or absent, password / tournament texts in several spellings, numbers at type boundaries, "
        "GameSpy 1 split into parts of 120 / 300 / 900 bytes with query ids, GameSpy 2 with reordered and extra columns, GameSpy 3 with 1-10 players per packet and any 32-bit challenge), each queried with query and with query_vars; "
        "mutations: truncated, bit-flipped and reordered datagrams; non-trivial = at least one player or more than one part; distinct by case bytes")


def gen_cases(tier, rng):
    n = 120 if tier == "quick" else 8000
    cases = []
    for ver in (1, 2, 3):
        seeds = [rng.fork("gs%d/%d" % (ver, i)).next() % (1 << 48) for i in range(n)]
        for sp in gs_specs(ver, seeds):
            if not sp["fits"]:
                continue
            port = 1000 + sp["seed"] % 5000
            meta = {"stream": "gs%d" % ver, "expected": "Ok(" + sp["expected"] + ")", "np": int(sp["tags"]["np"]),
                    "parts": int(sp["tags"].get("parts", 1)), "req": sp["tags"].get("req")}
            cases.append({"id": "gs%d/%d" % (ver, sp["seed"]), "hex": gs_case(ver, port, 0, None, sp["events"]), "meta": meta})
            if ver != 2:
                cases.append({"id": "gs%d/vars/%d" % (ver, sp["seed"]), "hex": gs_case(ver, port, 1, None, sp["events"]),
                              "meta": dict(meta, stream="gs%d-vars" % ver, expected="Ok(" + sp["vars"] + ")")})
            # malformed stream: not judged against the spec, only model = implementation
            r = rng.fork("mut/%d/%d" % (ver, sp["seed"]))
            evs = list(sp["events"])
            k = r.below(4)
            if evs and k == 0:
                i = r.below(len(evs)); evs[i] = evs[i][:r.below(len(evs[i]) + 1)]
            elif evs and k == 1:
                i = r.below(len(evs)); b = bytearray(evs[i])
                if b:
                    b[r.below(len(b))] ^= 1 << r.below(8)
                evs[i] = bytes(b)
            elif len(evs) > 1 and k == 2:
                i = r.below(len(evs) - 1); evs[i], evs[i + 1] = evs[i + 1], evs[i]
            else:
                evs = evs[:r.below(len(evs) + 1)]
            cases.append({"id": "gs%d/mut/%d" % (ver, sp["seed"]), "hex": gs_case(ver, port, r.below(2) if ver != 2 else 0, None, evs),
                          "meta": {"stream": "gs%d-malformed" % ver, "np": 0, "parts": 1}})
    return cases


def oracle(case, impl, side):
    m = case["meta"]
    if impl is None:
        return ("no-output", "no output")
    res, trace = split_result(impl)
    if "PANIC" in impl or impl == "ABORT" or impl == "HANG":
        return ("panic:" + m["stream"], "gamespy query does not return: %s %s" % (impl[:80], side[:200]))
    if "expected" in m:
        if res != m["expected"]:
            return ("decode-mismatch:" + m["stream"].split("-")[0], "the reply of a %s server is not decoded as sent: got %s, sent %s" % (m["stream"], res[:400], m["expected"][:400]))
        if m.get("req"):
            sends = [e.split(":", 1)[1] for e in trace.split(";") if e.startswith("S")]
            if sends != m["req"].split(","):
                return ("requests:" + m["stream"], "requests %s, the protocol asks for %s" % (sends, m["req"]))
    return None


def nontrivial(case, model):
    return case["meta"].get("np", 0) > 0 or case["meta"].get("parts", 1) > 1
