#!/bin/bash
# Regenerate the translated parts of the model from /repo's current source.
#   pre  (before the harness is built): source text -> Gen/CommonImpls.v, Gen/ModulesTable.v, harness/src/gen_modules.rs
#   post (after): the built crate's GAMES static -> Gen/GamesTable.v
set -e
if [ "$1" = post ]; then
  python3 /verif/tools/translate_games.py post
else
  python3 /verif/tools/translate_common.py
  python3 /verif/tools/translate_games.py pre
fi
