#!/bin/bash
# Regenerate the translated parts of the model from /repo's current source.
set -e
python3 /verif/tools/translate_common.py
