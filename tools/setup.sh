#!/bin/bash
# Offline setup: build the Coq development (full .vo), the extracted driver and the harness.
set -e
export CARGO_NET_OFFLINE=true
bash /verif/tools/regen.sh
cd /verif/harness && cargo build --offline 2>&1 | tail -3
bash /verif/tools/regen.sh post
cd /verif/coq && coq_makefile -f _CoqProject -o Makefile >/dev/null
bash /verif/tools/build_model.sh
echo setup done
